//! C11 — Curve types implement the group law; encodings are canonical and checked.
//!
//! Oracle R (DESIGN.md §5 C11): every exported curve type of `midnight-curves` is driven through
//! its public operators / trait methods and every result is mapped to affine big-integer
//! coordinates (through the affine accessors of the type) and compared with the naive affine group
//! law of `mzv::refs::curve`. Decoders are compared with reference codecs written from the format
//! definitions; every successful checked decode has to be on the reference curve, in the subgroup
//! where the type promises it, and has to re-encode to the input.
//!
//! Work is split into shards; the content of a shard depends only on (seed, shard label).

#![allow(private_interfaces, deprecated, clippy::type_complexity)]

use std::collections::BTreeMap;

use ff::PrimeField;
use group::{
    cofactor::CofactorGroup, prime::PrimeCurveAffine, Curve, Group, GroupEncoding,
    UncompressedEncoding,
};
use mzv::common::*;
use mzv::refs::curve::*;
use num_bigint::BigUint;
use num_traits::{One, Zero};
use rand_chacha::ChaCha8Rng;
use rand_core::RngCore;
use rayon::prelude::*;
use serde_json::{json, Value as Json};
use subtle::{Choice, ConditionallySelectable, ConstantTimeEq};

type Rng = ChaCha8Rng;
type Res<E> = Result<Pt<E>, String>;

// =============================================================================================
// Generic checking machinery
// =============================================================================================

/// One library execution returning a point (observed as reference coordinates).
struct Op<'a, E> {
    ty: &'static str,
    op: &'static str,
    kind: &'static str,
    f: Box<dyn Fn() -> Res<E> + 'a>,
}

fn mk<'a, E>(ty: &'static str, op: &'static str, f: impl Fn() -> Res<E> + 'a) -> Op<'a, E> {
    Op { ty, op, kind: "mismatch", f: Box::new(f) }
}

/// One library execution returning a boolean.
struct BOp<'a> {
    ty: &'static str,
    op: &'static str,
    f: Box<dyn Fn() -> bool + 'a>,
}

fn mkb<'a>(ty: &'static str, op: &'static str, f: impl Fn() -> bool + 'a) -> BOp<'a> {
    BOp { ty, op, f: Box::new(f) }
}

macro_rules! op {
    ($v:ident, $ty:expr, $op:expr, $obs:expr, $e:expr) => {
        $v.push(mk($ty, $op, move || Ok($obs(&$e))))
    };
}
macro_rules! bop {
    ($v:ident, $ty:expr, $op:expr, $e:expr) => {
        $v.push(mkb($ty, $op, move || $e))
    };
}

#[derive(Clone)]
struct Opd<P, E> {
    cls: &'static str,
    p: P,
    r: Pt<E>,
    on_curve: bool,
    in_subgroup: bool,
}

struct Cx<'s, C: RCurve> {
    rep: Report,
    spec: &'s Spec<C>,
    fam: &'static str,
    shard: String,
    stats: BTreeMap<String, u64>,
}

impl<'s, C: RCurve> Cx<'s, C> {
    fn new(rep: Report, spec: &'s Spec<C>, fam: &'static str, shard: &str) -> Self {
        Cx { rep, spec, fam, shard: shard.to_string(), stats: BTreeMap::new() }
    }
    fn stat(&mut self, k: String) {
        *self.stats.entry(k).or_insert(0) += 1;
    }
    fn hx(&self, p: &PtOf<C>) -> String {
        self.spec.curve.hex(p)
    }
    fn wit(&self, ty: &str, op: &str, cls: &str, inputs: Json, expected: String, got: String) -> Json {
        json!({"family": self.fam, "shard": self.shard, "type": ty, "op": op, "classes": cls,
               "inputs": inputs, "expected": expected, "got": got})
    }

    /// Runs point-valued operations that must all equal `exp`.
    fn ops(&mut self, ops: Vec<Op<El<C>>>, exp: &Option<PtOf<C>>, cls: &str, key: u64, inputs: &dyn Fn() -> Json) {
        let Some(exp) = exp else {
            self.rep.count_n("skipped.reference-undefined", ops.len() as u64);
            return;
        };
        let exp: Res<El<C>> = Ok(exp.clone());
        self.ops_res(ops, &exp, cls, key, inputs)
    }

    fn ops_res(&mut self, ops: Vec<Op<El<C>>>, exp: &Res<El<C>>, cls: &str, key: u64, inputs: &dyn Fn() -> Json) {
        for o in ops {
            self.rep.eval();
            self.stat(format!("op|{}.{}", o.ty, o.op));
            self.stat(format!("class|{}|{}", self.fam, cls));
            self.rep.nontrivial(&(o.ty, o.op, cls, key));
            let got = catch_any(|| (o.f)());
            if matches!(&got, Ok(g) if g == exp) {
                continue;
            }
            let again = catch_any(|| (o.f)());
            if again != got {
                self.rep.inconclusive(&format!("{}/{}.{} not reproducible on re-execution", self.fam, o.ty, o.op));
                continue;
            }
            let show = |r: &Res<El<C>>| match r {
                Ok(p) => self.hx(p),
                Err(e) => e.clone(),
            };
            match got {
                Err(pi) => {
                    let w = self.wit(o.ty, o.op, cls, inputs(), show(exp), format!("panic: {} at {}", pi.message, pi.location));
                    self.rep.count("panics");
                    self.rep.violation(
                        &signature(o.ty, o.op, "panic", cls),
                        &format!("{}.{} panicked on operand classes {} ({} at {})", o.ty, o.op, cls, pi.message, pi.location),
                        w,
                    );
                }
                Ok(g) => {
                    let w = self.wit(o.ty, o.op, cls, inputs(), show(exp), show(&g));
                    let off = matches!(&g, Ok(p) if !self.spec.curve.on_curve(p));
                    let kind = if off && o.kind == "mismatch" { "off-curve" } else { o.kind };
                    self.rep.violation(
                        &signature(o.ty, o.op, kind, cls),
                        &format!("{}.{} on operand classes {}: got {} expected {}", o.ty, o.op, cls, show(&g), show(exp)),
                        w,
                    );
                }
            }
        }
    }

    fn bools(&mut self, ops: Vec<BOp>, exp: bool, cls: &str, key: u64, inputs: &dyn Fn() -> Json) {
        for o in ops {
            self.rep.eval();
            self.stat(format!("op|{}.{}", o.ty, o.op));
            self.stat(format!("class|{}|{}", self.fam, cls));
            self.rep.nontrivial(&(o.ty, o.op, cls, key));
            let got = catch_any(|| (o.f)());
            if matches!(&got, Ok(g) if *g == exp) {
                continue;
            }
            let again = catch_any(|| (o.f)());
            if again != got {
                self.rep.inconclusive(&format!("{}/{}.{} not reproducible on re-execution", self.fam, o.ty, o.op));
                continue;
            }
            match got {
                Err(pi) => {
                    let w = self.wit(o.ty, o.op, cls, inputs(), exp.to_string(), format!("panic: {} at {}", pi.message, pi.location));
                    self.rep.count("panics");
                    self.rep.violation(
                        &signature(o.ty, o.op, "panic", cls),
                        &format!("{}.{} panicked on operand classes {} ({} at {})", o.ty, o.op, cls, pi.message, pi.location),
                        w,
                    );
                }
                Ok(g) => {
                    let w = self.wit(o.ty, o.op, cls, inputs(), exp.to_string(), g.to_string());
                    self.rep.violation(
                        &signature(o.ty, o.op, "mismatch", cls),
                        &format!("{}.{} on operand classes {}: got {} expected {}", o.ty, o.op, cls, g, exp),
                        w,
                    );
                }
            }
        }
    }
}

// ---- decoders --------------------------------------------------------------------------------

#[derive(Clone, Copy, PartialEq, Eq, Debug)]
enum Policy {
    /// the decoder promises the prime-order subgroup: must accept exactly the subgroup points
    Required,
    /// points outside the subgroup may be accepted or rejected (not promised / documented either way)
    Either,
    /// the type is the full curve group: every canonical on-curve encoding must be accepted
    AcceptAll,
}

struct Dec<'a, E> {
    ty: &'static str,
    name: &'static str,
    /// checked decoders must be canonical; unchecked ones only have to agree with the reference
    /// whenever they return a point
    checked: bool,
    /// results must be on the curve (false only for "unchecked uncompressed" decoders)
    on_curve: bool,
    policy: Policy,
    /// reference error strings the documentation explicitly allows this decoder to accept
    documented_lax: &'static [&'static str],
    /// library decode: Some((observed point, its re-encoding in the same format))
    f: Box<dyn Fn(&[u8]) -> Option<(Pt<E>, Vec<u8>)> + 'a>,
}

impl<'s, C: RCurve> Cx<'s, C> {
    /// `refd`: reference decoding of `bytes` (canonical + on curve, no subgroup check).
    fn decode(&mut self, d: &Dec<El<C>>, bytes: &[u8], refd: &DecodeResult<El<C>>, in_sub: &mut Option<bool>, cls: &str) {
        self.rep.eval();
        self.stat(format!("op|{}.{}", d.ty, d.name));
        self.stat(format!("decclass|{}|{}", self.fam, cls));
        self.rep.nontrivial(&(d.ty, d.name, cls, fnv(bytes)));
        let run = || catch_any(|| (d.f)(bytes));
        let got = run();
        let mut sub = |this: &Self, p: &PtOf<C>| -> bool {
            if in_sub.is_none() {
                *in_sub = Some(this.spec.in_subgroup(p));
            }
            in_sub.unwrap()
        };
        // verdict: None = fine, Some((kind, what))
        let verdict: Option<(&'static str, String)> = match &got {
            Err(pi) => Some(("panic", format!("panicked: {} at {}", pi.message, pi.location))),
            Ok(Some((p, reenc))) => {
                let oc = self.spec.curve.on_curve(p);
                if d.on_curve && !oc {
                    Some(("off-curve", format!("accepted a point that is not on the curve: {}", self.hx(p))))
                } else if d.policy == Policy::Required && oc && !sub(self, p) {
                    Some(("accepts-outside-subgroup", format!("accepted an on-curve point outside the prime-order subgroup: {}", self.hx(p))))
                } else {
                    match refd {
                        Ok(rp) if rp != p => Some(("mismatch", format!("decoded {} but the format defines {}", self.hx(p), self.hx(rp)))),
                        Ok(_) if d.checked && reenc.as_slice() != bytes => {
                            Some(("accepts-noncanonical", "accepted bytes re-encode differently although the reference calls them canonical".to_string()))
                        }
                        Ok(_) => None,
                        Err(why) if d.checked && !d.documented_lax.contains(why) => {
                            let k = if reenc.as_slice() != bytes { "accepts-noncanonical" } else { "accepts-invalid" };
                            Some((k, format!("accepted an encoding the format forbids ({why}); decodes to {}, re-encodes to {}", self.hx(p), hx(reenc))))
                        }
                        Err(_) => None,
                    }
                }
            }
            Ok(None) => match refd {
                Ok(rp) => {
                    let must = match d.policy {
                        Policy::AcceptAll => true,
                        Policy::Required | Policy::Either => sub(self, rp),
                    };
                    if must {
                        Some(("rejects-valid", format!("rejected the canonical encoding of {}", self.hx(rp))))
                    } else {
                        None
                    }
                }
                Err(_) => None,
            },
        };
        match (&got, refd) {
            (Ok(Some(_)), _) => self.rep.count("decoders.accepted"),
            (Ok(None), _) => self.rep.count("decoders.rejected"),
            _ => {}
        }
        let Some((kind, what)) = verdict else { return };
        if run() != got {
            self.rep.inconclusive(&format!("{}/{}.{} decode not reproducible", self.fam, d.ty, d.name));
            return;
        }
        let w = json!({"family": self.fam, "shard": self.shard, "type": d.ty, "op": d.name, "classes": cls,
                       "inputs": {"bytes": hx(bytes)}, "reference": match refd { Ok(p) => self.hx(p), Err(e) => format!("invalid: {e}") }});
        if kind == "panic" {
            self.rep.count("panics");
        }
        self.rep.violation(
            &format!("C11/{}/{}/{}", d.ty, d.name, kind),
            &format!("{}.{} [{}] {}", d.ty, d.name, cls, what),
            w,
        );
    }
}

/// corpus item: bytes + class label
type Corpus = Vec<(Vec<u8>, &'static str)>;

fn flips(c: &mut Corpus, valid: &[u8]) {
    for bit in 0..valid.len() * 8 {
        let mut b = valid.to_vec();
        b[bit / 8] ^= 1 << (bit % 8);
        c.push((b, "bit-flip"));
    }
}

fn rand_bytes(rng: &mut Rng, n: usize) -> Vec<u8> {
    let mut b = vec![0u8; n];
    rng.fill_bytes(&mut b);
    b
}

fn rand_big_below(rng: &mut Rng, m: &BigUint) -> BigUint {
    let n = ((m.bits() + 7) / 8) as usize + 8;
    BigUint::from_bytes_le(&rand_bytes(rng, n)) % m
}

/// scalar classes: 0, 1, 2, r−1, random full width, random 64-bit
fn scalar_classes(rng: &mut Rng, r: &BigUint, tiny: bool) -> Vec<(&'static str, BigUint)> {
    if tiny {
        return vec![("0", BigUint::zero()), ("small", BigUint::from(rng.next_u64() >> 40))];
    }
    vec![
        ("0", BigUint::zero()),
        ("1", BigUint::one()),
        ("2", BigUint::from(2u32)),
        ("r-1", r - 1u32),
        ("random", rand_big_below(rng, r)),
        ("random", rand_big_below(rng, r)),
        ("small", BigUint::from(rng.next_u64())),
    ]
}

/// the two primitive cube roots of unity modulo the prime r (r ≡ 1 mod 3)
fn cube_roots_of_unity(r: &BigUint) -> Vec<BigUint> {
    if (r % 3u32) != BigUint::one() {
        return vec![];
    }
    let e = (r - 1u32) / 3u32;
    let mut g = BigUint::from(2u32);
    loop {
        let l = g.modpow(&e, r);
        if !l.is_one() {
            let l2 = (&l * &l) % r;
            return vec![l, l2];
        }
        g += 1u32;
    }
}


/// uniformly random element of a reference field
fn rand_el<F: RField>(f: &F, rng: &mut Rng) -> F::El {
    let nb = (f.p().bits() as usize + 7) / 8;
    let ncoef = f.byte_len() / nb;
    let mut ser = vec![];
    for _ in 0..ncoef {
        ser.extend(le_bytes(&rand_big_below(rng, f.p()), nb));
    }
    f.de(&ser, false).expect("canonical by construction")
}

/// a random on-curve reference point built without the library (x random, y = a square root)
fn rand_curve_point<F: RField>(c: &Weierstrass<F>, rng: &mut Rng) -> Pt<F::El> {
    loop {
        let x = rand_el(&c.f, rng);
        if let Some(y) = c.f.sqrt(&c.rhs(&x)) {
            let y = if rng.next_u32() & 1 == 1 { c.f.neg(&y) } else { y };
            return Pt::Aff(x, y);
        }
    }
}

/// Format-level corner cases of the fixed-width Weierstrass encodings: x without y, x ≥ p and
/// y ≥ p (non-canonical representatives of valid coordinates), x = p, p−1, 2^k−1, infinity with
/// payload. `be`/`flagidx` describe where the lowest-degree coefficient and the flag byte are.
fn format_corners<F: RField>(
    c: &Weierstrass<F>,
    enc: fn(&Weierstrass<F>, &Pt<F::El>, bool) -> Vec<u8>,
    be: bool,
    flagidx: fn(usize) -> usize,
    compressed: bool,
    corpus: &mut Corpus,
) {
    let f = &c.f;
    let p = f.p().clone();
    let n = f.byte_len();
    let nb = (p.bits() as usize + 7) / 8;
    let mut with_y = vec![];
    let mut without_y = vec![];
    let mut xi = 1u64;
    while with_y.len() < 3 || without_y.len() < 3 {
        let x = f.from_u64(xi);
        if f.is_square(&c.rhs(&x)) {
            with_y.push(x)
        } else {
            without_y.push(x)
        }
        xi += 1;
    }
    let ser = |v: &BigUint| -> Vec<u8> {
        if be {
            be_bytes(v, nb)
        } else {
            le_bytes(v, nb)
        }
    };
    // byte range of the lowest-degree coefficient of the coordinate starting at `base`
    let c0_range = |base: usize| -> std::ops::Range<usize> {
        if be {
            base + n - nb..base + n
        } else {
            base..base + nb
        }
    };
    // overwrite the c0 coefficient of a coordinate, preserving flag bits if the flag byte is inside
    let put = |e: &mut Vec<u8>, base: usize, v: &BigUint| {
        let fi = flagidx(e.len());
        let flags = e[fi] & 0xe0;
        let r = c0_range(base);
        e[r.clone()].copy_from_slice(&ser(v));
        if r.contains(&fi) {
            e[fi] |= flags;
        }
    };
    if compressed {
        for x in &without_y {
            corpus.push((enc(c, &Pt::Aff(x.clone(), f.zero()), true), "x-without-y"));
        }
    }
    for x in &with_y {
        let y = f.sqrt(&c.rhs(x)).unwrap();
        let pt = Pt::Aff(x.clone(), y.clone());
        let e = enc(c, &pt, compressed);
        corpus.push((e.clone(), "valid/small-x"));
        // x is a small integer: its c0 coefficient is x itself, all other coefficients are zero
        let x0 = f.de_raw(&f.ser(x, be), be)[0].clone();
        let mut e1 = e.clone();
        put(&mut e1, 0, &(&x0 + &p));
        corpus.push((e1, "x>=p"));
        if !compressed {
            let y0 = f.de_raw(&f.ser(&y, be), be)[0].clone();
            if (&y0 + &p).bits() as usize <= nb * 8 {
                let mut e2 = e.clone();
                put(&mut e2, n, &(&y0 + &p));
                corpus.push((e2, "y>=p"));
            }
        }
    }
    let x = with_y[0].clone();
    let base = enc(c, &Pt::Aff(x.clone(), f.sqrt(&c.rhs(&x)).unwrap()), compressed);
    for (v, cls) in [(p.clone(), "x=p"), (&p - 1u32, "x=p-1"), ((BigUint::one() << (nb * 8 - 3)) - 1u32, "x=2^k-1")] {
        let mut e = base.clone();
        put(&mut e, 0, &v);
        corpus.push((e, cls));
    }
    let inf = enc(c, &Pt::Inf, compressed);
    for pos in [0usize, 1, inf.len() / 2, inf.len() - 1] {
        for bit in [0u8, 3] {
            let mut b = inf.clone();
            b[pos] |= 1 << bit;
            if b != inf {
                corpus.push((b, "infinity/non-zero-payload"));
            }
        }
    }
}

/// Stable signature: `C11/<Type>/<op>/<kind>[ <operand shape>]`. Operator mixes of one operation
/// (`add(P,&A)`, `add_assign(&P)` …) share the signature of the operation; the exact variant is in
/// `what` and in the witness. The operand shape is appended only for operands that are not
/// elements of the prime-order group the type names.
fn signature(ty: &str, op: &str, kind: &str, cls: &str) -> String {
    let base = op.split('(').next().unwrap_or(op).trim_end_matches("_assign");
    let shape = ["outside-subgroup", "small-order", "off-curve"].iter().find(|s| cls.contains(**s));
    match shape.filter(|_| kind != "inconsistent") {
        Some(s) => format!("C11/{ty}/{base}/{kind} {s}"),
        None => format!("C11/{ty}/{base}/{kind}"),
    }
}

struct ShardOut {
    rep: Report,
    stats: BTreeMap<String, u64>,
}

#[derive(Clone, Copy, PartialEq, Eq, Debug)]
enum Mode {
    Full,
    /// tiny fixed workload for memcheck
    San,
}

// =============================================================================================
// Short Weierstrass families implementing CurveExt / CurveAffine (BLS12-381 G1, G2; BN254 G1, G2)
// =============================================================================================

macro_rules! sw_family {
    (
        $modname:ident, fam = $fam:expr, tp = $tp:expr, ta = $ta:expr, short = $short:expr,
        P = $P:ty, A = $A:ty, S = $S:ty, B = $B:ty, RF = $RF:ty,
        b2r = $b2r:expr, r2b = $r2b:expr, scalar = $scalar:expr, raw = $raw:expr, axy = $axy:expr,
        enc = $enc:path, dec = $dec:path, be = $be:expr, flag_index = $flagidx:expr,
        comp_policy = $cp:expr, uncomp_policy = $up:expr, tamper = $tamper:expr,
        extra = $extra:path
    ) => {
        pub mod $modname {
            use super::*;
            use midnight_curves::{CurveAffine, CurveExt};

            pub type C = Weierstrass<$RF>;
            pub type E = <$RF as RField>::El;
            pub type O = Opd<$P, E>;

            pub fn obs_a(a: &$A) -> Pt<E> {
                if bool::from(a.is_identity()) {
                    return Pt::Inf;
                }
                let (x, y) = $axy(a);
                Pt::Aff($b2r(&x), $b2r(&y))
            }
            pub fn obs_p(p: &$P) -> Pt<E> {
                obs_a(&p.to_affine())
            }
            pub fn from_ref(r: &Pt<E>) -> Option<$A> {
                match r {
                    Pt::Inf => Some(<$A>::identity()),
                    Pt::Aff(x, y) => Option::from(<$A as CurveAffine>::from_xy($r2b(x), $r2b(y))),
                }
            }
            fn hexp(spec: &Spec<C>, r: &Pt<E>) -> String {
                spec.curve.hex(r)
            }
            fn opd(spec: &Spec<C>, cls: &'static str, p: $P) -> O {
                let r = obs_p(&p);
                let on_curve = spec.curve.on_curve(&r);
                let in_subgroup = on_curve && spec.in_subgroup(&r);
                O { cls, p, r, on_curve, in_subgroup }
            }
            fn comp_repr(b: &[u8]) -> <$A as GroupEncoding>::Repr {
                let mut r = <$A as GroupEncoding>::Repr::default();
                r.as_mut().copy_from_slice(b);
                r
            }
            fn uncomp_repr(b: &[u8]) -> <$A as UncompressedEncoding>::Uncompressed {
                let mut r = <$A as UncompressedEncoding>::Uncompressed::default();
                r.as_mut().copy_from_slice(b);
                r
            }

            fn ref_random_point(spec: &Spec<C>, rng: &mut Rng) -> Pt<E> {
                rand_curve_point(&spec.curve, rng)
            }

            pub fn pool(cx: &mut Cx<C>, rng: &mut Rng, mode: Mode) -> Vec<O> {
                let spec = cx.spec;
                let mut v: Vec<O> = vec![];
                let id = <$P>::identity();
                let g = <$P>::generator();
                let r1 = <$P>::random(&mut *rng);
                v.push(opd(spec, "identity", id));
                v.push(opd(spec, "generator", g));
                v.push(opd(spec, "random", r1));
                if mode == Mode::San {
                    return v;
                }
                let r2 = <$P>::random(&mut *rng);
                v.push(opd(spec, "random", r2));
                v.push(opd(spec, "neg-of-random", -r1));
                // the same point as r1 in other internal representations
                v.push(opd(spec, "same-point-z!=1", (r1 + r2) - r2));
                v.push(opd(spec, "same-point-z!=1", r1.double() - r1));
                v.push(opd(spec, "same-point-z=1", <$P>::from(r1.to_affine())));
                // on-curve points outside the prime-order subgroup, through the checked-on-curve-only
                // constructor CurveAffine::from_xy
                if !spec.h.is_one() {
                    let mut found = 0;
                    while found < 2 {
                        let q = ref_random_point(spec, rng);
                        if spec.in_subgroup(&q) {
                            continue;
                        }
                        match from_ref(&q) {
                            Some(a) => {
                                let o = opd(spec, "outside-subgroup", <$P>::from(a));
                                if o.r != q {
                                    cx.rep.violation(
                                        &format!("C11/{}/from_xy/mismatch", $ta),
                                        "from_xy(x, y) of an on-curve point does not read back as (x, y)",
                                        json!({"family": $fam, "shard": cx.shard, "inputs": {"point": hexp(spec, &q)}, "got": hexp(spec, &o.r)}),
                                    );
                                }
                                v.push(o);
                            }
                            None => cx.rep.violation(
                                &format!("C11/{}/from_xy/rejects-valid", $ta),
                                "from_xy rejected an on-curve point (outside the subgroup)",
                                json!({"family": $fam, "shard": cx.shard, "inputs": {"point": hexp(spec, &q)}}),
                            ),
                        }
                        found += 1;
                    }
                    // small-order point with x = 0 (order 3 when b is a square)
                    let f = &spec.curve.f;
                    if let Some(y) = f.sqrt(&spec.curve.b) {
                        let q = Pt::Aff(f.zero(), y);
                        if let Some(a) = from_ref(&q) {
                            v.push(opd(spec, "outside-subgroup/small-order", <$P>::from(a)));
                        }
                    }
                }
                v
            }

            fn inputs2(spec: &Spec<C>, a: &O, b: &O) -> Json {
                json!({"p": hexp(spec, &a.r), "q": hexp(spec, &b.r), "p_class": a.cls, "q_class": b.cls})
            }

            pub fn run_ops(ctx: &Ctx, spec: &Spec<C>, base: &Report, label: &str, mode: Mode) -> ShardOut {
                let mut cx = Cx::new(base.fork(), spec, $fam, label);
                let mut rng = ctx.rng(label);
                let c = &spec.curve;
                let tiny = mode == Mode::San;
                let ops_pool = pool(&mut cx, &mut rng, mode);
                cx.rep.sample(json!({"family": $fam, "shard": label, "operands": ops_pool.iter().map(|o| json!({"class": o.cls, "point": hexp(spec, &o.r)})).collect::<Vec<_>>()}));

                // ---- constants
                {
                    let a_ok = $b2r(&<$P as CurveExt>::a()) == c.a && $b2r(&<$A as CurveAffine>::a()) == c.a;
                    let b_ok = $b2r(&<$P as CurveExt>::b()) == c.b && $b2r(&<$A as CurveAffine>::b()) == c.b;
                    cx.rep.eval();
                    cx.stat(format!("op|{}.a/b", $tp));
                    if !(a_ok && b_ok) {
                        cx.rep.violation(&format!("C11/{}/a-b/mismatch", $tp), "CurveExt/CurveAffine a() or b() differ from the published curve constants",
                            json!({"family": $fam, "shard": label, "inputs": {}, "a": c.f.hex(&$b2r(&<$P as CurveExt>::a())), "b": c.f.hex(&$b2r(&<$P as CurveExt>::b()))}));
                    }
                    let g = obs_p(&<$P>::generator());
                    let ga = obs_a(&<$A>::generator());
                    cx.rep.eval();
                    cx.stat(format!("op|{}.generator", $tp));
                    if g != spec.gen || ga != spec.gen {
                        cx.rep.violation(&format!("C11/{}/generator/mismatch", $tp), "generator() differs from the published generator",
                            json!({"family": $fam, "shard": label, "inputs": {}, "expected": hexp(spec, &spec.gen), "got": hexp(spec, &g)}));
                    }
                }

                // ---- per operand: sanity of the observation, unary operations
                let roots = if tiny { vec![] } else { cube_roots_of_unity(&spec.r) };
                for (i, o) in ops_pool.iter().enumerate() {
                    let p = o.p;
                    let pa = p.to_affine();
                    let key = hash_of(&(&o.r, i));
                    let inp = || json!({"p": hexp(spec, &o.r), "p_class": o.cls});
                    let in_sub = o.in_subgroup;
                    let mut b: Vec<BOp> = vec![];
                    bop!(b, $tp, "is_on_curve", bool::from(<$P as CurveExt>::is_on_curve(&p)));
                    bop!(b, $ta, "is_on_curve", bool::from(<$A as CurveAffine>::is_on_curve(&pa)));
                    cx.bools(b, o.on_curve, o.cls, key, &inp);
                    if !o.on_curve {
                        cx.rep.violation(&format!("C11/{}/to_affine/off-curve", $tp), "an operand built through public, curve-checked constructors is not on the curve",
                            json!({"family": $fam, "shard": label, "inputs": inp()}));
                        continue;
                    }
                    if !in_sub && !o.cls.starts_with("outside-subgroup") {
                        cx.rep.violation(&format!("C11/{}/{}/outside-subgroup", $tp, o.cls), "a point obtained from identity()/generator()/random() and group operations is outside the prime-order subgroup",
                            json!({"family": $fam, "shard": label, "inputs": inp()}));
                    }
                    let mut b: Vec<BOp> = vec![];
                    bop!(b, $tp, "is_identity", bool::from(p.is_identity()));
                    bop!(b, $ta, "is_identity", bool::from(pa.is_identity()));
                    cx.bools(b, c.is_identity(&o.r), o.cls, key, &inp);

                    let mut v: Vec<Op<E>> = vec![];
                    op!(v, $tp, "neg", obs_p, -p);
                    op!(v, $tp, "neg(&)", obs_p, -&p);
                    op!(v, $ta, "neg", obs_a, -pa);
                    op!(v, $ta, "neg(&)", obs_a, -&pa);
                    cx.ops(v, &Some(c.neg(&o.r)), o.cls, key, &inp);

                    let mut v: Vec<Op<E>> = vec![];
                    op!(v, $tp, "double", obs_p, p.double());
                    cx.ops(v, &c.double(&o.r), o.cls, key, &inp);

                    // conversions and coordinate accessors
                    let mut v: Vec<Op<E>> = vec![];
                    op!(v, $tp, "to_affine", obs_a, p.to_affine());
                    op!(v, $ta, "from(projective)", obs_a, <$A>::from(p));
                    op!(v, $tp, "from(affine)", obs_p, <$P>::from(pa));
                    op!(v, $ta, "to_curve", obs_p, pa.to_curve());
                    v.push(mk($ta, "coordinates", move || {
                        if bool::from(pa.is_identity()) {
                            return Ok(Pt::Inf);
                        }
                        match Option::<midnight_curves::Coordinates<$A>>::from(pa.coordinates()) {
                            Some(cc) => Ok(Pt::Aff($b2r(cc.x()), $b2r(cc.y()))),
                            None => Err("None".into()),
                        }
                    }));
                    v.push(mk($ta, "from_xy(coordinates)", move || {
                        if bool::from(pa.is_identity()) {
                            return Ok(Pt::Inf);
                        }
                        let cc = pa.coordinates().unwrap();
                        match Option::<$A>::from(<$A as CurveAffine>::from_xy(*cc.x(), *cc.y())) {
                            Some(a) => Ok(obs_a(&a)),
                            None => Err("None".into()),
                        }
                    }));
                    // x,y,z accessors: accepted if they describe the point in Jacobian or in
                    // homogeneous coordinates (the accessor names do not say which)
                    v.push(mk($tp, "x/y/z", move || {
                        let (x, y, z) = $raw(&p);
                        let (x, y, z) = ($b2r(&x), $b2r(&y), $b2r(&z));
                        let f = &spec.curve.f;
                        if f.is_zero(&z) {
                            return Ok(Pt::Inf);
                        }
                        let zi = f.inv(&z).unwrap();
                        let zi2 = f.sqr(&zi);
                        let jac = Pt::Aff(f.mul(&x, &zi2), f.mul(&y, &f.mul(&zi2, &zi)));
                        let hom = Pt::Aff(f.mul(&x, &zi), f.mul(&y, &zi));
                        let want = obs_p(&p);
                        Ok(if hom == want { hom } else { jac })
                    }));
                    // the coordinate triple named "Jacobian" must satisfy (X/Z², Y/Z³) = affine point
                    let mut jo = mk($short, "jacobian_coordinates", move || {
                        let (x, y, z) = p.jacobian_coordinates();
                        let (x, y, z) = ($b2r(&x), $b2r(&y), $b2r(&z));
                        let f = &spec.curve.f;
                        if f.is_zero(&z) {
                            return Ok(Pt::Inf);
                        }
                        let zi = f.inv(&z).unwrap();
                        let zi2 = f.sqr(&zi);
                        Ok(Pt::Aff(f.mul(&x, &zi2), f.mul(&y, &f.mul(&zi2, &zi))))
                    });
                    jo.kind = "inconsistent";
                    v.push(jo);
                    v.push(mk($tp, "new_jacobian(jacobian_coordinates)", move || {
                        let (x, y, z) = p.jacobian_coordinates();
                        match Option::<$P>::from(<$P as CurveExt>::new_jacobian(x, y, z)) {
                            Some(q) => Ok(obs_p(&q)),
                            None => Err("None".into()),
                        }
                    }));
                    cx.ops(v, &Some(o.r.clone()), o.cls, key, &inp);

                    // new_jacobian(x·l², y·l³, l) for l = 1 and a random l
                    if let Pt::Aff(x, y) = &o.r {
                        let f = &c.f;
                        let l = loop {
                            let l = rand_el(f, &mut rng);
                            if !f.is_zero(&l) && l != f.one() {
                                break l;
                            }
                        };
                        for (lcls, l) in [("z=1", f.one()), ("z!=1", l)] {
                            let l2 = f.sqr(&l);
                            let (jx, jy, jz) = ($r2b(&f.mul(x, &l2)), $r2b(&f.mul(y, &f.mul(&l2, &l))), $r2b(&l));
                            let mut nj = mk($short, "new_jacobian", move || {
                                match Option::<$P>::from(<$P as CurveExt>::new_jacobian(jx, jy, jz)) {
                                    Some(q) => Ok(obs_p(&q)),
                                    None => Err("None (valid Jacobian coordinates rejected)".into()),
                                }
                            });
                            nj.kind = "inconsistent";
                            let lh = c.f.hex(&l);
                            let cls2 = format!("{}/{}", o.cls, lcls);
                            cx.ops(vec![nj], &Some(o.r.clone()), &cls2, key, &|| json!({"p": hexp(spec, &o.r), "z": lh}));
                        }
                        // off-curve pair must be refused by from_xy
                        let (bx, by) = ($r2b(x), $r2b(&f.add(y, &f.one())));
                        let mut b: Vec<BOp> = vec![];
                        bop!(b, $ta, "from_xy(off-curve)", bool::from(<$A as CurveAffine>::from_xy(bx, by).is_some()));
                        cx.bools(b, false, o.cls, key, &inp);
                    } else {
                        // identity: record what the accessors do (documentation says coordinates() is None)
                        let some = bool::from(pa.coordinates().is_some());
                        cx.rep.count(if some { "observed.coordinates(identity)=Some" } else { "observed.coordinates(identity)=None" });
                    }

                    // endomorphism: φ(P) = λ·P for a primitive cube root of unity λ mod r
                    if !roots.is_empty() && in_sub && (i < 3 || i == 5) {
                        let cands: Vec<Pt<E>> = roots.iter().map(|l| c.mul(&o.r, l).unwrap()).collect();
                        cx.rep.eval();
                        cx.stat(format!("op|{}.endo", $tp));
                        cx.stat(format!("class|{}|{}", $fam, o.cls));
                        cx.rep.nontrivial(&($tp, "endo", o.cls, key));
                        match catch_any(|| obs_p(&p.endo())) {
                            Ok(e) => {
                                let which = cands.iter().position(|x| *x == e);
                                match which {
                                    Some(w) if !c.is_identity(&o.r) => cx.rep.count(&format!("observed.{}.endo=lambda{}", $fam, w)),
                                    Some(_) => {}
                                    None => cx.rep.violation(&format!("C11/{}/endo/mismatch", $tp), "endo(P) is not λ·P for any primitive cube root of unity λ mod r",
                                        json!({"family": $fam, "shard": label, "inputs": inp(), "got": hexp(spec, &e)})),
                                }
                            }
                            Err(pi) => cx.rep.violation(&format!("C11/{}/endo/panic", $tp), &format!("endo panicked: {}", pi.message), json!({"family": $fam, "shard": label, "inputs": inp()})),
                        }
                    }
                }
                // both roots seen in one run would mean endo is not one fixed endomorphism: checked in main

                // ---- binary operations over all ordered pairs (includes P=Q and P=−Q)
                let on: Vec<&O> = ops_pool.iter().filter(|o| o.on_curve).collect();
                for a in &on {
                    for b in &on {
                        if tiny && b.cls != "random" {
                            continue;
                        }
                        let (p, q) = (a.p, b.p);
                        let (pa, qa) = (p.to_affine(), q.to_affine());
                        let cls = format!("{}x{}", a.cls, b.cls);
                        cx.stat(format!("pair|{}|{}", $fam, cls));
                        let key = hash_of(&(&a.r, &b.r));
                        let inp = || inputs2(spec, a, b);
                        let mut v: Vec<Op<E>> = vec![];
                        op!(v, $tp, "add(P,P)", obs_p, p + q);
                        op!(v, $tp, "add(P,&P)", obs_p, p + &q);
                        op!(v, $tp, "add(&P,&P)", obs_p, &p + &q);
                        op!(v, $tp, "add(P,A)", obs_p, p + qa);
                        op!(v, $tp, "add(P,&A)", obs_p, p + &qa);
                        op!(v, $tp, "add(&P,&A)", obs_p, &p + &qa);
                        op!(v, $ta, "add(A,P)", obs_p, pa + q);
                        op!(v, $ta, "add(&A,&P)", obs_p, &pa + &q);
                        op!(v, $ta, "add(A,A)", obs_p, pa + qa);
                        op!(v, $tp, "add_assign(P)", obs_p, { let mut t = p; t += q; t });
                        op!(v, $tp, "add_assign(&P)", obs_p, { let mut t = p; t += &q; t });
                        op!(v, $tp, "add_assign(A)", obs_p, { let mut t = p; t += qa; t });
                        op!(v, $tp, "add_assign(&A)", obs_p, { let mut t = p; t += &qa; t });
                        op!(v, $tp, "sum([P,Q])", obs_p, [p, q].iter().sum::<$P>());
                        cx.ops(v, &c.add(&a.r, &b.r), &cls, key, &inp);

                        let mut v: Vec<Op<E>> = vec![];
                        op!(v, $tp, "sub(P,P)", obs_p, p - q);
                        op!(v, $tp, "sub(P,&P)", obs_p, p - &q);
                        op!(v, $tp, "sub(&P,&P)", obs_p, &p - &q);
                        op!(v, $tp, "sub(P,A)", obs_p, p - qa);
                        op!(v, $tp, "sub(P,&A)", obs_p, p - &qa);
                        op!(v, $tp, "sub(&P,&A)", obs_p, &p - &qa);
                        op!(v, $ta, "sub(A,P)", obs_p, pa - q);
                        op!(v, $ta, "sub(&A,&P)", obs_p, &pa - &q);
                        op!(v, $ta, "sub(A,A)", obs_p, pa - qa);
                        op!(v, $tp, "sub_assign(P)", obs_p, { let mut t = p; t -= q; t });
                        op!(v, $tp, "sub_assign(&P)", obs_p, { let mut t = p; t -= &q; t });
                        op!(v, $tp, "sub_assign(A)", obs_p, { let mut t = p; t -= qa; t });
                        op!(v, $tp, "sub_assign(&A)", obs_p, { let mut t = p; t -= &qa; t });
                        cx.ops(v, &c.sub(&a.r, &b.r), &cls, key, &inp);

                        let mut e: Vec<BOp> = vec![];
                        bop!(e, $tp, "eq", p == q);
                        bop!(e, $tp, "ct_eq", bool::from(p.ct_eq(&q)));
                        bop!(e, $ta, "eq", pa == qa);
                        bop!(e, $ta, "ct_eq", bool::from(pa.ct_eq(&qa)));
                        cx.bools(e, a.r == b.r, &cls, key, &inp);

                        let mut v: Vec<Op<E>> = vec![];
                        op!(v, $tp, "conditional_select(0)", obs_p, <$P>::conditional_select(&p, &q, Choice::from(0)));
                        op!(v, $ta, "conditional_select(0)", obs_a, <$A>::conditional_select(&pa, &qa, Choice::from(0)));
                        cx.ops(v, &Some(a.r.clone()), &cls, key, &inp);
                        let mut v: Vec<Op<E>> = vec![];
                        op!(v, $tp, "conditional_select(1)", obs_p, <$P>::conditional_select(&p, &q, Choice::from(1)));
                        op!(v, $ta, "conditional_select(1)", obs_a, <$A>::conditional_select(&pa, &qa, Choice::from(1)));
                        cx.ops(v, &Some(b.r.clone()), &cls, key, &inp);
                    }
                }

                // ---- scalar multiplication
                let scalars = scalar_classes(&mut rng, &spec.r, tiny);
                for (i, o) in on.iter().enumerate() {
                    // keep the reference cost bounded: every class once
                    if !tiny && i > 0 && on[..i].iter().any(|x| x.cls == o.cls) {
                        continue;
                    }
                    for (scls, k) in &scalars {
                        let p = o.p;
                        let pa = p.to_affine();
                        let s: $S = $scalar(k);
                        let cls = format!("{}*{}", o.cls, scls);
                        let key = hash_of(&(&o.r, k));
                        let kh = format!("{k:x}");
                        let inp = || json!({"p": hexp(spec, &o.r), "p_class": o.cls, "scalar": kh});
                        let mut v: Vec<Op<E>> = vec![];
                        op!(v, $tp, "mul(P,S)", obs_p, p * s);
                        op!(v, $tp, "mul(P,&S)", obs_p, p * &s);
                        op!(v, $tp, "mul(&P,&S)", obs_p, &p * &s);
                        op!(v, $tp, "mul_assign(S)", obs_p, { let mut t = p; t *= s; t });
                        op!(v, $tp, "mul_assign(&S)", obs_p, { let mut t = p; t *= &s; t });
                        op!(v, $ta, "mul(A,S)", obs_p, pa * s);
                        op!(v, $ta, "mul(A,&S)", obs_p, pa * &s);
                        op!(v, $ta, "mul(&A,&S)", obs_p, &pa * &s);
                        cx.ops(v, &c.mul(&o.r, k), &cls, key, &inp);
                    }
                }

                // ---- lists: Sum and batch_normalize (identities and z != 1 included)
                {
                    let pts: Vec<$P> = on.iter().map(|o| o.p).collect();
                    let refs: Vec<Pt<E>> = on.iter().map(|o| o.r.clone()).collect();
                    for len in [0usize, 1, 2, pts.len()] {
                        let len = len.min(pts.len());
                        let mut acc = Some(c.identity());
                        for r in &refs[..len] {
                            acc = acc.and_then(|a| c.add(&a, r));
                        }
                        let sl = &pts[..len];
                        let mut v: Vec<Op<E>> = vec![];
                        v.push(mk($tp, "sum(iter owned)", move || Ok(obs_p(&sl.iter().copied().sum::<$P>()))));
                        v.push(mk($tp, "sum(iter &)", move || Ok(obs_p(&sl.iter().sum::<$P>()))));
                        cx.ops(v, &acc, &format!("list{len}"), hash_of(&(&refs[..len], len)), &|| json!({"points": refs[..len].iter().map(|r| hexp(spec, r)).collect::<Vec<_>>()}));
                    }
                    // batch_normalize in several arrangements (identities must be harmless in every
                    // position: first, middle, last): original order, reversed, rotated by one,
                    // identity inserted between the first two points
                    let (pts0, refs0) = (pts.clone(), refs.clone());
                    for arrangement in ["original", "reversed", "rotated", "identity-inserted"] {
                    let (mut pts, mut refs) = (pts0.clone(), refs0.clone());
                    match arrangement {
                        "reversed" => { pts.reverse(); refs.reverse(); }
                        "rotated" if !pts.is_empty() => { pts.rotate_left(1); refs.rotate_left(1); }
                        "identity-inserted" if pts.len() >= 2 => {
                            pts.insert(1, <$P>::identity());
                            refs.insert(1, c.identity());
                        }
                        _ => {}
                    }
                    // batch_normalize: one library call, every output compared
                    let out = catch_any(|| {
                        let mut q = vec![<$A>::identity(); pts.len()];
                        <$P as Curve>::batch_normalize(&pts, &mut q);
                        q.iter().map(obs_a).collect::<Vec<_>>()
                    });
                    cx.rep.eval();
                    cx.stat(format!("op|{}.batch_normalize", $tp));
                    cx.rep.nontrivial(&($tp, "batch_normalize", arrangement, hash_of(&refs)));
                    let inp = json!({"arrangement": arrangement, "points": refs.iter().map(|r| hexp(spec, r)).collect::<Vec<_>>()});
                    match out {
                        Ok(q) => {
                            if let Some(j) = (0..pts.len()).find(|j| q[*j] != refs[*j]) {
                                cx.rep.violation(&format!("C11/{}/batch_normalize/mismatch", $tp),
                                    &format!("batch_normalize ({arrangement}) output {} is {} instead of {}", j, hexp(spec, &q[j]), hexp(spec, &refs[j])),
                                    json!({"family": $fam, "shard": label, "inputs": inp, "index": j}));
                            }
                        }
                        Err(pi) => {
                            cx.rep.count("panics");
                            cx.rep.violation(&format!("C11/{}/batch_normalize/panic", $tp), &format!("batch_normalize panicked: {} at {}", pi.message, pi.location),
                                json!({"family": $fam, "shard": label, "inputs": inp}));
                        }
                    }
                    }
                }

                // ---- off-curve affine value (public mutable access / fields): is_on_curve must say no
                {
                    let ga = ops_pool[2].p.to_affine();
                    let bad: $A = $tamper(ga);
                    let mut b: Vec<BOp> = vec![];
                    bop!(b, $ta, "is_on_curve(off-curve)", bool::from(<$A as CurveAffine>::is_on_curve(&bad)));
                    bop!(b, $tp, "is_on_curve(off-curve)", bool::from(<$P as CurveExt>::is_on_curve(&<$P>::from(bad))));
                    cx.bools(b, false, "off-curve", hash_of(&ops_pool[2].r), &|| json!({"from": hexp(spec, &ops_pool[2].r)}));
                    cx.stat(format!("class|{}|off-curve", $fam));
                }

                $extra(&mut cx, &ops_pool, &mut rng, mode);

                // ---- round trips of every operand through every encoding (policy-aware)
                let decs = decoders();
                for o in &on {
                    let comp = $enc(c, &o.r, true);
                    let unc = $enc(c, &o.r, false);
                    // the library's encoders must produce the canonical bytes
                    let lib_c = catch_any(|| (o.p.to_bytes().as_ref().to_vec(), o.p.to_affine().to_bytes().as_ref().to_vec(), o.p.to_affine().to_uncompressed().as_ref().to_vec()));
                    cx.rep.evals(3);
                    cx.stat(format!("op|{}.to_bytes", $tp));
                    cx.stat(format!("op|{}.to_bytes", $ta));
                    cx.stat(format!("op|{}.to_uncompressed", $ta));
                    match lib_c {
                        Ok((pc, ac, au)) => {
                            for (ty, opn, got, want) in [($tp, "to_bytes", &pc, &comp), ($ta, "to_bytes", &ac, &comp), ($ta, "to_uncompressed", &au, &unc)] {
                                if got != want {
                                    cx.rep.violation(&format!("C11/{}/{}/mismatch", ty, opn), &format!("{ty}.{opn} of a {} point is not the canonical encoding", o.cls),
                                        json!({"family": $fam, "shard": label, "inputs": {"p": hexp(spec, &o.r)}, "got": hx(got), "expected": hx(want)}));
                                }
                            }
                        }
                        Err(pi) => cx.rep.violation(&format!("C11/{}/to_bytes/panic", $tp), &format!("encoding panicked: {}", pi.message), json!({"family": $fam, "shard": label, "inputs": {"p": hexp(spec, &o.r)}})),
                    }
                    let mut sub = Some(o.in_subgroup);
                    for d in &decs {
                        let (bytes, refd) = if d.name.contains("uncompressed") { (&unc, $dec(c, &unc, false)) } else { (&comp, $dec(c, &comp, true)) };
                        cx.decode(d, bytes, &refd, &mut sub, &format!("valid/{}", o.cls));
                    }
                }
                ShardOut { rep: cx.rep, stats: cx.stats }
            }

            pub fn decoders<'a>() -> Vec<Dec<'a, E>> {
                fn re_c<T: GroupEncoding>(t: &T) -> Vec<u8> {
                    t.to_bytes().as_ref().to_vec()
                }
                vec![
                    Dec { ty: $ta, name: "from_bytes", checked: true, on_curve: true, policy: $cp, documented_lax: &[],
                          f: Box::new(|b| Option::<$A>::from(<$A>::from_bytes(&comp_repr(b))).map(|a| (obs_a(&a), re_c(&a)))) },
                    Dec { ty: $tp, name: "from_bytes", checked: true, on_curve: true, policy: $cp, documented_lax: &[],
                          f: Box::new(|b| Option::<$P>::from(<$P>::from_bytes(&comp_repr(b))).map(|p| (obs_p(&p), re_c(&p)))) },
                    Dec { ty: $ta, name: "from_bytes_unchecked", checked: false, on_curve: true, policy: Policy::Either, documented_lax: &[],
                          f: Box::new(|b| Option::<$A>::from(<$A>::from_bytes_unchecked(&comp_repr(b))).map(|a| (obs_a(&a), re_c(&a)))) },
                    Dec { ty: $tp, name: "from_bytes_unchecked", checked: false, on_curve: true, policy: Policy::Either, documented_lax: &[],
                          f: Box::new(|b| Option::<$P>::from(<$P>::from_bytes_unchecked(&comp_repr(b))).map(|p| (obs_p(&p), re_c(&p)))) },
                    Dec { ty: $ta, name: "from_uncompressed", checked: true, on_curve: true, policy: $up, documented_lax: &[],
                          f: Box::new(|b| Option::<$A>::from(<$A as UncompressedEncoding>::from_uncompressed(&uncomp_repr(b))).map(|a| (obs_a(&a), a.to_uncompressed().as_ref().to_vec()))) },
                    Dec { ty: $ta, name: "from_uncompressed_unchecked", checked: false, on_curve: false, policy: Policy::Either, documented_lax: &[],
                          f: Box::new(|b| Option::<$A>::from(<$A as UncompressedEncoding>::from_uncompressed_unchecked(&uncomp_repr(b))).map(|a| (obs_a(&a), a.to_uncompressed().as_ref().to_vec()))) },
                ]
            }

            /// decoder shard `idx`: corpus derived from one valid point (and format-level corner cases)
            pub fn run_dec(ctx: &Ctx, spec: &Spec<C>, base: &Report, label: &str, idx: usize, mode: Mode) -> ShardOut {
                let mut cx = Cx::new(base.fork(), spec, $fam, label);
                let mut rng = ctx.rng(label);
                let c = &spec.curve;
                let f = &c.f;
                let n = f.byte_len();
                let decs = decoders();
                let flag_at = |len: usize| -> usize { $flagidx(len) };
                // the valid point of this shard
                let (vcls, vp): (&'static str, Pt<E>) = match idx {
                    0 => ("identity", Pt::Inf),
                    1 => ("generator", spec.gen.clone()),
                    i if i % 2 == 0 || spec.h.is_one() => {
                        let k = rand_big_below(&mut rng, &spec.r);
                        ("random", c.mul(&spec.gen, &k).unwrap())
                    }
                    _ => ("outside-subgroup", loop {
                        let q = ref_random_point(spec, &mut rng);
                        if !spec.in_subgroup(&q) {
                            break q;
                        }
                    }),
                };
                cx.rep.sample(json!({"family": $fam, "shard": label, "valid_point": hexp(spec, &vp), "class": vcls}));
                for compressed in [true, false] {
                    let valid = $enc(c, &vp, compressed);
                    let len = valid.len();
                    let mut corpus: Corpus = vec![(valid.clone(), "valid")];
                    if mode == Mode::San {
                        let mut b = valid.clone();
                        b[len / 2] ^= 4;
                        corpus.push((b, "bit-flip"));
                    } else {
                        flips(&mut corpus, &valid);
                        // all combinations of the three top bits of the flag byte, on the valid payload and on zero
                        for combo in 0u8..8 {
                            let mut b = valid.clone();
                            let fi = flag_at(len);
                            b[fi] = (b[fi] & 0x1f) | (combo << 5);
                            corpus.push((b, "flag-combination"));
                            let mut z = vec![0u8; len];
                            z[fi] = combo << 5;
                            corpus.push((z, "flag-combination/zero-payload"));
                        }
                        if idx < 2 {
                            format_corners(c, $enc, $be, $flagidx, compressed, &mut corpus);
                        }
                        let nrand = ctx.tier.pick(40, 400);
                        for _ in 0..nrand {
                            corpus.push((rand_bytes(&mut rng, len), "random"));
                            // random payload with the flags of a valid non-identity encoding and top bits cleared
                            let mut b = rand_bytes(&mut rng, len);
                            let fi = flag_at(len);
                            b[fi] = (valid[fi] & 0xe0 & !0x40) | (b[fi] & 0x0f);
                            corpus.push((b, "random/plausible-flags"));
                        }
                    }
                    for (bytes, cls) in &corpus {
                        let refd = $dec(c, bytes, compressed);
                        let mut sub = None;
                        for d in decs.iter().filter(|d| d.name.contains("uncompressed") != compressed) {
                            cx.decode(d, bytes, &refd, &mut sub, cls);
                        }
                    }
                }
                let _ = n;
                ShardOut { rep: cx.rep, stats: cx.stats }
            }
        }
    };
}

// ---- glue: BLS12-381 ---------------------------------------------------------------------------

mod glue {
    use super::*;
    use midnight_curves::bls12_381::Fp2;
    use midnight_curves::{Fp, Fq, G1Affine, G1Projective, G2Affine, G2Projective};

    pub fn fp_b2r(b: &Fp) -> BigUint {
        BigUint::from_bytes_be(&b.to_bytes_be())
    }
    pub fn fp_r2b(e: &BigUint) -> Fp {
        let v = be_bytes(e, 48);
        Fp::from_bytes_be(&v.try_into().unwrap()).unwrap()
    }
    pub fn fp2_b2r(b: &Fp2) -> (BigUint, BigUint) {
        (fp_b2r(&b.c0()), fp_b2r(&b.c1()))
    }
    pub fn fp2_r2b(e: &(BigUint, BigUint)) -> Fp2 {
        Fp2::new(fp_r2b(&e.0), fp_r2b(&e.1))
    }
    pub fn fq_scalar(k: &BigUint) -> Fq {
        Fq::from_bytes_be(&be_bytes(k, 32).try_into().unwrap()).unwrap()
    }
    pub fn g1_axy(a: &G1Affine) -> (Fp, Fp) {
        (a.x(), a.y())
    }
    pub fn g2_axy(a: &G2Affine) -> (Fp2, Fp2) {
        (a.x(), a.y())
    }
    pub fn g1_raw(p: &G1Projective) -> (Fp, Fp, Fp) {
        (p.x(), p.y(), p.z())
    }
    pub fn g2_raw(p: &G2Projective) -> (Fp2, Fp2, Fp2) {
        (p.x(), p.y(), p.z())
    }
    /// off-curve value through the public `AsMut` of the wrapper (x := y)
    pub fn g1_tamper(mut a: G1Affine) -> G1Affine {
        let r = a.as_mut();
        r.x = r.y;
        a
    }
    pub fn g2_tamper(mut a: G2Affine) -> G2Affine {
        let r = a.as_mut();
        r.x = r.y;
        a
    }
    pub fn flag_first(_len: usize) -> usize {
        0
    }
    pub fn flag_last(len: usize) -> usize {
        len - 1
    }

    /// BLS-specific: affine is_torsion_free; wNAF scalar multiplication
    macro_rules! bls_extra {
        ($name:ident, $P:ty, $A:ty, $tp:expr, $ta:expr, $obs_p:path, $C:ty, $E:ty) => {
            pub fn $name(cx: &mut Cx<$C>, pool: &[Opd<$P, $E>], rng: &mut Rng, mode: Mode) {
                let spec = cx.spec;
                for (i, o) in pool.iter().enumerate() {
                    if !o.on_curve {
                        continue;
                    }
                    let pa = o.p.to_affine();
                    let key = hash_of(&(&o.r, i));
                    let mut b: Vec<BOp> = vec![];
                    bop!(b, $ta, "is_torsion_free", bool::from(pa.is_torsion_free()));
                    let exp = o.in_subgroup;
                    cx.bools(b, exp, o.cls, key, &|| json!({"p": spec.curve.hex(&o.r), "p_class": o.cls}));
                }
                // wNAF (group::Wnaf) on generator / random / outside-subgroup operands
                let ks = scalar_classes(rng, &spec.r, mode == Mode::San);
                for o in pool.iter().filter(|o| o.on_curve && ["generator", "random", "outside-subgroup", "identity"].contains(&o.cls)).take(5) {
                    for (scls, k) in ks.iter().filter(|(c, _)| ["0", "r-1", "random", "small"].contains(c)).take(if mode == Mode::San { 1 } else { 4 }) {
                        let s = fq_scalar(k);
                        let p = o.p;
                        let mut v: Vec<Op<$E>> = vec![];
                        v.push(mk($tp, "wnaf.scalar.base", move || Ok($obs_p(&group::Wnaf::new().scalar(&s).base(p)))));
                        v.push(mk($tp, "wnaf.base.scalar", move || Ok($obs_p(&group::Wnaf::new().base(p, 1).scalar(&s)))));
                        let kh = format!("{k:x}");
                        cx.ops(v, &spec.curve.mul(&o.r, k), &format!("{}*{}", o.cls, scls), hash_of(&(&o.r, k)), &|| json!({"p": spec.curve.hex(&o.r), "scalar": kh}));
                    }
                }
            }
        };
    }
    bls_extra!(g1_extra, G1Projective, G1Affine, "G1Projective", "G1Affine", super::bls_g1::obs_p, super::bls_g1::C, super::bls_g1::E);
    bls_extra!(g2_extra, G2Projective, G2Affine, "G2Projective", "G2Affine", super::bls_g2::obs_p, super::bls_g2::C, super::bls_g2::E);

    // ---- BN254
    use midnight_curves::bn256 as bn;
    pub fn bnq_b2r(b: &bn::Fq) -> BigUint {
        BigUint::from_bytes_le(&b.to_bytes())
    }
    pub fn bnq_r2b(e: &BigUint) -> bn::Fq {
        bn::Fq::from_bytes(&le_bytes(e, 32).try_into().unwrap()).unwrap()
    }
    pub fn bnq2_b2r(b: &bn::Fq2) -> (BigUint, BigUint) {
        let bytes = b.to_bytes();
        (BigUint::from_bytes_le(&bytes[..32]), BigUint::from_bytes_le(&bytes[32..]))
    }
    pub fn bnq2_r2b(e: &(BigUint, BigUint)) -> bn::Fq2 {
        bn::Fq2::new(bnq_r2b(&e.0), bnq_r2b(&e.1))
    }
    pub fn bn_scalar(k: &BigUint) -> bn::Fr {
        bn::Fr::from_bytes(&le_bytes(k, 32).try_into().unwrap()).unwrap()
    }
    pub fn bn1_axy(a: &bn::G1Affine) -> (bn::Fq, bn::Fq) {
        (a.x, a.y)
    }
    pub fn bn2_axy(a: &bn::G2Affine) -> (bn::Fq2, bn::Fq2) {
        (a.x, a.y)
    }
    pub fn bn1_raw(p: &bn::G1) -> (bn::Fq, bn::Fq, bn::Fq) {
        (p.x, p.y, p.z)
    }
    pub fn bn2_raw(p: &bn::G2) -> (bn::Fq2, bn::Fq2, bn::Fq2) {
        (p.x, p.y, p.z)
    }
    pub fn bn1_tamper(mut a: bn::G1Affine) -> bn::G1Affine {
        a.x = a.y;
        a
    }
    pub fn bn2_tamper(mut a: bn::G2Affine) -> bn::G2Affine {
        a.x = a.y;
        a
    }

    /// BN254-specific: CofactorGroup (is_torsion_free, clear_cofactor)
    macro_rules! bn_extra {
        ($name:ident, $P:ty, $tp:expr, $obs_p:path, $C:ty, $E:ty, $into_subgroup:expr) => {
            pub fn $name(cx: &mut Cx<$C>, pool: &[Opd<$P, $E>], _rng: &mut Rng, _mode: Mode) {
                let spec = cx.spec;
                for (i, o) in pool.iter().enumerate() {
                    if !o.on_curve {
                        continue;
                    }
                    let p = o.p;
                    let key = hash_of(&(&o.r, i));
                    let inp = || json!({"p": spec.curve.hex(&o.r), "p_class": o.cls});
                    let mut b: Vec<BOp> = vec![];
                    bop!(b, $tp, "is_torsion_free", bool::from(CofactorGroup::is_torsion_free(&p)));
                    cx.bools(b, o.in_subgroup, o.cls, key, &inp);
                    // clear_cofactor: result must be on the curve and in the subgroup; on subgroup
                    // points of a cofactor-1 group it is the identity map
                    let mut b: Vec<BOp> = vec![];
                    b.push(mkb($tp, "clear_cofactor(in subgroup)", move || spec.in_subgroup(&$obs_p(&CofactorGroup::clear_cofactor(&p)))));
                    cx.bools(b, true, o.cls, key, &inp);
                    if spec.h.is_one() {
                        let mut v: Vec<Op<$E>> = vec![];
                        op!(v, $tp, "clear_cofactor", $obs_p, CofactorGroup::clear_cofactor(&p));
                        cx.ops(v, &Some(o.r.clone()), o.cls, key, &inp);
                    }
                    if $into_subgroup {
                        let mut b: Vec<BOp> = vec![];
                        bop!(b, $tp, "into_subgroup", bool::from(CofactorGroup::into_subgroup(p).is_some()));
                        cx.bools(b, o.in_subgroup, o.cls, key, &inp);
                    } else {
                        // bn256::G2::into_subgroup is `unimplemented!()` in the repository (explicit): recorded only
                        cx.rep.count("observed.bn256.G2.into_subgroup=unimplemented (not called)");
                    }
                }
            }
        };
    }
    bn_extra!(bn1_extra, bn::G1, "bn256::G1", super::bn_g1::obs_p, super::bn_g1::C, super::bn_g1::E, true);
    bn_extra!(bn2_extra, bn::G2, "bn256::G2", super::bn_g2::obs_p, super::bn_g2::C, super::bn_g2::E, false);
}

sw_family!(
    bls_g1, fam = "bls12_381.G1", tp = "G1Projective", ta = "G1Affine", short = "G1",
    P = midnight_curves::G1Projective, A = midnight_curves::G1Affine, S = midnight_curves::Fq, B = midnight_curves::Fp, RF = PrimeF,
    b2r = glue::fp_b2r, r2b = glue::fp_r2b, scalar = glue::fq_scalar, raw = glue::g1_raw, axy = glue::g1_axy,
    enc = zcash_encode, dec = zcash_decode, be = true, flag_index = glue::flag_first,
    comp_policy = Policy::Required, uncomp_policy = Policy::Either, tamper = glue::g1_tamper,
    extra = glue::g1_extra
);
sw_family!(
    bls_g2, fam = "bls12_381.G2", tp = "G2Projective", ta = "G2Affine", short = "G2",
    P = midnight_curves::G2Projective, A = midnight_curves::G2Affine, S = midnight_curves::Fq, B = midnight_curves::bls12_381::Fp2, RF = QuadF,
    b2r = glue::fp2_b2r, r2b = glue::fp2_r2b, scalar = glue::fq_scalar, raw = glue::g2_raw, axy = glue::g2_axy,
    enc = zcash_encode, dec = zcash_decode, be = true, flag_index = glue::flag_first,
    comp_policy = Policy::Required, uncomp_policy = Policy::Either, tamper = glue::g2_tamper,
    extra = glue::g2_extra
);
sw_family!(
    bn_g1, fam = "bn256.G1", tp = "bn256::G1", ta = "bn256::G1Affine", short = "bn256::G1",
    P = midnight_curves::bn256::G1, A = midnight_curves::bn256::G1Affine, S = midnight_curves::bn256::Fr, B = midnight_curves::bn256::Fq, RF = PrimeF,
    b2r = glue::bnq_b2r, r2b = glue::bnq_r2b, scalar = glue::bn_scalar, raw = glue::bn1_raw, axy = glue::bn1_axy,
    enc = twospare_encode, dec = twospare_decode, be = false, flag_index = glue::flag_last,
    comp_policy = Policy::Required, uncomp_policy = Policy::Required, tamper = glue::bn1_tamper,
    extra = glue::bn1_extra
);
sw_family!(
    bn_g2, fam = "bn256.G2", tp = "bn256::G2", ta = "bn256::G2Affine", short = "bn256::G2",
    P = midnight_curves::bn256::G2, A = midnight_curves::bn256::G2Affine, S = midnight_curves::bn256::Fr, B = midnight_curves::bn256::Fq2, RF = QuadF,
    b2r = glue::bnq2_b2r, r2b = glue::bnq2_r2b, scalar = glue::bn_scalar, raw = glue::bn2_raw, axy = glue::bn2_axy,
    enc = twospare_encode, dec = twospare_decode, be = false, flag_index = glue::flag_last,
    comp_policy = Policy::Either, uncomp_policy = Policy::Either, tamper = glue::bn2_tamper,
    extra = glue::bn2_extra
);


// =============================================================================================
// Shared pieces of the hand-written families
// =============================================================================================

fn mk_opd<C: RCurve, P>(spec: &Spec<C>, cls: &'static str, p: P, r: PtOf<C>) -> Opd<P, El<C>> {
    let on_curve = spec.curve.on_curve(&r);
    let in_subgroup = on_curve && spec.in_subgroup(&r);
    Opd { cls, p, r, on_curve, in_subgroup }
}

/// Edwards (32-byte) decoder corpus derived from one valid point
fn edwards_corpus(spec: &Spec<TwistedEdwards<PrimeF>>, valid: &[u8], idx: usize, rng: &mut Rng, nrand: usize, mode: Mode) -> Corpus {
    let c = &spec.curve;
    let p = c.f.p();
    let mut corpus: Corpus = vec![(valid.to_vec(), "valid")];
    if mode == Mode::San {
        let mut b = valid.to_vec();
        b[7] ^= 16;
        corpus.push((b, "bit-flip"));
        return corpus;
    }
    flips(&mut corpus, valid);
    if idx < 2 {
        // y with and without x; non-canonical y + p (fits in 255 bits only for small y)
        let mut with_x = vec![];
        let mut without_x = vec![];
        let mut yi = 2u64;
        while with_x.len() < 4 || without_x.len() < 4 {
            let y = BigUint::from(yi);
            match c.x2_from_y(&y).map(|x2| c.f.is_square(&x2)) {
                Some(true) => with_x.push(y),
                _ => without_x.push(y),
            }
            yi += 1;
        }
        for y in &without_x {
            for sign in [0u8, 0x80] {
                let mut b = le_bytes(y, 32);
                b[31] |= sign;
                corpus.push((b, "y-without-x"));
            }
        }
        for y in with_x.iter().chain([BigUint::zero(), BigUint::one()].iter()) {
            for sign in [0u8, 0x80] {
                let mut b = le_bytes(y, 32);
                b[31] |= sign;
                corpus.push((b, "valid-or-sign-variant/small-y"));
                if (y + p).bits() <= 255 {
                    let mut b = le_bytes(&(y + p), 32);
                    b[31] |= sign;
                    corpus.push((b, "y>=p"));
                }
            }
        }
        // x = 0 points with the sign bit set: (0, 1) and (0, −1)
        for y in [BigUint::one(), p - 1u32] {
            let mut b = le_bytes(&y, 32);
            corpus.push((b.clone(), "x=0"));
            b[31] |= 0x80;
            corpus.push((b, "x=0/sign-bit-set"));
        }
        for (v, cls) in [(p.clone(), "y=p"), (p - 1u32, "y=p-1"), ((BigUint::one() << 255usize) - 1u32, "y=2^255-1")] {
            for sign in [0u8, 0x80] {
                let mut b = le_bytes(&v, 32);
                b[31] |= sign;
                corpus.push((b, cls));
            }
        }
    }
    for _ in 0..nrand {
        corpus.push((rand_bytes(rng, 32), "random"));
    }
    corpus
}

// =============================================================================================
// Jubjub: extended, affine, prime-subgroup and Niels forms
// =============================================================================================

pub mod jub {
    use super::*;
    use group::cofactor::CofactorCurveAffine;
    use midnight_curves::{
        ExtendedNielsPoint as ENiels, Fq as Base, Fr, JubjubAffine as Aff, JubjubAffineNiels as ANiels,
        JubjubExtended as Ext, JubjubSubgroup as Sub, EDWARDS_D,
    };

    pub type C = TwistedEdwards<PrimeF>;
    pub type E = BigUint;
    pub type O = Opd<Ext, E>;
    const FAM: &str = "jubjub";
    const TE: &str = "JubjubExtended";
    const TA: &str = "JubjubAffine";
    const TS: &str = "JubjubSubgroup";
    const TAN: &str = "JubjubAffineNiels";
    const TEN: &str = "ExtendedNielsPoint";

    fn b2r(b: &Base) -> BigUint {
        BigUint::from_bytes_le(&b.to_bytes_le())
    }
    fn r2b(e: &BigUint) -> Base {
        Base::from_bytes_le(&le_bytes(e, 32).try_into().unwrap()).unwrap()
    }
    pub fn obs_a(a: &Aff) -> Pt<E> {
        Pt::Aff(b2r(&a.get_u()), b2r(&a.get_v()))
    }
    pub fn obs_e(e: &Ext) -> Pt<E> {
        obs_a(&Aff::from(e))
    }
    pub fn obs_s(s: &Sub) -> Pt<E> {
        obs_e(&Ext::from(*s))
    }
    fn obs_an(n: &ANiels) -> Pt<E> {
        obs_e(&(Ext::identity() + n))
    }
    fn obs_en(n: &ENiels) -> Pt<E> {
        obs_e(&(Ext::identity() + n))
    }
    fn scalar(k: &BigUint) -> Fr {
        Fr::from_bytes(&le_bytes(k, 32).try_into().unwrap()).unwrap()
    }
    fn from_ref(r: &Pt<E>) -> Aff {
        let (x, y) = r.xy().unwrap();
        Aff::from_raw_unchecked(r2b(x), r2b(y))
    }
    fn hexp(spec: &Spec<C>, r: &Pt<E>) -> String {
        spec.curve.hex(r)
    }
    fn arr(b: &[u8]) -> [u8; 32] {
        b.try_into().unwrap()
    }
    /// subgroup-typed view of a point the reference places in the subgroup; `None` (and the
    /// subgroup-typed operations are skipped) if the library disagrees — that disagreement is
    /// reported by the `into_subgroup` / `is_torsion_free` comparisons
    fn to_sub(expected_in_subgroup: bool, p: Ext) -> Option<Sub> {
        if !expected_in_subgroup {
            return None;
        }
        catch_any(|| Option::<Sub>::from(CofactorGroup::into_subgroup(p))).ok().flatten()
    }

    fn pool(spec: &Spec<C>, rng: &mut Rng, mode: Mode, torsion: &[Pt<E>]) -> Vec<O> {
        let mut v = vec![];
        let mut push = |cls: &'static str, p: Ext| v.push(mk_opd(spec, cls, p, obs_e(&p)));
        let r1 = Ext::random(&mut *rng);
        push("identity", Ext::identity());
        push("generator", <Ext as Group>::generator());
        push("random", r1);
        if mode == Mode::San {
            return v;
        }
        let r2 = Ext::random(&mut *rng);
        let s1: Ext = Sub::random(&mut *rng).into();
        push("random", r2);
        push("random-subgroup", s1);
        push("neg-of-random", -r1);
        push("same-point-z!=1", (r1 + r2) - r2);
        push("same-point-z!=1", r1.double() - r1);
        push("same-point-z=1", Ext::from(Aff::from(r1)));
        // small-order points (order 8, 4, 2) through the public unchecked constructor
        for i in [0usize, 1, 3] {
            push("small-order", from_ref(&torsion[i]).to_extended());
        }
        // prime-order point plus a point of order 8
        push("outside-subgroup", s1 + from_ref(&torsion[0]));
        v
    }

    pub fn run_ops(ctx: &Ctx, spec: &Spec<C>, base: &Report, label: &str, mode: Mode) -> ShardOut {
        let mut cx = Cx::new(base.fork(), spec, FAM, label);
        let mut rng = ctx.rng(label);
        let c = &spec.curve;
        let tiny = mode == Mode::San;
        let torsion = edwards_torsion8(spec);
        let ops_pool = pool(spec, &mut rng, mode, &torsion);
        cx.rep.sample(json!({"family": FAM, "shard": label, "operands": ops_pool.iter().map(|o| json!({"class": o.cls, "point": hexp(spec, &o.r)})).collect::<Vec<_>>()}));

        // constants
        {
            cx.rep.evals(3);
            cx.stat(format!("op|{}.constants", TE));
            if b2r(&EDWARDS_D) != c.d {
                cx.rep.violation("C11/JubjubExtended/EDWARDS_D/mismatch", "EDWARDS_D differs from -10240/10241", json!({"family": FAM, "shard": label, "inputs": {}}));
            }
            let g = obs_e(&<Ext as Group>::generator());
            let ga = obs_a(&<Aff as CofactorCurveAffine>::generator());
            let gs = obs_s(&<Sub as Group>::generator());
            // no standard generator: the full-group generator must have order 8·r exactly, the
            // subgroup generator order r
            let full_ok = c.on_curve(&g) && g == ga && !spec.in_subgroup(&g) && !c.is_identity(&c.mul(&g, &(&spec.r * 4u32)).unwrap());
            if !full_ok {
                cx.rep.violation("C11/JubjubExtended/generator/mismatch", "generator() is not a point of order 8·r", json!({"family": FAM, "shard": label, "inputs": {}, "got": hexp(spec, &g)}));
            }
            if !(spec.in_subgroup(&gs) && !c.is_identity(&gs)) {
                cx.rep.violation("C11/JubjubSubgroup/generator/mismatch", "JubjubSubgroup::generator() is not a point of order r", json!({"family": FAM, "shard": label, "inputs": {}, "got": hexp(spec, &gs)}));
            }
        }

        for (i, o) in ops_pool.iter().enumerate() {
            let p = o.p;
            let pa = Aff::from(p);
            let key = hash_of(&(&o.r, i));
            let inp = || json!({"p": hexp(spec, &o.r), "p_class": o.cls});
            if !o.on_curve {
                cx.rep.violation("C11/JubjubExtended/to_affine/off-curve", "an operand built from on-curve points by group operations is not on the curve", json!({"family": FAM, "shard": label, "inputs": inp()}));
                continue;
            }
            let mut b: Vec<BOp> = vec![];
            bop!(b, TE, "is_identity", bool::from(p.is_identity()));
            bop!(b, TE, "is_identity(Group)", bool::from(Group::is_identity(&p)));
            bop!(b, TA, "is_identity", bool::from(pa.is_identity()));
            cx.bools(b, c.is_identity(&o.r), o.cls, key, &inp);
            let p8 = c.mul(&o.r, &BigUint::from(8u32)).unwrap();
            let mut b: Vec<BOp> = vec![];
            bop!(b, TE, "is_small_order", bool::from(p.is_small_order()));
            bop!(b, TA, "is_small_order", bool::from(pa.is_small_order()));
            cx.bools(b, c.is_identity(&p8), o.cls, key, &inp);
            let mut b: Vec<BOp> = vec![];
            bop!(b, TE, "is_torsion_free", bool::from(p.is_torsion_free()));
            bop!(b, TE, "is_torsion_free(CofactorGroup)", bool::from(CofactorGroup::is_torsion_free(&p)));
            bop!(b, TA, "is_torsion_free", bool::from(pa.is_torsion_free()));
            bop!(b, TE, "into_subgroup", bool::from(CofactorGroup::into_subgroup(p).is_some()));
            cx.bools(b, o.in_subgroup, o.cls, key, &inp);
            let mut b: Vec<BOp> = vec![];
            bop!(b, TE, "is_prime_order", bool::from(p.is_prime_order()));
            bop!(b, TA, "is_prime_order", bool::from(pa.is_prime_order()));
            cx.bools(b, o.in_subgroup && !c.is_identity(&o.r), o.cls, key, &inp);

            let mut v: Vec<Op<E>> = vec![];
            op!(v, TE, "mul_by_cofactor", obs_e, p.mul_by_cofactor());
            op!(v, TA, "mul_by_cofactor", obs_e, pa.mul_by_cofactor());
            op!(v, TE, "clear_cofactor", obs_s, CofactorGroup::clear_cofactor(&p));
            cx.ops(v, &Some(p8.clone()), o.cls, key, &inp);

            let mut v: Vec<Op<E>> = vec![];
            op!(v, TE, "neg", obs_e, -p);
            op!(v, TA, "neg", obs_a, -pa);
            if let Some(s) = to_sub(o.in_subgroup, p) {
                op!(v, TS, "neg", obs_s, -s);
                op!(v, TS, "neg(&)", obs_s, -&s);
            }
            cx.ops(v, &Some(c.neg(&o.r)), o.cls, key, &inp);

            let mut v: Vec<Op<E>> = vec![];
            op!(v, TE, "double", obs_e, p.double());
            op!(v, TE, "double(Group)", obs_e, Group::double(&p));
            if let Some(s) = to_sub(o.in_subgroup, p) {
                op!(v, TS, "double", obs_s, s.double());
            }
            cx.ops(v, &c.double(&o.r), o.cls, key, &inp);

            let mut v: Vec<Op<E>> = vec![];
            op!(v, TA, "from(extended)", obs_a, Aff::from(p));
            op!(v, TA, "from(&extended)", obs_a, Aff::from(&p));
            op!(v, TE, "to_affine", obs_a, p.to_affine());
            op!(v, TE, "from(affine)", obs_e, Ext::from(pa));
            op!(v, TA, "to_extended", obs_e, pa.to_extended());
            op!(v, TA, "to_curve", obs_e, pa.to_curve());
            op!(v, TA, "to_niels", obs_an, pa.to_niels());
            op!(v, TE, "to_niels", obs_en, p.to_niels());
            op!(v, TA, "from_raw_unchecked(get_u,get_v)", obs_a, Aff::from_raw_unchecked(pa.get_u(), pa.get_v()));
            if o.in_subgroup {
                op!(v, TS, "from_raw_unchecked", obs_s, Sub::from_raw_unchecked(pa.get_u(), pa.get_v()));
                if let Some(s) = to_sub(true, p) {
                    op!(v, TS, "into(extended)", obs_e, Ext::from(s));
                }
            }
            cx.ops(v, &Some(o.r.clone()), o.cls, key, &inp);
        }

        // binary operations over all ordered pairs
        let on: Vec<&O> = ops_pool.iter().filter(|o| o.on_curve).collect();
        for a in &on {
            for b in &on {
                if tiny && b.cls != "random" {
                    continue;
                }
                let (p, q) = (a.p, b.p);
                let (pa, qa) = (Aff::from(p), Aff::from(q));
                let (qn, qan) = (q.to_niels(), qa.to_niels());
                let cls = format!("{}x{}", a.cls, b.cls);
                cx.stat(format!("pair|{}|{}", FAM, cls));
                let key = hash_of(&(&a.r, &b.r));
                let inp = || json!({"p": hexp(spec, &a.r), "q": hexp(spec, &b.r), "p_class": a.cls, "q_class": b.cls});
                let both_sub = a.in_subgroup && b.in_subgroup;
                let subs = to_sub(both_sub, p).zip(to_sub(both_sub, q));

                let mut v: Vec<Op<E>> = vec![];
                op!(v, TE, "add(E,E)", obs_e, p + q);
                op!(v, TE, "add(&E,&E)", obs_e, &p + &q);
                op!(v, TE, "add(E,&E)", obs_e, p + &q);
                op!(v, TE, "add(&E,E)", obs_e, &p + q);
                op!(v, TE, "add_assign(E)", obs_e, { let mut t = p; t += q; t });
                op!(v, TE, "add_assign(&E)", obs_e, { let mut t = p; t += &q; t });
                op!(v, TE, "add(E,ExtendedNiels)", obs_e, p + qn);
                op!(v, TE, "add(&E,&ExtendedNiels)", obs_e, &p + &qn);
                op!(v, TE, "add_assign(ExtendedNiels)", obs_e, { let mut t = p; t += qn; t });
                op!(v, TE, "add(E,AffineNiels)", obs_e, p + qan);
                op!(v, TE, "add(&E,&AffineNiels)", obs_e, &p + &qan);
                op!(v, TE, "add_assign(&AffineNiels)", obs_e, { let mut t = p; t += &qan; t });
                op!(v, TE, "add(E,A)", obs_e, p + qa);
                op!(v, TE, "add(&E,&A)", obs_e, &p + &qa);
                op!(v, TE, "add_assign(A)", obs_e, { let mut t = p; t += qa; t });
                op!(v, TA, "add(A,A)", obs_e, pa + qa);
                op!(v, TA, "add(&A,&A)", obs_e, &pa + &qa);
                op!(v, TE, "sum([P,Q])", obs_e, [p, q].iter().sum::<Ext>());
                if let Some(t) = to_sub(b.in_subgroup, q) {
                    op!(v, TE, "add(E,Subgroup)", obs_e, p + t);
                    op!(v, TE, "add(&E,&Subgroup)", obs_e, &p + &t);
                    op!(v, TE, "add_assign(Subgroup)", obs_e, { let mut x = p; x += t; x });
                }
                if let Some((s, t)) = subs {
                    op!(v, TS, "add(S,S)", obs_s, s + t);
                    op!(v, TS, "add(&S,&S)", obs_s, &s + &t);
                    op!(v, TS, "add_assign(S)", obs_s, { let mut x = s; x += t; x });
                    op!(v, TS, "sum([P,Q])", obs_s, [s, t].iter().sum::<Sub>());
                }
                cx.ops(v, &c.add(&a.r, &b.r), &cls, key, &inp);

                let mut v: Vec<Op<E>> = vec![];
                op!(v, TE, "sub(E,E)", obs_e, p - q);
                op!(v, TE, "sub(&E,&E)", obs_e, &p - &q);
                op!(v, TE, "sub_assign(E)", obs_e, { let mut t = p; t -= q; t });
                op!(v, TE, "sub_assign(&E)", obs_e, { let mut t = p; t -= &q; t });
                op!(v, TE, "sub(E,ExtendedNiels)", obs_e, p - qn);
                op!(v, TE, "sub(&E,&ExtendedNiels)", obs_e, &p - &qn);
                op!(v, TE, "sub_assign(ExtendedNiels)", obs_e, { let mut t = p; t -= qn; t });
                op!(v, TE, "sub(E,AffineNiels)", obs_e, p - qan);
                op!(v, TE, "sub(&E,&AffineNiels)", obs_e, &p - &qan);
                op!(v, TE, "sub_assign(&AffineNiels)", obs_e, { let mut t = p; t -= &qan; t });
                op!(v, TE, "sub(E,A)", obs_e, p - qa);
                op!(v, TE, "sub(&E,&A)", obs_e, &p - &qa);
                op!(v, TE, "sub_assign(A)", obs_e, { let mut t = p; t -= qa; t });
                op!(v, TA, "sub(A,A)", obs_e, pa - qa);
                op!(v, TA, "sub(&A,&A)", obs_e, &pa - &qa);
                if let Some(t) = to_sub(b.in_subgroup, q) {
                    op!(v, TE, "sub(E,Subgroup)", obs_e, p - t);
                    op!(v, TE, "sub_assign(Subgroup)", obs_e, { let mut x = p; x -= t; x });
                }
                if let Some((s, t)) = subs {
                    op!(v, TS, "sub(S,S)", obs_s, s - t);
                    op!(v, TS, "sub(&S,&S)", obs_s, &s - &t);
                    op!(v, TS, "sub_assign(S)", obs_s, { let mut x = s; x -= t; x });
                }
                cx.ops(v, &c.sub(&a.r, &b.r), &cls, key, &inp);

                let mut e: Vec<BOp> = vec![];
                bop!(e, TE, "eq", p == q);
                bop!(e, TE, "ct_eq", bool::from(p.ct_eq(&q)));
                bop!(e, TA, "eq", pa == qa);
                bop!(e, TA, "ct_eq", bool::from(pa.ct_eq(&qa)));
                if let Some((s, t)) = subs {
                    bop!(e, TS, "eq", s == t);
                }
                cx.bools(e, a.r == b.r, &cls, key, &inp);

                for (bit, exp) in [(0u8, &a.r), (1u8, &b.r)] {
                    let ch = Choice::from(bit);
                    let mut v: Vec<Op<E>> = vec![];
                    op!(v, TE, "conditional_select", obs_e, Ext::conditional_select(&p, &q, ch));
                    op!(v, TA, "conditional_select", obs_a, Aff::conditional_select(&pa, &qa, ch));
                    op!(v, TAN, "conditional_select", obs_an, ANiels::conditional_select(&pa.to_niels(), &qan, ch));
                    op!(v, TEN, "conditional_select", obs_en, ENiels::conditional_select(&p.to_niels(), &qn, ch));
                    if let Some((s, t)) = subs {
                        op!(v, TS, "conditional_select", obs_s, Sub::conditional_select(&s, &t, ch));
                    }
                    cx.ops(v, &Some(exp.clone()), &cls, key, &inp);
                }
            }
        }

        // scalar multiplication (every operand class once)
        let scalars = scalar_classes(&mut rng, &spec.r, tiny);
        for (i, o) in on.iter().enumerate() {
            if !tiny && i > 0 && on[..i].iter().any(|x| x.cls == o.cls) {
                continue;
            }
            let p = o.p;
            let pa = Aff::from(p);
            for (scls, k) in &scalars {
                let s = scalar(k);
                let cls = format!("{}*{}", o.cls, scls);
                let key = hash_of(&(&o.r, k));
                let kh = format!("{k:x}");
                let inp = || json!({"p": hexp(spec, &o.r), "p_class": o.cls, "scalar": kh});
                let mut v: Vec<Op<E>> = vec![];
                op!(v, TE, "mul(E,S)", obs_e, p * s);
                op!(v, TE, "mul(&E,&S)", obs_e, &p * &s);
                op!(v, TE, "mul(E,&S)", obs_e, p * &s);
                op!(v, TE, "mul_assign(S)", obs_e, { let mut t = p; t *= s; t });
                op!(v, TE, "mul_assign(&S)", obs_e, { let mut t = p; t *= &s; t });
                op!(v, TA, "mul(A,S)", obs_e, pa * s);
                op!(v, TA, "mul(&A,&S)", obs_e, &pa * &s);
                op!(v, TAN, "mul(N,S)", obs_e, pa.to_niels() * s);
                op!(v, TAN, "mul(&N,&S)", obs_e, &pa.to_niels() * &s);
                op!(v, TEN, "mul(N,S)", obs_e, p.to_niels() * s);
                op!(v, TEN, "mul(&N,&S)", obs_e, &p.to_niels() * &s);
                if let Some(g) = to_sub(o.in_subgroup, p) {
                    op!(v, TS, "mul(S,F)", obs_s, g * s);
                    op!(v, TS, "mul(&S,&F)", obs_s, &g * &s);
                    op!(v, TS, "mul_assign(F)", obs_s, { let mut t = g; t *= s; t });
                }
                cx.ops(v, &c.mul(&o.r, k), &cls, key, &inp);
            }
            // multiply_bits: arbitrary 32-byte patterns, highest four bits ignored (documented)
            let mut pats: Vec<(&'static str, [u8; 32])> = vec![("bytes(r)", arr(&le_bytes(&spec.r, 32)))];
            if !tiny {
                pats.push(("bytes(r+1)", arr(&le_bytes(&(&spec.r + 1u32), 32))));
                pats.push(("bytes(all-ones)", [0xff; 32]));
                pats.push(("bytes(random)", arr(&rand_bytes(&mut rng, 32))));
            }
            for (pcls, bytes) in pats {
                let k = BigUint::from_bytes_le(&bytes) % (BigUint::one() << 252usize);
                let cls = format!("{}*{}", o.cls, pcls);
                let mut v: Vec<Op<E>> = vec![];
                op!(v, TAN, "multiply_bits", obs_e, pa.to_niels().multiply_bits(&bytes));
                op!(v, TEN, "multiply_bits", obs_e, p.to_niels().multiply_bits(&bytes));
                cx.ops(v, &c.mul(&o.r, &k), &cls, hash_of(&(&o.r, &k)), &|| json!({"p": hexp(spec, &o.r), "bytes": hx(&bytes)}));
            }
        }

        // lists
        {
            let pts: Vec<Ext> = on.iter().map(|o| o.p).collect();
            let refs: Vec<Pt<E>> = on.iter().map(|o| o.r.clone()).collect();
            for len in [0usize, 1, 2, pts.len()] {
                let len = len.min(pts.len());
                let mut acc = Some(c.identity());
                for r in &refs[..len] {
                    acc = acc.and_then(|a| c.add(&a, r));
                }
                let sl = &pts[..len];
                let mut v: Vec<Op<E>> = vec![];
                v.push(mk(TE, "sum(iter owned)", move || Ok(obs_e(&sl.iter().copied().sum::<Ext>()))));
                v.push(mk(TE, "sum(iter &)", move || Ok(obs_e(&sl.iter().sum::<Ext>()))));
                cx.ops(v, &acc, &format!("list{len}"), hash_of(&(&refs[..len], len)), &|| json!({"points": refs[..len].iter().map(|r| hexp(spec, r)).collect::<Vec<_>>()}));
            }
            let inp = json!({"points": refs.iter().map(|r| hexp(spec, r)).collect::<Vec<_>>()});
            for which in ["batch_normalize(Curve)", "batch_normalize(fn)", "batch_normalize(fn)/in-place"] {
                let pts2 = pts.clone();
                let out = catch_any(move || match which {
                    "batch_normalize(Curve)" => {
                        let mut q = vec![Aff::identity(); pts2.len()];
                        <Ext as Curve>::batch_normalize(&pts2, &mut q);
                        q.iter().map(obs_a).collect::<Vec<_>>()
                    }
                    "batch_normalize(fn)" => {
                        let mut m = pts2.clone();
                        let r = midnight_curves::batch_normalize(&mut m).map(|a| obs_a(&a)).collect::<Vec<_>>();
                        r
                    }
                    _ => {
                        let mut m = pts2.clone();
                        let _ = midnight_curves::batch_normalize(&mut m).count();
                        m.iter().map(obs_e).collect::<Vec<_>>()
                    }
                });
                cx.rep.eval();
                cx.stat(format!("op|{}.{}", TE, which));
                cx.rep.nontrivial(&(TE, which, hash_of(&refs)));
                match out {
                    Ok(q) => {
                        if let Some(j) = (0..pts.len()).find(|j| q[*j] != refs[*j]) {
                            cx.rep.violation("C11/JubjubExtended/batch_normalize/mismatch", &format!("{which}: output {j} (class {}) is {} instead of {}", on[j].cls, hexp(spec, &q[j]), hexp(spec, &refs[j])),
                                json!({"family": FAM, "shard": label, "inputs": inp, "index": j}));
                        }
                    }
                    Err(pi) => {
                        cx.rep.count("panics");
                        cx.rep.violation("C11/JubjubExtended/batch_normalize/panic", &format!("{which} panicked: {} at {}", pi.message, pi.location), json!({"family": FAM, "shard": label, "inputs": inp}));
                    }
                }
            }
        }

        // encodings of every operand
        let decs = decoders();
        for o in &on {
            let want = edwards_encode(c, &o.r);
            let p = o.p;
            let lib = catch_any(|| {
                let mut v = vec![(TE, GroupEncoding::to_bytes(&p).to_vec()), (TA, Aff::from(p).to_bytes().to_vec()), (TA, GroupEncoding::to_bytes(&Aff::from(p)).to_vec())];
                if let Some(s) = to_sub(o.in_subgroup, p) {
                    v.push((TS, GroupEncoding::to_bytes(&s).to_vec()));
                }
                v
            });
            match lib {
                Ok(v) => {
                    for (ty, got) in v {
                        cx.rep.eval();
                        cx.stat(format!("op|{}.to_bytes", ty));
                        if got != want {
                            cx.rep.violation(&format!("C11/{}/to_bytes/mismatch", ty), &format!("{ty}.to_bytes of a {} point is not the canonical encoding", o.cls),
                                json!({"family": FAM, "shard": label, "inputs": {"p": hexp(spec, &o.r)}, "got": hx(&got), "expected": hx(&want)}));
                        }
                    }
                }
                Err(pi) => cx.rep.violation("C11/JubjubExtended/to_bytes/panic", &format!("encoding panicked: {}", pi.message), json!({"family": FAM, "shard": label, "inputs": {"p": hexp(spec, &o.r)}})),
            }
            let refd = edwards_decode(c, &want);
            let mut sub = Some(o.in_subgroup);
            for d in &decs {
                cx.decode(d, &want, &refd, &mut sub, &format!("valid/{}", o.cls));
            }
        }
        ShardOut { rep: cx.rep, stats: cx.stats }
    }

    pub fn decoders<'a>() -> Vec<Dec<'a, E>> {
        fn d<'a>(ty: &'static str, name: &'static str, checked: bool, policy: Policy, lax: &'static [&'static str], f: impl Fn(&[u8]) -> Option<(Pt<E>, Vec<u8>)> + 'a) -> Dec<'a, E> {
            Dec { ty, name, checked, on_curve: true, policy, documented_lax: lax, f: Box::new(f) }
        }
        vec![
            d(TA, "from_bytes(inherent)", true, Policy::AcceptAll, &[], |b| Option::<Aff>::from(Aff::from_bytes(arr(b))).map(|a| (obs_a(&a), a.to_bytes().to_vec()))),
            d(TA, "from_bytes_pre_zip216_compatibility", true, Policy::AcceptAll, &["sign bit set on x = 0"], |b| {
                Option::<Aff>::from(Aff::from_bytes_pre_zip216_compatibility(arr(b))).map(|a| (obs_a(&a), a.to_bytes().to_vec()))
            }),
            d(TA, "batch_from_bytes", true, Policy::AcceptAll, &[], |b| {
                let r = Aff::batch_from_bytes([arr(b)].into_iter());
                assert_eq!(r.len(), 1);
                Option::<Aff>::from(r[0]).map(|a| (obs_a(&a), a.to_bytes().to_vec()))
            }),
            d(TA, "from_bytes", true, Policy::AcceptAll, &[], |b| Option::<Aff>::from(<Aff as GroupEncoding>::from_bytes(&arr(b))).map(|a| (obs_a(&a), GroupEncoding::to_bytes(&a).to_vec()))),
            d(TA, "from_bytes_unchecked", false, Policy::AcceptAll, &[], |b| Option::<Aff>::from(<Aff as GroupEncoding>::from_bytes_unchecked(&arr(b))).map(|a| (obs_a(&a), GroupEncoding::to_bytes(&a).to_vec()))),
            d(TE, "from_bytes", true, Policy::AcceptAll, &[], |b| Option::<Ext>::from(<Ext as GroupEncoding>::from_bytes(&arr(b))).map(|a| (obs_e(&a), GroupEncoding::to_bytes(&a).to_vec()))),
            d(TE, "from_bytes_unchecked", false, Policy::AcceptAll, &[], |b| Option::<Ext>::from(<Ext as GroupEncoding>::from_bytes_unchecked(&arr(b))).map(|a| (obs_e(&a), GroupEncoding::to_bytes(&a).to_vec()))),
            d(TS, "from_bytes", true, Policy::Required, &[], |b| Option::<Sub>::from(<Sub as GroupEncoding>::from_bytes(&arr(b))).map(|a| (obs_s(&a), GroupEncoding::to_bytes(&a).to_vec()))),
            d(TS, "from_bytes_unchecked", false, Policy::Either, &[], |b| Option::<Sub>::from(<Sub as GroupEncoding>::from_bytes_unchecked(&arr(b))).map(|a| (obs_s(&a), GroupEncoding::to_bytes(&a).to_vec()))),
        ]
    }

    pub fn run_dec(ctx: &Ctx, spec: &Spec<C>, base: &Report, label: &str, idx: usize, mode: Mode) -> ShardOut {
        let mut cx = Cx::new(base.fork(), spec, FAM, label);
        let mut rng = ctx.rng(label);
        let c = &spec.curve;
        let torsion = edwards_torsion8(spec);
        let (vcls, vp): (&'static str, Pt<E>) = match idx {
            0 => ("identity", c.identity()),
            1 => ("generator", spec.gen.clone()),
            2 => ("small-order", torsion[0].clone()),
            3 => ("outside-subgroup", c.add(&c.mul(&spec.gen, &rand_big_below(&mut rng, &spec.r)).unwrap(), &torsion[2]).unwrap()),
            _ => ("random-subgroup", c.mul(&spec.gen, &rand_big_below(&mut rng, &spec.r)).unwrap()),
        };
        cx.rep.sample(json!({"family": FAM, "shard": label, "valid_point": hexp(spec, &vp), "class": vcls}));
        let valid = edwards_encode(c, &vp);
        let corpus = edwards_corpus(spec, &valid, idx, &mut rng, ctx.tier.pick(60, 600), mode);
        let decs = decoders();
        for (bytes, cls) in &corpus {
            let refd = edwards_decode(c, bytes);
            let mut sub = None;
            for d in &decs {
                cx.decode(d, bytes, &refd, &mut sub, cls);
            }
        }
        // batch_from_bytes on the whole corpus at once must agree with from_bytes item by item
        if mode == Mode::Full {
            let items: Vec<[u8; 32]> = corpus.iter().map(|(b, _)| arr(b)).collect();
            let r = catch_any(|| {
                let batch = Aff::batch_from_bytes(items.iter().copied());
                items.iter().zip(batch.iter()).position(|(b, r)| {
                    let single = Aff::from_bytes(*b);
                    bool::from(single.is_some()) != bool::from(r.is_some()) || (bool::from(r.is_some()) && obs_a(&single.unwrap()) != obs_a(&r.unwrap()))
                })
            });
            cx.rep.eval();
            cx.stat(format!("op|{}.batch_from_bytes(list)", TA));
            match r {
                Ok(None) => {}
                Ok(Some(j)) => cx.rep.violation("C11/JubjubAffine/batch_from_bytes/mismatch", "batch_from_bytes disagrees with from_bytes on one item of a batch",
                    json!({"family": FAM, "shard": label, "inputs": {"bytes": hx(&items[j]), "batch_len": items.len(), "index": j}})),
                Err(pi) => cx.rep.violation("C11/JubjubAffine/batch_from_bytes/panic", &format!("batch_from_bytes panicked: {} at {}", pi.message, pi.location), json!({"family": FAM, "shard": label, "inputs": {"batch_len": items.len()}})),
            }
        }
        ShardOut { rep: cx.rep, stats: cx.stats }
    }
}

// =============================================================================================
// secp256k1 wrapper (k256)
// =============================================================================================

pub mod k1 {
    use super::*;
    use midnight_curves::k256::{Fp, Fq, K256Affine as A, K256 as P};

    pub type C = Weierstrass<PrimeF>;
    pub type E = BigUint;
    pub type O = Opd<P, E>;
    const FAM: &str = "k256";
    const TP: &str = "K256";
    const TA: &str = "K256Affine";

    fn repr(b: &[u8]) -> <Fq as PrimeField>::Repr {
        let mut r = <Fq as PrimeField>::Repr::default();
        r.copy_from_slice(b);
        r
    }
    fn b2r(b: &Fp) -> BigUint {
        BigUint::from_bytes_be(b.to_bytes().as_slice())
    }
    fn r2b(e: &BigUint) -> Fp {
        Fp::from_bytes(&repr(&be_bytes(e, 32))).unwrap()
    }
    fn scalar(k: &BigUint) -> Fq {
        Fq::from_repr(repr(&be_bytes(k, 32))).unwrap()
    }
    pub fn obs_a(a: &A) -> Pt<E> {
        if bool::from(a.0.is_identity()) {
            return Pt::Inf;
        }
        Pt::Aff(b2r(&a.x()), b2r(&a.y()))
    }
    pub fn obs_p(p: &P) -> Pt<E> {
        obs_a(&p.to_affine())
    }
    fn hexp(spec: &Spec<C>, r: &Pt<E>) -> String {
        spec.curve.hex(r)
    }
    fn cp(b: &[u8]) -> <P as GroupEncoding>::Repr {
        let a: [u8; 33] = b.try_into().unwrap();
        a.into()
    }

    fn pool(spec: &Spec<C>, rng: &mut Rng, mode: Mode) -> Vec<O> {
        let mut v = vec![];
        let mut push = |cls: &'static str, p: P| v.push(mk_opd(spec, cls, p, obs_p(&p)));
        let r1 = P::random(&mut *rng);
        push("identity", <P as Group>::identity());
        push("generator", <P as Group>::generator());
        push("random", r1);
        if mode == Mode::San {
            return v;
        }
        let r2 = P::random(&mut *rng);
        push("random", r2);
        push("neg-of-random", -r1);
        push("same-point-z!=1", (r1 + r2) - r2);
        push("same-point-z!=1", r1.double() - r1);
        push("same-point-z=1", P::from(r1.to_affine()));
        v
    }

    pub fn run_ops(ctx: &Ctx, spec: &Spec<C>, base: &Report, label: &str, mode: Mode) -> ShardOut {
        let mut cx = Cx::new(base.fork(), spec, FAM, label);
        let mut rng = ctx.rng(label);
        let c = &spec.curve;
        let tiny = mode == Mode::San;
        let ops_pool = pool(spec, &mut rng, mode);
        cx.rep.sample(json!({"family": FAM, "shard": label, "operands": ops_pool.iter().map(|o| json!({"class": o.cls, "point": hexp(spec, &o.r)})).collect::<Vec<_>>()}));
        {
            cx.rep.evals(2);
            cx.stat(format!("op|{}.generator", TP));
            let g = obs_p(&P::generator());
            let ga = obs_a(&A::generator());
            if g != spec.gen || ga != spec.gen {
                cx.rep.violation("C11/K256/generator/mismatch", "generator() differs from the SEC 2 generator", json!({"family": FAM, "shard": label, "inputs": {}, "got": hexp(spec, &g)}));
            }
            // GLV constants: (base_zeta·x, y) = scalar_zeta^e · (x, y) for e = 1 or 2, both primitive cube roots
            let bz = b2r(&P::base_zeta());
            let sz = BigUint::from_bytes_be(P::scalar_zeta().to_repr().as_slice());
            let f = &c.f;
            let (gx, gy) = spec.gen.xy().unwrap();
            let phi = Pt::Aff(f.mul(&bz, gx), gy.clone());
            let ok_b = f.mul(&bz, &f.sqr(&bz)) == f.one() && bz != f.one();
            let ok_s = sz.modpow(&BigUint::from(3u32), &spec.r).is_one() && !sz.is_one();
            let l1 = c.mul(&spec.gen, &sz).unwrap();
            let l2 = c.mul(&spec.gen, &((&sz * &sz) % &spec.r)).unwrap();
            cx.stat(format!("op|{}.base_zeta/scalar_zeta", TP));
            if !(ok_b && ok_s && c.on_curve(&phi) && (phi == l1 || phi == l2)) {
                cx.rep.violation("C11/K256/zeta/mismatch", "base_zeta/scalar_zeta are not matching primitive cube roots of unity (φ(G) ≠ λ·G)", json!({"family": FAM, "shard": label, "inputs": {}, "base_zeta": format!("{bz:x}"), "scalar_zeta": format!("{sz:x}")}));
            } else {
                cx.rep.count(if phi == l1 { "observed.k256.base_zeta~scalar_zeta^1" } else { "observed.k256.base_zeta~scalar_zeta^2" });
            }
        }

        for (i, o) in ops_pool.iter().enumerate() {
            let p = o.p;
            let pa = p.to_affine();
            let key = hash_of(&(&o.r, i));
            let inp = || json!({"p": hexp(spec, &o.r), "p_class": o.cls});
            if !o.on_curve || !o.in_subgroup {
                cx.rep.violation("C11/K256/to_affine/off-curve", "an operand built by group operations is not on the curve / in the group", json!({"family": FAM, "shard": label, "inputs": inp()}));
                continue;
            }
            let mut b: Vec<BOp> = vec![];
            bop!(b, TP, "is_identity", bool::from(p.is_identity()));
            cx.bools(b, c.is_identity(&o.r), o.cls, key, &inp);
            let mut v: Vec<Op<E>> = vec![];
            op!(v, TP, "neg", obs_p, -p);
            op!(v, TP, "neg(&)", obs_p, -&p);
            cx.ops(v, &Some(c.neg(&o.r)), o.cls, key, &inp);
            let mut v: Vec<Op<E>> = vec![];
            op!(v, TP, "double", obs_p, p.double());
            cx.ops(v, &c.double(&o.r), o.cls, key, &inp);
            let mut v: Vec<Op<E>> = vec![];
            op!(v, TP, "to_affine", obs_a, p.to_affine());
            op!(v, TA, "from(K256)", obs_a, A::from(p));
            op!(v, TA, "from(&K256)", obs_a, A::from(&p));
            op!(v, TP, "from(affine)", obs_p, P::from(pa));
            op!(v, TP, "from(&affine)", obs_p, P::from(&pa));
            if !c.is_identity(&o.r) {
                v.push(mk(TA, "from_xy(x,y)", move || match A::from_xy(pa.x(), pa.y()) {
                    Some(a) => Ok(obs_a(&a)),
                    None => Err("None".into()),
                }));
            }
            cx.ops(v, &Some(o.r.clone()), o.cls, key, &inp);
            if let Pt::Aff(x, y) = &o.r {
                let (bx, by) = (r2b(x), r2b(&c.f.add(y, &c.f.one())));
                let mut b: Vec<BOp> = vec![];
                bop!(b, TA, "from_xy(off-curve)", A::from_xy(bx, by).is_some());
                cx.bools(b, false, o.cls, key, &inp);
            } else {
                // coordinate accessors on the identity: x() and y() are not documented to fail
                for (name, r) in [("x", catch_any(|| { let _ = pa.x(); })), ("y", catch_any(|| { let _ = pa.y(); }))] {
                    cx.rep.eval();
                    cx.stat(format!("op|{}.{}(identity)", TA, name));
                    if let Err(pi) = r {
                        cx.rep.count("panics");
                        cx.rep.violation(&format!("C11/K256Affine/{name}/panic"), &format!("K256Affine::{name}() panics on the identity: {} at {}", pi.message, pi.location),
                            json!({"family": FAM, "shard": label, "inputs": {"p": "identity"}, "location": pi.location}));
                    }
                }
            }
        }

        let on: Vec<&O> = ops_pool.iter().filter(|o| o.on_curve).collect();
        for a in &on {
            for b in &on {
                if tiny && b.cls != "random" {
                    continue;
                }
                let (p, q) = (a.p, b.p);
                let (pa, qa) = (p.to_affine(), q.to_affine());
                let cls = format!("{}x{}", a.cls, b.cls);
                cx.stat(format!("pair|{}|{}", FAM, cls));
                let key = hash_of(&(&a.r, &b.r));
                let inp = || json!({"p": hexp(spec, &a.r), "q": hexp(spec, &b.r), "p_class": a.cls, "q_class": b.cls});
                let mut v: Vec<Op<E>> = vec![];
                op!(v, TP, "add(P,P)", obs_p, p + q);
                op!(v, TP, "add(P,&P)", obs_p, p + &q);
                op!(v, TP, "add(P,A)", obs_p, p + qa);
                op!(v, TP, "add(P,&A)", obs_p, p + &qa);
                op!(v, TP, "add_assign(P)", obs_p, { let mut t = p; t += q; t });
                op!(v, TP, "add_assign(&P)", obs_p, { let mut t = p; t += &q; t });
                op!(v, TP, "add_assign(A)", obs_p, { let mut t = p; t += qa; t });
                op!(v, TP, "add_assign(&A)", obs_p, { let mut t = p; t += &qa; t });
                op!(v, TP, "sum(owned)", obs_p, [p, q].into_iter().sum::<P>());
                op!(v, TP, "sum(&)", obs_p, [p, q].iter().sum::<P>());
                cx.ops(v, &c.add(&a.r, &b.r), &cls, key, &inp);
                let mut v: Vec<Op<E>> = vec![];
                op!(v, TP, "sub(P,P)", obs_p, p - q);
                op!(v, TP, "sub(P,&P)", obs_p, p - &q);
                op!(v, TP, "sub(P,A)", obs_p, p - qa);
                op!(v, TP, "sub(P,&A)", obs_p, p - &qa);
                op!(v, TP, "sub_assign(P)", obs_p, { let mut t = p; t -= q; t });
                op!(v, TP, "sub_assign(&P)", obs_p, { let mut t = p; t -= &q; t });
                op!(v, TP, "sub_assign(A)", obs_p, { let mut t = p; t -= qa; t });
                op!(v, TP, "sub_assign(&A)", obs_p, { let mut t = p; t -= &qa; t });
                cx.ops(v, &c.sub(&a.r, &b.r), &cls, key, &inp);
                let mut e: Vec<BOp> = vec![];
                bop!(e, TP, "eq", p == q);
                bop!(e, TP, "ct_eq", bool::from(p.ct_eq(&q)));
                bop!(e, TA, "eq", pa == qa);
                bop!(e, TA, "ct_eq", bool::from(pa.ct_eq(&qa)));
                cx.bools(e, a.r == b.r, &cls, key, &inp);
                for (bit, exp) in [(0u8, &a.r), (1u8, &b.r)] {
                    let ch = Choice::from(bit);
                    let mut v: Vec<Op<E>> = vec![];
                    op!(v, TP, "conditional_select", obs_p, P::conditional_select(&p, &q, ch));
                    op!(v, TA, "conditional_select", obs_a, A::conditional_select(&pa, &qa, ch));
                    cx.ops(v, &Some(exp.clone()), &cls, key, &inp);
                }
            }
        }

        let scalars = scalar_classes(&mut rng, &spec.r, tiny);
        for (i, o) in on.iter().enumerate() {
            if !tiny && i > 0 && on[..i].iter().any(|x| x.cls == o.cls) {
                continue;
            }
            for (scls, k) in &scalars {
                let p = o.p;
                let s = scalar(k);
                let cls = format!("{}*{}", o.cls, scls);
                let kh = format!("{k:x}");
                let mut v: Vec<Op<E>> = vec![];
                op!(v, TP, "mul(P,S)", obs_p, p * s);
                op!(v, TP, "mul(P,&S)", obs_p, p * &s);
                op!(v, TP, "mul(S,P)", obs_p, s * p);
                op!(v, TP, "mul(S,&P)", obs_p, s * &p);
                op!(v, TP, "mul_assign(S)", obs_p, { let mut t = p; t *= s; t });
                op!(v, TP, "mul_assign(&S)", obs_p, { let mut t = p; t *= &s; t });
                cx.ops(v, &c.mul(&o.r, k), &cls, hash_of(&(&o.r, k)), &|| json!({"p": hexp(spec, &o.r), "p_class": o.cls, "scalar": kh}));
            }
        }

        {
            let pts: Vec<P> = on.iter().map(|o| o.p).collect();
            let refs: Vec<Pt<E>> = on.iter().map(|o| o.r.clone()).collect();
            for len in [0usize, 1, pts.len()] {
                let len = len.min(pts.len());
                let mut acc = Some(c.identity());
                for r in &refs[..len] {
                    acc = acc.and_then(|a| c.add(&a, r));
                }
                let sl = &pts[..len];
                let mut v: Vec<Op<E>> = vec![];
                v.push(mk(TP, "sum(iter owned)", move || Ok(obs_p(&sl.iter().copied().sum::<P>()))));
                v.push(mk(TP, "sum(iter &)", move || Ok(obs_p(&sl.iter().sum::<P>()))));
                cx.ops(v, &acc, &format!("list{len}"), hash_of(&(&refs[..len], len)), &|| json!({"points": refs[..len].iter().map(|r| hexp(spec, r)).collect::<Vec<_>>()}));
            }
            let inp = json!({"points": refs.iter().map(|r| hexp(spec, r)).collect::<Vec<_>>()});
            let out = catch_any(|| {
                let mut q = vec![A::identity(); pts.len()];
                <P as Curve>::batch_normalize(&pts, &mut q);
                q.iter().map(obs_a).collect::<Vec<_>>()
            });
            cx.rep.eval();
            cx.stat(format!("op|{}.batch_normalize", TP));
            cx.rep.nontrivial(&(TP, "batch_normalize", hash_of(&refs)));
            match out {
                Ok(q) => {
                    if let Some(j) = (0..pts.len()).find(|j| q[*j] != refs[*j]) {
                        cx.rep.violation("C11/K256/batch_normalize/mismatch", &format!("batch_normalize output {j} (class {}) is {} instead of {}", on[j].cls, hexp(spec, &q[j]), hexp(spec, &refs[j])),
                            json!({"family": FAM, "shard": label, "inputs": inp, "index": j}));
                    }
                }
                Err(pi) => {
                    cx.rep.count("panics");
                    cx.rep.violation("C11/K256/batch_normalize/panic", &format!("batch_normalize panicked: {} at {}", pi.message, pi.location), json!({"family": FAM, "shard": label, "inputs": inp}));
                }
            }
        }

        let decs = decoders();
        for o in &on {
            let want = sec1_encode(c, &o.r);
            let p = o.p;
            for (ty, got) in [(TP, catch_any(|| p.to_bytes().as_ref().to_vec())), (TA, catch_any(|| p.to_affine().to_bytes().as_ref().to_vec()))] {
                cx.rep.eval();
                cx.stat(format!("op|{}.to_bytes", ty));
                match got {
                    Ok(g) if g == want => {}
                    Ok(g) => cx.rep.violation(&format!("C11/{}/to_bytes/mismatch", ty), &format!("{ty}.to_bytes of a {} point is not the SEC1 compressed encoding", o.cls),
                        json!({"family": FAM, "shard": label, "inputs": {"p": hexp(spec, &o.r)}, "got": hx(&g), "expected": hx(&want)})),
                    Err(pi) => cx.rep.violation(&format!("C11/{}/to_bytes/panic", ty), &format!("to_bytes panicked: {}", pi.message), json!({"family": FAM, "shard": label, "inputs": {"p": hexp(spec, &o.r)}})),
                }
            }
            let refd = sec1_decode(c, &want);
            let mut sub = Some(true);
            for d in &decs {
                cx.decode(d, &want, &refd, &mut sub, &format!("valid/{}", o.cls));
            }
        }
        ShardOut { rep: cx.rep, stats: cx.stats }
    }

    pub fn decoders<'a>() -> Vec<Dec<'a, E>> {
        fn d<'a>(ty: &'static str, name: &'static str, checked: bool, f: impl Fn(&[u8]) -> Option<(Pt<E>, Vec<u8>)> + 'a) -> Dec<'a, E> {
            Dec { ty, name, checked, on_curve: true, policy: Policy::Required, documented_lax: &[], f: Box::new(f) }
        }
        vec![
            d(TP, "from_bytes", true, |b| Option::<P>::from(P::from_bytes(&cp(b))).map(|p| (obs_p(&p), p.to_bytes().as_ref().to_vec()))),
            d(TP, "from_bytes_unchecked", false, |b| Option::<P>::from(P::from_bytes_unchecked(&cp(b))).map(|p| (obs_p(&p), p.to_bytes().as_ref().to_vec()))),
            d(TA, "from_bytes", true, |b| Option::<A>::from(A::from_bytes(&cp(b))).map(|p| (obs_a(&p), p.to_bytes().as_ref().to_vec()))),
            d(TA, "from_bytes_unchecked", false, |b| Option::<A>::from(A::from_bytes_unchecked(&cp(b))).map(|p| (obs_a(&p), p.to_bytes().as_ref().to_vec()))),
        ]
    }

    pub fn run_dec(ctx: &Ctx, spec: &Spec<C>, base: &Report, label: &str, idx: usize, mode: Mode) -> ShardOut {
        let mut cx = Cx::new(base.fork(), spec, FAM, label);
        let mut rng = ctx.rng(label);
        let c = &spec.curve;
        let f = &c.f;
        let (vcls, vp): (&'static str, Pt<E>) = match idx {
            0 => ("identity", Pt::Inf),
            1 => ("generator", spec.gen.clone()),
            _ => ("random", c.mul(&spec.gen, &rand_big_below(&mut rng, &spec.r)).unwrap()),
        };
        cx.rep.sample(json!({"family": FAM, "shard": label, "valid_point": hexp(spec, &vp), "class": vcls}));
        let valid = sec1_encode(c, &vp);
        let mut corpus: Corpus = vec![(valid.clone(), "valid")];
        if mode == Mode::San {
            let mut b = valid.clone();
            b[9] ^= 2;
            corpus.push((b, "bit-flip"));
        } else {
            flips(&mut corpus, &valid);
            for tag in 0u16..=255 {
                let mut b = valid.clone();
                b[0] = tag as u8;
                corpus.push((b, "tag-byte"));
            }
            if idx < 2 {
                let mut xi = 1u64;
                let (mut w, mut wo) = (0, 0);
                while w < 3 || wo < 3 {
                    let x = f.from_u64(xi);
                    let has = f.is_square(&c.rhs(&x));
                    for tag in [2u8, 3] {
                        let mut b = vec![tag];
                        b.extend(be_bytes(&x, 32));
                        corpus.push((b, if has { "valid/small-x" } else { "x-without-y" }));
                        if has {
                            let mut b = vec![tag];
                            b.extend(be_bytes(&(&x + f.p()), 32));
                            corpus.push((b, "x>=p"));
                        }
                    }
                    if has { w += 1 } else { wo += 1 }
                    xi += 1;
                }
                for (v, cls) in [(f.p().clone(), "x=p"), (f.p() - 1u32, "x=p-1"), ((BigUint::one() << 256usize) - 1u32, "x=2^256-1")] {
                    for tag in [2u8, 3] {
                        let mut b = vec![tag];
                        b.extend(be_bytes(&v, 32));
                        corpus.push((b, cls));
                    }
                }
                for pos in [1usize, 16, 32] {
                    let mut b = vec![0u8; 33];
                    b[pos] = 1;
                    corpus.push((b, "infinity/non-zero-payload"));
                }
            }
            for _ in 0..ctx.tier.pick(60, 600) {
                corpus.push((rand_bytes(&mut rng, 33), "random"));
                let mut b = rand_bytes(&mut rng, 33);
                b[0] = 2 + (b[0] & 1);
                corpus.push((b, "random/plausible-flags"));
            }
        }
        let decs = decoders();
        for (bytes, cls) in &corpus {
            let refd = sec1_decode(c, bytes);
            let mut sub = Some(true);
            for d in &decs {
                cx.decode(d, bytes, &refd, &mut sub, cls);
            }
        }
        ShardOut { rep: cx.rep, stats: cx.stats }
    }
}

// =============================================================================================
// Curve25519 wrapper (curve25519-dalek), Edwards form
// =============================================================================================

pub mod c25519 {
    use super::*;
    use midnight_curves::curve25519::{Curve25519 as P, Curve25519Affine as A, Curve25519Subgroup as SG, Fp, Scalar, CURVE_A, CURVE_D};

    pub type C = TwistedEdwards<PrimeF>;
    pub type E = BigUint;
    pub type O = Opd<P, E>;
    const FAM: &str = "curve25519";
    const TP: &str = "Curve25519";
    const TA: &str = "Curve25519Affine";
    const TS: &str = "Curve25519Subgroup";

    fn b2r(b: &Fp) -> BigUint {
        BigUint::from_bytes_le(&b.to_bytes())
    }
    fn r2b(e: &BigUint) -> Fp {
        Fp::from_bytes(&le_bytes(e, 32).try_into().unwrap()).unwrap()
    }
    fn scalar(k: &BigUint) -> Scalar {
        let mut r = <Scalar as PrimeField>::Repr::default();
        r.as_mut().copy_from_slice(&le_bytes(k, 32));
        Scalar::from_repr(r).unwrap()
    }
    pub fn obs_a(a: &A) -> Pt<E> {
        Pt::Aff(b2r(a.x()), b2r(a.y()))
    }
    pub fn obs_p(p: &P) -> Pt<E> {
        obs_a(&p.to_affine())
    }
    pub fn obs_s(s: &SG) -> Pt<E> {
        obs_p(&P::from(*s))
    }
    fn from_ref(r: &Pt<E>) -> Option<A> {
        let (x, y) = r.xy()?;
        A::from_xy(r2b(x), r2b(y))
    }
    fn hexp(spec: &Spec<C>, r: &Pt<E>) -> String {
        spec.curve.hex(r)
    }
    fn arr(b: &[u8]) -> [u8; 32] {
        b.try_into().unwrap()
    }

    fn to_sg(expected_in_subgroup: bool, p: P) -> Option<SG> {
        if !expected_in_subgroup {
            return None;
        }
        catch_any(|| SG::from_edwards(p.0)).ok().flatten()
    }

    fn pool(cx: &mut Cx<C>, rng: &mut Rng, mode: Mode, torsion: &[Pt<E>]) -> Vec<O> {
        let spec = cx.spec;
        let mut v = vec![];
        let mut push = |cls: &'static str, p: P| v.push(mk_opd(spec, cls, p, obs_p(&p)));
        let r1 = P::random(&mut *rng);
        push("identity", <P as Group>::identity());
        push("generator", <P as Group>::generator());
        push("random", r1);
        if mode == Mode::San {
            return v;
        }
        let r2 = P::random(&mut *rng);
        let s1: P = SG::random(&mut *rng).into();
        push("random", r2);
        push("random-subgroup", s1);
        push("neg-of-random", -r1);
        push("same-point-z!=1", (r1 + r2) - r2);
        push("same-point-z!=1", r1.double() - r1);
        push("same-point-z=1", P::from(r1.to_affine()));
        for i in [0usize, 1, 3] {
            match from_ref(&torsion[i]) {
                Some(a) => {
                    push("small-order", P::from(a));
                    if i == 0 {
                        push("outside-subgroup", s1 + P::from(a));
                    }
                }
                None => cx.rep.violation("C11/Curve25519Affine/from_xy/rejects-valid small-order", "from_xy rejected an on-curve point of small order",
                    json!({"family": FAM, "shard": cx.shard, "inputs": {"point": hexp(spec, &torsion[i])}})),
            }
        }
        v
    }

    pub fn run_ops(ctx: &Ctx, spec: &Spec<C>, base: &Report, label: &str, mode: Mode) -> ShardOut {
        let mut cx = Cx::new(base.fork(), spec, FAM, label);
        let mut rng = ctx.rng(label);
        let c = &spec.curve;
        let tiny = mode == Mode::San;
        let torsion = edwards_torsion8(spec);
        let ops_pool = pool(&mut cx, &mut rng, mode, &torsion);
        cx.rep.sample(json!({"family": FAM, "shard": label, "operands": ops_pool.iter().map(|o| json!({"class": o.cls, "point": hexp(spec, &o.r)})).collect::<Vec<_>>()}));
        {
            cx.rep.evals(3);
            cx.stat(format!("op|{}.constants", TP));
            if b2r(&CURVE_D) != c.d || b2r(&CURVE_A) != c.a {
                cx.rep.violation("C11/Curve25519/CURVE_A-CURVE_D/mismatch", "CURVE_A / CURVE_D differ from -1 and -121665/121666", json!({"family": FAM, "shard": label, "inputs": {}}));
            }
            let g = obs_p(&<P as Group>::generator());
            let gs = obs_s(&<SG as Group>::generator());
            if g != spec.gen || gs != spec.gen {
                cx.rep.violation("C11/Curve25519/generator/mismatch", "generator() differs from the RFC 8032 base point", json!({"family": FAM, "shard": label, "inputs": {}, "got": hexp(spec, &g)}));
            }
            let d = obs_a(&A::default());
            if d != c.identity() {
                cx.rep.violation("C11/Curve25519Affine/default/mismatch", "Curve25519Affine::default() is not the identity", json!({"family": FAM, "shard": label, "inputs": {}}));
            }
        }

        for (i, o) in ops_pool.iter().enumerate() {
            let p = o.p;
            let pa = p.to_affine();
            let key = hash_of(&(&o.r, i));
            let inp = || json!({"p": hexp(spec, &o.r), "p_class": o.cls});
            if !o.on_curve {
                cx.rep.violation("C11/Curve25519/to_affine/off-curve", "an operand built by group operations is not on the curve", json!({"family": FAM, "shard": label, "inputs": inp()}));
                continue;
            }
            let mut b: Vec<BOp> = vec![];
            bop!(b, TP, "is_identity", bool::from(p.is_identity()));
            cx.bools(b, c.is_identity(&o.r), o.cls, key, &inp);
            let mut b: Vec<BOp> = vec![];
            bop!(b, TS, "from_edwards", SG::from_edwards(p.0).is_some());
            cx.bools(b, o.in_subgroup, o.cls, key, &inp);
            let mut v: Vec<Op<E>> = vec![];
            op!(v, TP, "neg", obs_p, -p);
            op!(v, TP, "neg(&)", obs_p, -&p);
            if let Some(s) = to_sg(o.in_subgroup, p) {
                op!(v, TS, "neg", obs_s, -s);
                op!(v, TS, "neg(&)", obs_s, -&s);
            }
            cx.ops(v, &Some(c.neg(&o.r)), o.cls, key, &inp);
            let mut v: Vec<Op<E>> = vec![];
            op!(v, TP, "double", obs_p, p.double());
            if let Some(s) = to_sg(o.in_subgroup, p) {
                op!(v, TS, "double", obs_s, s.double());
            }
            cx.ops(v, &c.double(&o.r), o.cls, key, &inp);
            let mut v: Vec<Op<E>> = vec![];
            op!(v, TP, "to_affine", obs_a, p.to_affine());
            op!(v, TA, "from(Curve25519)", obs_a, A::from(p));
            op!(v, TP, "from(affine)", obs_p, P::from(pa));
            op!(v, TA, "from_edwards", obs_a, A::from_edwards(p.0));
            op!(v, TA, "to_edwards", obs_p, P(pa.to_edwards()));
            v.push(mk(TA, "from_xy(x,y)", move || match A::from_xy(*pa.x(), *pa.y()) {
                Some(a) => Ok(obs_a(&a)),
                None => Err("None".into()),
            }));
            v.push(mk(TA, "from_xy(x,y).to_edwards", move || match A::from_xy(*pa.x(), *pa.y()) {
                Some(a) => Ok(obs_p(&P(a.to_edwards()))),
                None => Err("None".into()),
            }));
            if let Some(s) = to_sg(o.in_subgroup, p) {
                op!(v, TS, "into(Curve25519)", obs_p, P::from(s));
                op!(v, TS, "into(&Curve25519)", obs_p, P::from(&s));
                op!(v, TS, "inner", obs_p, P(*s.inner()));
            }
            cx.ops(v, &Some(o.r.clone()), o.cls, key, &inp);
            let (x, y) = o.r.xy().unwrap();
            let (bx, by) = (r2b(x), r2b(&c.f.add(y, &c.f.one())));
            let mut b: Vec<BOp> = vec![];
            bop!(b, TA, "from_xy(off-curve)", A::from_xy(bx, by).is_some());
            cx.bools(b, false, o.cls, key, &inp);
        }

        let on: Vec<&O> = ops_pool.iter().filter(|o| o.on_curve).collect();
        for a in &on {
            for b in &on {
                if tiny && b.cls != "random" {
                    continue;
                }
                let (p, q) = (a.p, b.p);
                let (pa, qa) = (p.to_affine(), q.to_affine());
                let cls = format!("{}x{}", a.cls, b.cls);
                cx.stat(format!("pair|{}|{}", FAM, cls));
                let key = hash_of(&(&a.r, &b.r));
                let inp = || json!({"p": hexp(spec, &a.r), "q": hexp(spec, &b.r), "p_class": a.cls, "q_class": b.cls});
                let subs = to_sg(a.in_subgroup && b.in_subgroup, p).zip(to_sg(a.in_subgroup && b.in_subgroup, q));
                let mut v: Vec<Op<E>> = vec![];
                op!(v, TP, "add(P,P)", obs_p, p + q);
                op!(v, TP, "add(P,&P)", obs_p, p + &q);
                op!(v, TP, "add(&P,P)", obs_p, &p + q);
                op!(v, TP, "add(&P,&P)", obs_p, &p + &q);
                op!(v, TP, "add(P,A)", obs_p, p + qa);
                op!(v, TP, "add(P,&A)", obs_p, p + &qa);
                op!(v, TP, "add_assign(P)", obs_p, { let mut t = p; t += q; t });
                op!(v, TP, "add_assign(&P)", obs_p, { let mut t = p; t += &q; t });
                op!(v, TP, "add_assign(A)", obs_p, { let mut t = p; t += qa; t });
                op!(v, TP, "add_assign(&A)", obs_p, { let mut t = p; t += &qa; t });
                op!(v, TP, "sum(owned)", obs_p, [p, q].into_iter().sum::<P>());
                op!(v, TP, "sum(&)", obs_p, [p, q].iter().sum::<P>());
                if let Some((s, t)) = subs {
                    op!(v, TS, "add(S,S)", obs_s, s + t);
                    op!(v, TS, "add(&S,&S)", obs_s, &s + &t);
                    op!(v, TS, "add_assign(S)", obs_s, { let mut x = s; x += t; x });
                    op!(v, TS, "add_assign(&S)", obs_s, { let mut x = s; x += &t; x });
                    op!(v, TS, "sum(&)", obs_s, [s, t].iter().sum::<SG>());
                }
                cx.ops(v, &c.add(&a.r, &b.r), &cls, key, &inp);
                let mut v: Vec<Op<E>> = vec![];
                op!(v, TP, "sub(P,P)", obs_p, p - q);
                op!(v, TP, "sub(P,&P)", obs_p, p - &q);
                op!(v, TP, "sub(P,A)", obs_p, p - qa);
                op!(v, TP, "sub(P,&A)", obs_p, p - &qa);
                op!(v, TP, "sub_assign(P)", obs_p, { let mut t = p; t -= q; t });
                op!(v, TP, "sub_assign(&P)", obs_p, { let mut t = p; t -= &q; t });
                op!(v, TP, "sub_assign(A)", obs_p, { let mut t = p; t -= qa; t });
                op!(v, TP, "sub_assign(&A)", obs_p, { let mut t = p; t -= &qa; t });
                if let Some((s, t)) = subs {
                    op!(v, TS, "sub(S,S)", obs_s, s - t);
                    op!(v, TS, "sub(S,&S)", obs_s, s - &t);
                    op!(v, TS, "sub_assign(S)", obs_s, { let mut x = s; x -= t; x });
                }
                cx.ops(v, &c.sub(&a.r, &b.r), &cls, key, &inp);
                let mut e: Vec<BOp> = vec![];
                bop!(e, TP, "eq", p == q);
                bop!(e, TP, "ct_eq", bool::from(p.ct_eq(&q)));
                bop!(e, TA, "eq", pa == qa);
                bop!(e, TA, "ct_eq", bool::from(pa.ct_eq(&qa)));
                if let Some((s, t)) = subs {
                    bop!(e, TS, "eq", s == t);
                    bop!(e, TS, "ct_eq", bool::from(s.ct_eq(&t)));
                }
                cx.bools(e, a.r == b.r, &cls, key, &inp);
                for (bit, exp) in [(0u8, &a.r), (1u8, &b.r)] {
                    let ch = Choice::from(bit);
                    let mut v: Vec<Op<E>> = vec![];
                    op!(v, TP, "conditional_select", obs_p, P::conditional_select(&p, &q, ch));
                    op!(v, TA, "conditional_select", obs_a, A::conditional_select(&pa, &qa, ch));
                    op!(v, TA, "conditional_select.to_edwards", obs_p, P(A::conditional_select(&pa, &qa, ch).to_edwards()));
                    if let Some((s, t)) = subs {
                        op!(v, TS, "conditional_select", obs_s, SG::conditional_select(&s, &t, ch));
                    }
                    cx.ops(v, &Some(exp.clone()), &cls, key, &inp);
                }
            }
        }

        let scalars = scalar_classes(&mut rng, &spec.r, tiny);
        for (i, o) in on.iter().enumerate() {
            if !tiny && i > 0 && on[..i].iter().any(|x| x.cls == o.cls) {
                continue;
            }
            for (scls, k) in &scalars {
                let p = o.p;
                let s = scalar(k);
                let cls = format!("{}*{}", o.cls, scls);
                let kh = format!("{k:x}");
                let mut v: Vec<Op<E>> = vec![];
                op!(v, TP, "mul(P,S)", obs_p, p * s);
                op!(v, TP, "mul(P,&S)", obs_p, p * &s);
                op!(v, TP, "mul(S,P)", obs_p, s * p);
                op!(v, TP, "mul(S,&P)", obs_p, s * &p);
                op!(v, TP, "mul_assign(S)", obs_p, { let mut t = p; t *= s; t });
                op!(v, TP, "mul_assign(&S)", obs_p, { let mut t = p; t *= &s; t });
                if let Some(g) = to_sg(o.in_subgroup, p) {
                    op!(v, TS, "mul(G,S)", obs_s, g * s);
                    op!(v, TS, "mul(S,G)", obs_s, s * g);
                    op!(v, TS, "mul_assign(S)", obs_s, { let mut t = g; t *= s; t });
                }
                cx.ops(v, &c.mul(&o.r, k), &cls, hash_of(&(&o.r, k)), &|| json!({"p": hexp(spec, &o.r), "p_class": o.cls, "scalar": kh}));
            }
        }

        {
            let pts: Vec<P> = on.iter().map(|o| o.p).collect();
            let refs: Vec<Pt<E>> = on.iter().map(|o| o.r.clone()).collect();
            for len in [0usize, 1, pts.len()] {
                let len = len.min(pts.len());
                let mut acc = Some(c.identity());
                for r in &refs[..len] {
                    acc = acc.and_then(|a| c.add(&a, r));
                }
                let sl = &pts[..len];
                let mut v: Vec<Op<E>> = vec![];
                v.push(mk(TP, "sum(iter owned)", move || Ok(obs_p(&sl.iter().copied().sum::<P>()))));
                v.push(mk(TP, "sum(iter &)", move || Ok(obs_p(&sl.iter().sum::<P>()))));
                cx.ops(v, &acc, &format!("list{len}"), hash_of(&(&refs[..len], len)), &|| json!({"points": refs[..len].iter().map(|r| hexp(spec, r)).collect::<Vec<_>>()}));
            }
            let inp = json!({"points": refs.iter().map(|r| hexp(spec, r)).collect::<Vec<_>>()});
            let out = catch_any(|| {
                let mut q = vec![A::default(); pts.len()];
                <P as Curve>::batch_normalize(&pts, &mut q);
                q.iter().map(obs_a).collect::<Vec<_>>()
            });
            cx.rep.eval();
            cx.stat(format!("op|{}.batch_normalize", TP));
            cx.rep.nontrivial(&(TP, "batch_normalize", hash_of(&refs)));
            match out {
                Ok(q) => {
                    if let Some(j) = (0..pts.len()).find(|j| q[*j] != refs[*j]) {
                        cx.rep.violation("C11/Curve25519/batch_normalize/mismatch", &format!("batch_normalize output {j} (class {}) is {} instead of {}", on[j].cls, hexp(spec, &q[j]), hexp(spec, &refs[j])),
                            json!({"family": FAM, "shard": label, "inputs": inp, "index": j}));
                    }
                }
                Err(pi) => {
                    cx.rep.count("panics");
                    cx.rep.violation("C11/Curve25519/batch_normalize/panic", &format!("batch_normalize panicked: {} at {}", pi.message, pi.location), json!({"family": FAM, "shard": label, "inputs": inp}));
                }
            }
        }

        let decs = decoders();
        for o in &on {
            let want = edwards_encode(c, &o.r);
            let p = o.p;
            for (ty, got) in [(TP, catch_any(|| p.to_bytes().to_vec())), (TA, catch_any(|| p.to_affine().to_bytes().to_vec()))] {
                cx.rep.eval();
                cx.stat(format!("op|{}.to_bytes", ty));
                match got {
                    Ok(g) if g == want => {}
                    Ok(g) => cx.rep.violation(&format!("C11/{}/to_bytes/mismatch", ty), &format!("{ty}.to_bytes of a {} point is not the RFC 8032 encoding", o.cls),
                        json!({"family": FAM, "shard": label, "inputs": {"p": hexp(spec, &o.r)}, "got": hx(&g), "expected": hx(&want)})),
                    Err(pi) => cx.rep.violation(&format!("C11/{}/to_bytes/panic", ty), &format!("to_bytes panicked: {}", pi.message), json!({"family": FAM, "shard": label, "inputs": {"p": hexp(spec, &o.r)}})),
                }
            }
            let refd = edwards_decode(c, &want);
            let mut sub = Some(o.in_subgroup);
            for d in &decs {
                cx.decode(d, &want, &refd, &mut sub, &format!("valid/{}", o.cls));
            }
        }
        ShardOut { rep: cx.rep, stats: cx.stats }
    }

    pub fn decoders<'a>() -> Vec<Dec<'a, E>> {
        fn d<'a>(ty: &'static str, name: &'static str, checked: bool, f: impl Fn(&[u8]) -> Option<(Pt<E>, Vec<u8>)> + 'a) -> Dec<'a, E> {
            Dec { ty, name, checked, on_curve: true, policy: Policy::AcceptAll, documented_lax: &[], f: Box::new(f) }
        }
        vec![
            d(TP, "from_bytes", true, |b| Option::<P>::from(P::from_bytes(&arr(b))).map(|p| (obs_p(&p), p.to_bytes().to_vec()))),
            d(TP, "from_bytes_unchecked", false, |b| Option::<P>::from(P::from_bytes_unchecked(&arr(b))).map(|p| (obs_p(&p), p.to_bytes().to_vec()))),
            d(TA, "from_bytes", true, |b| Option::<A>::from(A::from_bytes(&arr(b))).map(|p| (obs_a(&p), p.to_bytes().to_vec()))),
            d(TA, "from_bytes_unchecked", false, |b| Option::<A>::from(A::from_bytes_unchecked(&arr(b))).map(|p| (obs_a(&p), p.to_bytes().to_vec()))),
        ]
    }

    pub fn run_dec(ctx: &Ctx, spec: &Spec<C>, base: &Report, label: &str, idx: usize, mode: Mode) -> ShardOut {
        let mut cx = Cx::new(base.fork(), spec, FAM, label);
        let mut rng = ctx.rng(label);
        let c = &spec.curve;
        let torsion = edwards_torsion8(spec);
        let (vcls, vp): (&'static str, Pt<E>) = match idx {
            0 => ("identity", c.identity()),
            1 => ("generator", spec.gen.clone()),
            2 => ("small-order", torsion[0].clone()),
            3 => ("outside-subgroup", c.add(&c.mul(&spec.gen, &rand_big_below(&mut rng, &spec.r)).unwrap(), &torsion[2]).unwrap()),
            _ => ("random-subgroup", c.mul(&spec.gen, &rand_big_below(&mut rng, &spec.r)).unwrap()),
        };
        cx.rep.sample(json!({"family": FAM, "shard": label, "valid_point": hexp(spec, &vp), "class": vcls}));
        let valid = edwards_encode(c, &vp);
        let corpus = edwards_corpus(spec, &valid, idx, &mut rng, ctx.tier.pick(60, 600), mode);
        let decs = decoders();
        for (bytes, cls) in &corpus {
            let refd = edwards_decode(c, bytes);
            let mut sub = None;
            for d in &decs {
                cx.decode(d, bytes, &refd, &mut sub, cls);
            }
        }
        ShardOut { rep: cx.rep, stats: cx.stats }
    }
}

// =============================================================================================
// main
// =============================================================================================

struct Specs {
    g1: Spec<Weierstrass<PrimeF>>,
    g2: Spec<Weierstrass<QuadF>>,
    bn1: Spec<Weierstrass<PrimeF>>,
    bn2: Spec<Weierstrass<QuadF>>,
    k1: Spec<Weierstrass<PrimeF>>,
    jub: Spec<TwistedEdwards<PrimeF>>,
    ed: Spec<TwistedEdwards<PrimeF>>,
}

#[derive(Clone, Debug)]
struct Shard {
    fam: &'static str,
    dec: bool,
    idx: usize,
}

impl Shard {
    fn label(&self) -> String {
        format!("{}/{}/{}", self.fam, if self.dec { "dec" } else { "ops" }, self.idx)
    }
}

/// A panic that escapes the per-call guards (library panic inside operand construction or a
/// harness bug) must not take the process down: the shard is reported inconclusive.
fn run_shard(ctx: &Ctx, specs: &Specs, base: &Report, s: &Shard, mode: Mode) -> ShardOut {
    let t0 = std::time::Instant::now();
    let r = catch_any(|| run_shard_inner(ctx, specs, base, s, mode));
    if std::env::var("MZV_SHARD_TIMES").is_ok() {
        eprintln!("shard {} {:.2}s", s.label(), t0.elapsed().as_secs_f64());
    }
    match r {
        Ok(o) => o,
        Err(pi) => {
            let mut rep = base.fork();
            rep.count("shards.aborted");
            rep.inconclusive(&format!("shard {} aborted by an unguarded panic: {} at {}", s.label(), pi.message, pi.location));
            ShardOut { rep, stats: BTreeMap::new() }
        }
    }
}

fn run_shard_inner(ctx: &Ctx, specs: &Specs, base: &Report, s: &Shard, mode: Mode) -> ShardOut {
    let label = s.label();
    match (s.fam, s.dec) {
        ("bls12_381.G1", false) => bls_g1::run_ops(ctx, &specs.g1, base, &label, mode),
        ("bls12_381.G1", true) => bls_g1::run_dec(ctx, &specs.g1, base, &label, s.idx, mode),
        ("bls12_381.G2", false) => bls_g2::run_ops(ctx, &specs.g2, base, &label, mode),
        ("bls12_381.G2", true) => bls_g2::run_dec(ctx, &specs.g2, base, &label, s.idx, mode),
        ("bn256.G1", false) => bn_g1::run_ops(ctx, &specs.bn1, base, &label, mode),
        ("bn256.G1", true) => bn_g1::run_dec(ctx, &specs.bn1, base, &label, s.idx, mode),
        ("bn256.G2", false) => bn_g2::run_ops(ctx, &specs.bn2, base, &label, mode),
        ("bn256.G2", true) => bn_g2::run_dec(ctx, &specs.bn2, base, &label, s.idx, mode),
        ("jubjub", false) => jub::run_ops(ctx, &specs.jub, base, &label, mode),
        ("jubjub", true) => jub::run_dec(ctx, &specs.jub, base, &label, s.idx, mode),
        ("k256", false) => k1::run_ops(ctx, &specs.k1, base, &label, mode),
        ("k256", true) => k1::run_dec(ctx, &specs.k1, base, &label, s.idx, mode),
        ("curve25519", false) => c25519::run_ops(ctx, &specs.ed, base, &label, mode),
        ("curve25519", true) => c25519::run_dec(ctx, &specs.ed, base, &label, s.idx, mode),
        _ => unreachable!("unknown shard {label}"),
    }
}

const FAMILIES: &[&str] = &["bls12_381.G1", "bls12_381.G2", "bn256.G1", "bn256.G2", "jubjub", "k256", "curve25519"];

fn main() {
    let mut ctx = Ctx::from_args("C11");
    let mut rep = Report::new(
        &ctx,
        "cases are (type, operation, operand classes, operand values) drawn per shard from the seed; a case is \
         non-trivial iff the operands map to reference points for which the affine reference law is defined and the \
         library result is compared with it (decoders: iff the bytes were both decoded by the library and classified \
         by the reference codec)",
    );
    rep.assume("reference: affine group laws over num-bigint in harness/src/refs/curve.rs, constants from the published standards, self-checked against published vectors at start");
    rep.assume("library points are observed through the affine accessors (coordinates / get_u,get_v / x,y) after to_affine; the compressed encoding is used as a second observation channel");
    rep.assume("primality of the published group orders r is trusted");
    rep.assume("decoder policies: BLS12-381 compressed decoders and JubjubSubgroup::from_bytes must accept exactly the prime-order subgroup; BLS12-381 uncompressed decoders, all *_unchecked decoders and bn256::G2 may accept or reject on-curve points outside the subgroup (the repository documents on-curve checks only); Jubjub extended/affine and Curve25519 decoders must accept every canonical on-curve encoding; from_bytes_pre_zip216_compatibility may accept its two documented non-canonical encodings");
    rep.assume("counted, not failed: CurveAffine::coordinates() of the identity returns Some((0,0)) although its doc comment says None; bn256::G2::into_subgroup is unimplemented!() and is not called");

    let bad = self_check();
    if !bad.is_empty() {
        for b in &bad {
            rep.inconclusive(&format!("reference self-check failed: {b}"));
        }
        eprintln!("reference self-check failed: {bad:?}");
        rep.min_nontrivial = u64::MAX;
        rep.finish();
    }
    let specs = Specs { g1: bls12_381_g1(), g2: bls12_381_g2(), bn1: bn254_g1(), bn2: bn254_g2(), k1: secp256k1(), jub: jubjub(), ed: edwards25519() };

    let stage = ctx.extra.get("stage").cloned().unwrap_or_default();
    let mode = if stage == "san" { Mode::San } else { Mode::Full };

    // replay: re-run exactly the shard named in the witness, with the recorded seed and tier
    let mut only: Option<String> = None;
    let mut only_sig: Option<String> = None;
    if let Some(path) = ctx.replay.clone() {
        match load_replay(&path) {
            Some(j) => {
                only_sig = j.get("signature").and_then(|s| s.as_str()).map(|s| s.to_string());
                if let Some(s) = j.get("seed").and_then(|s| s.as_u64()) {
                    ctx.seed = s;
                }
                if j.get("tier").and_then(|s| s.as_str()) == Some("thorough") {
                    ctx.tier = Tier::Thorough;
                } else {
                    ctx.tier = Tier::Quick;
                }
                only = j.pointer("/witness/shard").and_then(|s| s.as_str()).map(|s| s.to_string());
                if only.is_none() {
                    rep.inconclusive("replay file has no witness.shard");
                }
            }
            None => rep.inconclusive("cannot read replay file"),
        }
        rep.ctx = ctx.clone();
    }

    let (n_ops, n_dec) = match mode {
        Mode::San => (1usize, 1usize),
        Mode::Full => (ctx.tier.pick(2, 90), ctx.tier.pick(4, 10)),
    };
    let mut shards: Vec<Shard> = vec![];
    // decoder shards first: they are the long ones (reference subgroup tests over F_p²)
    for fam in ["bls12_381.G2", "bn256.G2", "bls12_381.G1", "bn256.G1", "jubjub", "k256", "curve25519"] {
        for idx in 0..n_dec {
            shards.push(Shard { fam, dec: true, idx: if mode == Mode::San { 1 } else { idx } });
        }
    }
    for idx in 0..n_ops {
        for fam in FAMILIES {
            shards.push(Shard { fam, dec: false, idx });
        }
    }
    if let Some(o) = &only {
        shards.retain(|s| s.label() == *o);
    }
    rep.set("shards", json!(shards.len()));

    let outs: Vec<ShardOut> = if mode == Mode::San {
        shards.iter().map(|s| run_shard(&ctx, &specs, &rep, s, mode)).collect()
    } else {
        shards.par_iter().with_max_len(1).map(|s| run_shard(&ctx, &specs, &rep, s, mode)).collect()
    };
    let mut stats: BTreeMap<String, u64> = BTreeMap::new();
    for o in outs {
        for (k, v) in o.stats {
            *stats.entry(k).or_insert(0) += v;
        }
        rep.merge(o.rep);
    }
    if let Some(sig) = &only_sig {
        // replay: report the recorded defect only (the shard is re-executed as a whole)
        rep.violations.retain(|v| v.signature == *sig);
    }
    let mut ops = serde_json::Map::new();
    let mut classes = serde_json::Map::new();
    let mut pairs = serde_json::Map::new();
    let mut decclasses = serde_json::Map::new();
    for (k, v) in &stats {
        let (kind, rest) = k.split_once('|').unwrap();
        match kind {
            "op" => ops.insert(rest.to_string(), json!(v)),
            "class" => classes.insert(rest.to_string(), json!(v)),
            "pair" => pairs.insert(rest.to_string(), json!(v)),
            _ => decclasses.insert(rest.to_string(), json!(v)),
        };
    }
    rep.set("operation_counts", Json::Object(ops));
    rep.set("operand_class_counts", Json::Object(classes));
    rep.set("operand_pair_matrix", Json::Object(pairs));
    rep.set("decoder_corpus_classes", Json::Object(decclasses));
    // endo must be one fixed endomorphism: the same eigenvalue on every point of a family
    for fam in FAMILIES {
        let seen: Vec<&String> = rep.counters.keys().filter(|k| k.starts_with(&format!("observed.{fam}.endo=lambda"))).collect();
        if seen.len() > 1 {
            let w = json!({"family": fam, "inputs": {}, "observed": seen});
            rep.violation(&format!("C11/{fam}/endo/inconsistent-eigenvalue"), "endo(P) = λ·P holds with different cube roots λ on different points", w);
        }
    }
    if only.is_none() && mode == Mode::Full {
        for fam in FAMILIES {
            for cls in ["identity", "generator", "random", "same-point-z!=1"] {
                if !stats.contains_key(&format!("class|{fam}|{cls}")) {
                    rep.inconclusive(&format!("planned operand class {cls} of {fam} has no case"));
                }
            }
        }
        rep.min_nontrivial = ctx.tier.pick(20_000, 1_000_000);
    }
    rep.finish();
}
