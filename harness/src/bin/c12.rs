//! C12 — MSM, FFT and the evaluation-domain algebra equal their naive definitions.
//!
//! Oracles: R (refs::poly: double-and-add Σ sᵢ·Bᵢ, naive DFT, schoolbook polynomial algebra) and
//! D (the same call under rayon pools {1,2,3,5,8,16} × 3 repetitions must give the same value).
//! See DESIGN.md §5 C12.
#![allow(clippy::type_complexity, clippy::too_many_arguments)]

use std::{collections::BTreeMap, fmt::Debug};

use ff::{Field, PrimeField, WithSmallOrderMulGroup};
use group::{prime::PrimeCurveAffine, Curve, Group, GroupEncoding};
use midnight_curves::{
    bn256,
    fft::best_fft,
    msm::{msm_best, msm_parallel, msm_serial},
    pairing::Engine,
    Bls12, CurveAffine, Fq, G1Projective,
};
use midnight_proofs::{
    poly::{
        commitment::{Params, PolynomialCommitmentScheme},
        kzg::{
            msm::{msm_specific, MSMKZG},
            params::ParamsKZG,
            KZGCommitmentScheme,
        },
        CommitmentLabel, EvaluationDomain, ExtendedLagrangeCoeff, PolynomialRepresentation,
        Rotation,
    },
    utils::arithmetic::{
        compute_inner_product, eval_polynomial, g_to_lagrange, kate_division,
        lagrange_interpolate, MSM,
    },
};
use mzv::{common::*, refs::poly as rp};
use rand::Rng;
use rand_chacha::ChaCha8Rng;
use rayon::prelude::*;
use serde_json::{json, Value as Json};

const POOLS: [usize; 6] = [1, 2, 3, 5, 8, 16];
const PANIC_DIGEST: u64 = 0xdead_dead_dead_dead;

// ---------------------------------------------------------------------------------------------
// helpers
// ---------------------------------------------------------------------------------------------

fn dig_g<G: GroupEncoding>(g: &G) -> u64 {
    fnv(g.to_bytes().as_ref())
}
fn hex_g<G: GroupEncoding>(g: &G) -> String {
    hx(g.to_bytes().as_ref())
}
fn hex_f<F: PrimeField>(f: &F) -> String {
    hx(&rp::le_bytes(f))
}
fn dig_fs<F: PrimeField>(v: &[F]) -> u64 {
    let mut h = 0xcbf29ce484222325u64;
    for x in v {
        h = h.rotate_left(7) ^ fnv(x.to_repr().as_ref());
        h = h.wrapping_mul(0x100000001b3);
    }
    h
}
fn dig_gs<G: GroupEncoding>(v: &[G]) -> u64 {
    let mut h = 0xcbf29ce484222325u64;
    for x in v {
        h = h.rotate_left(7) ^ dig_g(x);
        h = h.wrapping_mul(0x100000001b3);
    }
    h
}

/// Runs `f(pool, rep)` for every pool size and repetition; every instance runs inside its own
/// rayon pool of exactly `pool` threads (common::with_pool). The instances run concurrently on
/// separate OS threads (what is executed is a function of (tier, seed) only; scheduling only
/// changes interleavings, which is what the D-oracle wants to vary).
fn run_workers<R: Send>(
    pools: &[usize],
    reps: usize,
    rep: &Report,
    f: impl Fn(usize, usize, &mut Report) -> R + Sync,
) -> Vec<((usize, usize), R, Report)> {
    let mut slots: Vec<((usize, usize), Report)> = vec![];
    for &p in pools {
        for r in 0..reps {
            slots.push(((p, r), rep.fork()));
        }
    }
    let f = &f;
    std::thread::scope(|s| {
        let handles: Vec<_> = slots
            .into_iter()
            .map(|((p, r), mut part)| {
                s.spawn(move || {
                    let out = with_pool(p, || f(p, r, &mut part));
                    ((p, r), out, part)
                })
            })
            .collect();
        handles.into_iter().map(|h| h.join().expect("worker thread")).collect()
    })
}

/// Compares the digests produced by all (pool, rep) workers for the same (case, entry).
fn divergent(digests: &[((usize, usize), u64)]) -> Option<Json> {
    let first = digests.first()?.1;
    if digests.iter().all(|d| d.1 == first) {
        return None;
    }
    let mut by: BTreeMap<String, Vec<String>> = BTreeMap::new();
    for ((p, r), d) in digests {
        by.entry(format!("{d:016x}")).or_default().push(format!("pool{p}/rep{r}"));
    }
    Some(json!(by))
}

// ---------------------------------------------------------------------------------------------
// MSM
// ---------------------------------------------------------------------------------------------

const SCALAR_CLASSES: [&str; 7] = ["zero", "one", "r-1", "top", "random", "sparse", "short"];
const BASE_CLASSES: [&str; 6] = ["random", "identity", "equal", "pairs", "blocks64", "genmul"];
const ENTRIES: [&str; 7] = [
    "msm_serial",
    "msm_parallel",
    "msm_best",
    "msm_specific",
    "MSMKZG::eval",
    "MSMKZG::scale+add_msm",
    "multi_exp",
];

fn entry_file(entry: &str) -> &'static str {
    match entry {
        "msm_serial" | "msm_parallel" | "msm_best" => "curves/src/msm.rs",
        "multi_exp" => "curves/src/bls12_381/g1.rs",
        _ => "proofs/src/poly/kzg/msm.rs",
    }
}

struct BasePool<E: Engine> {
    /// b_i with B_i = b_i·G
    b: Vec<E::Fr>,
    p: Vec<E::G1>,
    /// (i+1)·G by repeated addition
    genmul: Vec<E::G1>,
}

fn build_pool<E: Engine>(ctx: &Ctx, curve: &str, size: usize) -> BasePool<E> {
    let mut rng = ctx.rng(&format!("msm/pool/{curve}"));
    let b: Vec<E::Fr> = (0..size).map(|_| E::Fr::random(&mut rng)).collect();
    let g = E::G1::generator();
    let p: Vec<E::G1> = b.par_iter().map(|bi| rp::scalar_mul(&g, bi)).collect();
    let mut genmul = Vec::with_capacity(size);
    let mut acc = g;
    for _ in 0..size {
        genmul.push(acc);
        acc = acc + g;
    }
    BasePool { b, p, genmul }
}

#[derive(Clone, Debug, PartialEq, Eq, Hash)]
struct MsmDesc {
    curve: String,
    n: usize,
    sc: String,
    bc: String,
    round: usize,
}

struct MsmCase<E: Engine> {
    desc: MsmDesc,
    scalars: Vec<E::Fr>,
    proj: Vec<E::G1>,
    aff: Vec<E::G1Affine>,
    has_identity: bool,
    nontrivial: bool,
    expected: E::G1,
    /// factor used by the scale+add_msm entry
    factor: E::Fr,
    expected_scaled: E::G1,
    refs_used: &'static str,
    pool_size: usize,
    naive_cap: usize,
}

fn top_scalars<F: PrimeField>() -> Vec<F> {
    let two = F::ONE + F::ONE;
    let two_inv: F = Option::from(two.invert()).unwrap();
    let nb = F::NUM_BITS as u64;
    let mut v = vec![
        -F::ONE,
        -two,
        -(two + F::ONE),
        -two_inv,          // (r-1)/2 ... as -(1/2) = (r-1)/2
        two_inv,           // (r+1)/2
        rp::pow_u64(two, nb - 1),
        rp::pow_u64(two, nb - 1) - F::ONE,
        rp::pow_u64(two, nb - 2),
        rp::pow_u64(two, nb - 2) - F::ONE,
        rp::pow_u64(two, nb),
        rp::pow_u64(two, nb) - F::ONE,
    ];
    // all-ones / one-hot patterns in the top 12 bits below the modulus
    for j in 1..12u64 {
        v.push(-rp::pow_u64(two, j));
        v.push(-F::ONE - rp::pow_u64(two, nb - 1 - j));
        v.push(rp::pow_u64(two, nb - 1 - j) + rp::pow_u64(two, nb - 2 - j));
    }
    v
}

fn gen_scalars<F: PrimeField>(rng: &mut ChaCha8Rng, n: usize, sc: &str) -> Vec<F> {
    match sc {
        "zero" => vec![F::ZERO; n],
        "one" => vec![F::ONE; n],
        "r-1" => vec![-F::ONE; n],
        "top" => {
            let t = top_scalars::<F>();
            (0..n)
                .map(|i| {
                    if i < t.len() {
                        t[i]
                    } else if rng.gen_bool(0.5) {
                        t[rng.gen_range(0..t.len())]
                    } else {
                        -F::ONE - F::from(rng.gen::<u32>() as u64)
                    }
                })
                .collect()
        }
        "random" => (0..n).map(|_| F::random(&mut *rng)).collect(),
        "sparse" => {
            let mut v: Vec<F> = (0..n)
                .map(|_| if rng.gen_range(0..10) == 0 { F::random(&mut *rng) } else { F::ZERO })
                .collect();
            if n > 0 {
                let i = rng.gen_range(0..n);
                v[i] = F::random(&mut *rng);
            }
            v
        }
        "short" => (0..n).map(|_| F::from(rng.gen::<u16>() as u64)).collect(),
        _ => unreachable!(),
    }
}

fn build_case<E>(ctx: &Ctx, pool: &BasePool<E>, desc: &MsmDesc, naive_cap: usize) -> MsmCase<E>
where
    E: Engine,
    E::G1Affine: CurveAffine<ScalarExt = E::Fr, CurveExt = E::G1>,
{
    let MsmDesc {
        curve,
        n,
        sc,
        bc,
        round,
    } = desc;
    let n = *n;
    let mut rng = ctx.rng(&format!("msm/{curve}/{n}/{sc}/{bc}/{round}"));
    let scalars: Vec<E::Fr> = gen_scalars(&mut rng, n, sc);
    let np = pool.p.len();
    let start = rng.gen_range(0..np);
    let at = |i: usize| (start + i) % np;
    let zero = E::Fr::ZERO;
    let id = E::G1::identity();
    let mut known = true;
    let (proj, bvals): (Vec<E::G1>, Vec<E::Fr>) = match bc.as_str() {
        "random" => (0..n).map(|i| (pool.p[at(i)], pool.b[at(i)])).unzip(),
        "identity" => (0..n)
            .map(|i| {
                if i == 0 || i == n / 2 || i + 1 == n || rng.gen_range(0..16) == 0 {
                    (id, zero)
                } else {
                    (pool.p[at(i)], pool.b[at(i)])
                }
            })
            .unzip(),
        "equal" => (0..n).map(|_| (pool.p[start], pool.b[start])).unzip(),
        "pairs" => (0..n)
            .map(|i| {
                let j = at(i / 2);
                if i % 2 == 0 {
                    (pool.p[j], pool.b[j])
                } else {
                    (-pool.p[j], -pool.b[j])
                }
            })
            .unzip(),
        "blocks64" => (0..n).map(|i| (pool.p[at(i / 64)], pool.b[at(i / 64)])).unzip(),
        "genmul" => (0..n).map(|i| (pool.genmul[i], E::Fr::from(i as u64 + 1))).unzip(),
        "unknown" => {
            known = false;
            (0..n).map(|_| (E::G1::random(&mut rng), zero)).unzip()
        }
        _ => unreachable!(),
    };
    // single-point conversion only (G1Projective::batch_normalize(&[], ..) panics in blst's
    // p1_affines::from — same root cause as the empty multi_exp; batch conversion belongs to C11)
    let aff: Vec<E::G1Affine> = proj.iter().map(|p| p.to_affine()).collect();
    let has_identity = proj.iter().any(|p| bool::from(p.is_identity()));
    let nontrivial = scalars
        .iter()
        .zip(proj.iter())
        .any(|(s, p)| !bool::from(s.is_zero()) && !bool::from(p.is_identity()));

    let g = E::G1::generator();
    let e_known = known.then(|| rp::scalar_mul(&g, &rp::inner_product(&scalars, &bvals)));
    let e_naive = (n <= naive_cap || !known).then(|| rp::naive_msm(&scalars, &proj));
    let (expected, refs_used) = match (e_known, e_naive) {
        (Some(a), Some(b)) => {
            assert!(a == b, "harness reference self-check failed (known-multiples vs naive) {desc:?}");
            (a, "known-multiples+naive")
        }
        (Some(a), None) => (a, "known-multiples"),
        (None, Some(b)) => (b, "naive"),
        _ => unreachable!(),
    };
    let factor = E::Fr::random(&mut rng);
    let expected_scaled = rp::scalar_mul(&expected, &factor);
    MsmCase {
        desc: desc.clone(),
        scalars,
        proj,
        aff,
        has_identity,
        nontrivial,
        expected,
        factor,
        expected_scaled,
        refs_used,
        pool_size: np,
        naive_cap,
    }
}

/// One execution of an entry point on a case.
fn run_entry<E>(
    case: &MsmCase<E>,
    entry: usize,
    multi_exp: Option<fn(&[E::G1], &[E::Fr]) -> E::G1>,
) -> Option<(E::G1, E::G1)>
where
    E: Engine + Debug,
    E::G1Affine: CurveAffine<ScalarExt = E::Fr, CurveExt = E::G1>,
{
    let exp = case.expected;
    Some(match entry {
        0 => {
            let mut acc = E::G1::identity();
            msm_serial::<E::G1Affine>(&case.scalars, &case.aff, &mut acc);
            (acc, exp)
        }
        1 => (msm_parallel::<E::G1Affine>(&case.scalars, &case.aff), exp),
        2 => (msm_best::<E::G1Affine>(&case.scalars, &case.aff), exp),
        3 => (msm_specific::<E::G1Affine>(&case.scalars, &case.proj), exp),
        4 => {
            let mut m = MSMKZG::<E>::init();
            for (s, b) in case.scalars.iter().zip(case.proj.iter()) {
                m.append_term(*s, *b, CommitmentLabel::NoLabel);
            }
            let r = m.eval();
            // `check` is defined as "the result is the identity": keep it consistent
            let chk = m.check();
            if chk != bool::from(r.is_identity()) {
                // report as a wrong value: return something that differs from expected
                return Some((E::G1::generator() + exp, exp));
            }
            (r, exp)
        }
        5 => {
            let h = case.scalars.len() / 2;
            let mut m1 = MSMKZG::<E>::init();
            let mut m2 = MSMKZG::<E>::init();
            for (i, (s, b)) in case.scalars.iter().zip(case.proj.iter()).enumerate() {
                if i < h {
                    m1.append_term(*s, *b, CommitmentLabel::NoLabel);
                } else {
                    m2.append_term(*s, *b, CommitmentLabel::NoLabel);
                }
            }
            m1.add_msm(&m2);
            m1.scale(case.factor);
            (m1.eval(), case.expected_scaled)
        }
        6 => match multi_exp {
            Some(f) => (f(&case.proj, &case.scalars), exp),
            None => return None,
        },
        _ => unreachable!(),
    })
}

fn msm_witness<E: Engine>(case: &MsmCase<E>, entry: &str, pool: usize, rep_i: usize) -> Json {
    let mut w = json!({
        "section": "msm", "curve": case.desc.curve, "entry": entry, "n": case.desc.n,
        "scalar_class": case.desc.sc, "base_class": case.desc.bc, "round": case.desc.round,
        "pool": pool, "rep": rep_i, "reference": case.refs_used, "pool_size": case.pool_size, "naive_cap": case.naive_cap,
        "expected": hex_g(&case.expected),
        "regenerate": "inputs are a function of (seed, tier, curve, n, scalar_class, base_class, round); --replay regenerates them",
    });
    if case.desc.n <= 40 {
        w["scalars_le_hex"] = json!(case.scalars.iter().map(hex_f).collect::<Vec<_>>());
        w["bases_compressed_hex"] = json!(case.proj.iter().map(hex_g).collect::<Vec<_>>());
    }
    w
}

/// Runs all entries on all cases inside the current pool; returns digests[case][entry].
fn msm_worker<E>(
    cases: &[MsmCase<E>],
    multi_exp: Option<fn(&[E::G1], &[E::Fr]) -> E::G1>,
    pool: usize,
    rep_i: usize,
    rep: &mut Report,
) -> Vec<[u64; 7]>
where
    E: Engine + Debug,
    E::G1Affine: CurveAffine<ScalarExt = E::Fr, CurveExt = E::G1>,
{
    let mut out = Vec::with_capacity(cases.len());
    for case in cases {
        let mut row = [0u64; 7];
        for (ei, entry) in ENTRIES.iter().enumerate() {
            if ei == 6 && multi_exp.is_none() {
                continue;
            }
            let call = || catch_any(|| run_entry::<E>(case, ei, multi_exp).unwrap());
            rep.eval();
            rep.count(&format!("msm.{}.{}", case.desc.curve, entry));
            match call() {
                Ok((got, want)) => {
                    row[ei] = dig_g(&got);
                    if got != want {
                        // re-run once before reporting
                        let again = call();
                        let reproduced = matches!(&again, Ok((g2, _)) if *g2 == got);
                        if reproduced {
                            let mut w = msm_witness(case, entry, pool, rep_i);
                            w["got"] = json!(hex_g(&got));
                            w["want"] = json!(hex_g(&want));
                            rep.violation(
                                &format!("C12/{entry}/mismatch@{} {}", entry_file(entry), case.desc.curve),
                                &format!(
                                    "{entry} on {} n={} scalars={} bases={} differs from the naive sum (pool {pool})",
                                    case.desc.curve, case.desc.n, case.desc.sc, case.desc.bc
                                ),
                                w,
                            );
                        } else {
                            rep.inconclusive(&format!(
                                "msm mismatch did not reproduce on re-run: {entry} {:?} pool {pool}",
                                case.desc
                            ));
                            rep.count("msm.unreproduced_mismatch");
                        }
                    }
                }
                Err(p) => {
                    row[ei] = PANIC_DIGEST;
                    let again = call();
                    if again.is_ok() {
                        rep.inconclusive(&format!(
                            "msm panic did not reproduce on re-run: {entry} {:?} pool {pool}: {}",
                            case.desc, p.message
                        ));
                        continue;
                    }
                    rep.count(&format!("msm.panic.{}.{}", case.desc.curve, entry));
                    let file = repo_file(&p.file);
                    let mut w = msm_witness(case, entry, pool, rep_i);
                    w["panic"] = json!({"message": p.message, "location": p.location});
                    let n_eff = if ei >= 3 {
                        case.scalars.iter().filter(|s| !bool::from(s.is_zero())).count()
                    } else {
                        case.desc.n
                    };
                    let sig = if case.desc.n == 0 && ei == 6 {
                        "C12/multi_exp/panic@curves/src/bls12_381/g1.rs empty-input".to_string()
                    } else if (file.ends_with("curves/src/msm.rs") || file.contains("/subtle-"))
                        && case.has_identity
                        && n_eff >= 8104
                        && ei != 0
                        && ei != 1
                        && ei != 6
                    {
                        // one defect (Affine::from unwraps the coordinates of the identity in the
                        // batch-affine path of msm_best), whichever wrapper reaches it
                        w["reached_through"] = json!(entry);
                        "C12/msm_best/panic@curves/src/msm.rs identity-base batch-affine-path".to_string()
                    } else {
                        // panics raised inside dependencies (no #[track_caller]) are attributed to
                        // the entry point's file; the real location is in the witness
                        let f = if in_repo(&p.file) { file.clone() } else { entry_file(entry).to_string() };
                        format!("C12/{entry}/panic@{f} {}", case.desc.curve)
                    };
                    rep.violation(
                        &sig,
                        &format!(
                            "{entry} panics on {} n={} scalars={} bases={} (pool {pool}): {} at {}",
                            case.desc.curve, case.desc.n, case.desc.sc, case.desc.bc, p.message, p.location
                        ),
                        w,
                    );
                }
            }
        }
        out.push(row);
    }
    out
}

fn combos(n: usize, tier: Tier, round: usize, rng: &mut ChaCha8Rng, naive_cap: usize) -> Vec<(String, String)> {
    let ns = SCALAR_CLASSES.len();
    let nb = BASE_CLASSES.len();
    let mut v: Vec<(usize, usize)> = vec![];
    let full = n < 130 && tier == Tier::Thorough;
    let special = n <= 8 || [31, 32, 33, 63, 64, 65, 127, 128, 129].contains(&n);
    let diagonal = |v: &mut Vec<(usize, usize)>| {
        for i in 0..ns.max(nb) {
            v.push((i % ns, (i + n + round) % nb));
        }
    };
    let covering = |v: &mut Vec<(usize, usize)>| {
        // every base class with random scalars, every scalar class with random bases
        for b in 0..nb {
            v.push((4, b));
        }
        for s in 0..ns {
            v.push((s, 0));
        }
    };
    // the edge combinations that matter for bucket scheduling
    let edges = [(1, 3), (1, 2), (2, 4), (3, 1), (1, 4)];
    if full {
        for s in 0..ns {
            for b in 0..nb {
                v.push((s, b));
            }
        }
    } else if tier == Tier::Thorough && n <= 8104 {
        diagonal(&mut v);
        covering(&mut v);
        v.extend(edges);
    } else if n < 130 {
        // quick: a diagonal that shifts with n (every pair of classes is met at several lengths);
        // the full covering set at the lengths around the window-size switches
        diagonal(&mut v);
        if special {
            covering(&mut v);
        }
    } else if n <= 4096 {
        diagonal(&mut v);
        v.extend(edges);
    } else {
        // quick: single lengths 8103 / 8104; thorough: lengths above 8104 — the batch-affine path of
        // msm_best with the edge classes
        v.extend([(4, 0), (1, 1), (4, 1), (1, 3), (2, 2), (3, 4), (4, 5)]);
    }
    let _ = rng;
    v.sort();
    v.dedup();
    let mut out: Vec<(String, String)> = v
        .into_iter()
        .map(|(s, b)| (SCALAR_CLASSES[s].to_string(), BASE_CLASSES[b].to_string()))
        .collect();
    if n <= naive_cap && n > 0 {
        out.push(("random".into(), "unknown".into()));
        out.push(("top".into(), "unknown".into()));
    }
    out
}

fn msm_lengths(tier: Tier) -> Vec<usize> {
    let mut v: Vec<usize> = (0..70).collect();
    v.extend([127, 128, 129, 1000, 4095, 4096]);
    match tier {
        Tier::Quick => v.extend([8103, 8104]),
        Tier::Thorough => v.extend([8102, 8103, 8104, 16384, 22026, 22027, 32768]),
    }
    v
}

fn msm_section<E>(
    ctx: &Ctx,
    rep: &mut Report,
    curve: &str,
    multi_exp: Option<fn(&[E::G1], &[E::Fr]) -> E::G1>,
    lengths: &[usize],
    pools: &[usize],
    reps: usize,
    rounds: usize,
) where
    E: Engine + Debug,
    E::G1Affine: CurveAffine<ScalarExt = E::Fr, CurveExt = E::G1>,
{
    let naive_cap = if lengths.iter().all(|n| *n <= 300) { 300 } else { ctx.tier.pick(129, 1000) };
    let max_n = lengths.iter().copied().max().unwrap_or(1).max(64);
    let pool = build_pool::<E>(ctx, curve, max_n);
    let mut crng = ctx.rng(&format!("msm/combos/{curve}"));

    // groups: all small lengths together, then one group per large length
    let mut groups: Vec<Vec<MsmDesc>> = vec![vec![]];
    for &n in lengths {
        let nrounds = if (1000..=4096).contains(&n) { rounds } else { 1 };
        let mut g = vec![];
        for round in 0..nrounds {
            for (sc, bc) in combos(n, ctx.tier, round, &mut crng, naive_cap) {
                g.push(MsmDesc {
                    curve: curve.to_string(),
                    n,
                    sc,
                    bc,
                    round,
                });
            }
        }
        if n < 130 || n <= 300 && lengths.iter().all(|n| *n <= 300) {
            groups[0].extend(g);
        } else {
            groups.push(g);
        }
    }

    for descs in groups.into_iter().filter(|g| !g.is_empty()) {
        let t0 = std::time::Instant::now();
        let cases: Vec<MsmCase<E>> =
            descs.par_iter().map(|d| build_case::<E>(ctx, &pool, d, naive_cap)).collect();
        let results = run_workers(pools, reps, rep, |p, r, part| {
            msm_worker::<E>(&cases, multi_exp, p, r, part)
        });
        if std::env::var("C12_TIMING").is_ok() {
            eprintln!("[c12] msm {curve} group n={}..{} cases={} {:.1}s", descs[0].n, descs[descs.len() - 1].n, descs.len(), t0.elapsed().as_secs_f64());
        }
        let mut all: Vec<((usize, usize), Vec<[u64; 7]>)> = vec![];
        for (pr, digs, part) in results {
            rep.merge(part);
            all.push((pr, digs));
        }
        for (ci, case) in cases.iter().enumerate() {
            rep.count(&format!("msm.cases.scalars.{}", case.desc.sc));
            rep.count(&format!("msm.cases.bases.{}", case.desc.bc));
            rep.count(&format!("msm.cases.reference.{}", case.refs_used));
            for (ei, entry) in ENTRIES.iter().enumerate() {
                if ei == 6 && multi_exp.is_none() {
                    continue;
                }
                if case.nontrivial {
                    rep.nontrivial(&("msm", &case.desc, entry));
                }
                let digs: Vec<_> = all.iter().map(|(pr, d)| (*pr, d[ci][ei])).collect();
                if let Some(by) = divergent(&digs) {
                    let mut w = msm_witness(case, entry, 0, 0);
                    w["results_by_pool"] = by;
                    rep.violation(
                        &format!("C12/{entry}/pool-divergence@{} {}", entry_file(entry), curve),
                        &format!(
                            "{entry} on {curve} n={} scalars={} bases={} gives different results under different pools/repetitions",
                            case.desc.n, case.desc.sc, case.desc.bc
                        ),
                        w,
                    );
                }
            }
            if ci < 2 && case.desc.n > 3 && case.desc.n < 12 {
                rep.sample(msm_witness(case, "(all)", 0, 0));
            }
        }
    }

    // mismatched slice lengths: documented panic (msm_parallel / msm_best) or silent truncation;
    // recorded, never a violation
    let mut rng = ctx.rng(&format!("msm/lenmismatch/{curve}"));
    for &n in &[5usize, 40] {
        let s: Vec<E::Fr> = (0..n).map(|_| E::Fr::random(&mut rng)).collect();
        let pj: Vec<E::G1> = pool.p[..n].to_vec();
        let af: Vec<E::G1Affine> = pj.iter().map(|p| p.to_affine()).collect();
        for (what, (ls, lb)) in [("fewer_bases", (n, n - 1)), ("fewer_scalars", (n - 1, n))] {
            let trunc = rp::naive_msm(&s[..n - 1], &pj[..n - 1]);
            let mut probe = |name: &str, r: Result<E::G1, PanicInfo>| {
                rep.eval();
                let outcome = match r {
                    Err(_) => "panic",
                    Ok(v) if v == trunc => "truncated-sum",
                    Ok(_) => "other-value",
                };
                rep.count(&format!("msm.len_mismatch.{curve}.{name}.{what}.{outcome}"));
            };
            probe("msm_serial", catch_any(|| {
                let mut a = E::G1::identity();
                msm_serial::<E::G1Affine>(&s[..ls], &af[..lb], &mut a);
                a
            }));
            probe("msm_parallel", catch_any(|| msm_parallel::<E::G1Affine>(&s[..ls], &af[..lb])));
            probe("msm_best", catch_any(|| msm_best::<E::G1Affine>(&s[..ls], &af[..lb])));
            probe("msm_specific", catch_any(|| msm_specific::<E::G1Affine>(&s[..ls], &pj[..lb])));
            if let Some(f) = multi_exp {
                probe("multi_exp", catch_any(|| f(&pj[..lb], &s[..ls])));
            }
        }
    }
}

fn bls_multi_exp(p: &[G1Projective], s: &[Fq]) -> G1Projective {
    G1Projective::multi_exp(p, s)
}

// ---------------------------------------------------------------------------------------------
// FFT
// ---------------------------------------------------------------------------------------------

const FFT_FILE: &str = "curves/src/fft.rs";

struct FftCase<S: PrimeField, T> {
    name: String,
    log_n: u32,
    class: &'static str,
    a: Vec<T>,
    omega: S,
    omega_inv: S,
    n_inv: S,
    /// full expected forward transform (naive DFT) when affordable
    expected: Option<Vec<T>>,
    /// (index j, expected out[j]) computed by Horner at ω^j
    spot: Vec<(usize, T)>,
    nontrivial: bool,
}

fn fft_consts<S: PrimeField>(log_n: u32) -> (S, S, S) {
    let omega: S = rp::root_of_unity(log_n);
    assert!(rp::has_order_pow2(omega, log_n), "harness: omega does not have order 2^{log_n}");
    let omega_inv: S = Option::from(omega.invert()).unwrap();
    let n_inv: S = Option::from(S::from(1u64 << log_n).invert()).unwrap();
    (omega, omega_inv, n_inv)
}

fn fft_field_cases<F: PrimeField>(ctx: &Ctx, fname: &str, max_log: u32, naive_log: u32) -> Vec<FftCase<F, F>> {
    let mut descs = vec![];
    for log_n in 0..=max_log {
        for class in ["random", "zero", "delta1", "ones", "r-1", "last"] {
            descs.push((log_n, class));
        }
    }
    descs
        .par_iter()
        .map(|&(log_n, class)| {
            let n = 1usize << log_n;
            let mut rng = ctx.rng(&format!("fft/{fname}/{log_n}/{class}"));
            let (omega, omega_inv, n_inv) = fft_consts::<F>(log_n);
            let a: Vec<F> = match class {
                "random" => (0..n).map(|_| F::random(&mut rng)).collect(),
                "zero" => vec![F::ZERO; n],
                "delta1" => (0..n).map(|i| if i == 1 % n { F::ONE } else { F::ZERO }).collect(),
                "ones" => vec![F::ONE; n],
                "r-1" => vec![-F::ONE; n],
                "last" => (0..n).map(|i| if i + 1 == n { F::random(&mut rng) } else { F::ZERO }).collect(),
                _ => unreachable!(),
            };
            let expected = (log_n <= naive_log).then(|| rp::naive_dft(&a, omega));
            let spot = (0..8.min(n))
                .map(|_| {
                    let j = rng.gen_range(0..n);
                    (j, rp::poly_eval(&a, rp::pow_u64(omega, j as u64)))
                })
                .collect();
            FftCase {
                name: fname.to_string(),
                log_n,
                class,
                nontrivial: n >= 2 && a.iter().any(|x| !bool::from(x.is_zero())),
                a,
                omega,
                omega_inv,
                n_inv,
                expected,
                spot,
            }
        })
        .collect()
}

fn fft_group_cases<G>(ctx: &Ctx, gname: &str, max_log: u32, naive_group_log: u32) -> Vec<FftCase<G::Scalar, G>>
where
    G: Group + GroupEncoding,
    G::Scalar: PrimeField,
{
    let g = G::generator();
    let mut descs = vec![];
    for log_n in 0..=max_log {
        descs.push((log_n, "known-multiples"));
        if log_n <= 8 {
            descs.push((log_n, "with-identities"));
        }
        if log_n <= naive_group_log {
            descs.push((log_n, "unknown-dlog"));
        }
    }
    descs
        .par_iter()
        .map(|&(log_n, class)| {
            let n = 1usize << log_n;
            let mut rng = ctx.rng(&format!("fft/{gname}/{log_n}/{class}"));
            let (omega, omega_inv, n_inv) = fft_consts::<G::Scalar>(log_n);
            let (a, expected): (Vec<G>, Vec<G>) = if class == "unknown-dlog" {
                let a: Vec<G> = (0..n).map(|_| G::random(&mut rng)).collect();
                let e = rp::naive_dft_group(&a, omega);
                (a, e)
            } else {
                let b: Vec<G::Scalar> = (0..n)
                    .map(|i| {
                        if class == "with-identities" && (i % 3 == 0 || rng.gen_range(0..4) == 0) {
                            G::Scalar::ZERO
                        } else {
                            G::Scalar::random(&mut rng)
                        }
                    })
                    .collect();
                let a: Vec<G> = b.par_iter().map(|bi| rp::scalar_mul(&g, bi)).collect();
                let e: Vec<G> = rp::naive_dft(&b, omega).par_iter().map(|c| rp::scalar_mul(&g, c)).collect();
                (a, e)
            };
            FftCase {
                name: gname.to_string(),
                log_n,
                class,
                nontrivial: n >= 2 && a.iter().any(|x| !bool::from(x.is_identity())),
                a,
                omega,
                omega_inv,
                n_inv,
                expected: Some(expected),
                spot: vec![],
            }
        })
        .collect()
}

fn fft_witness<S: PrimeField, T>(c: &FftCase<S, T>, dir: &str, pool: usize, rep_i: usize) -> Json {
    json!({"section": "fft", "type": c.name, "log_n": c.log_n, "class": c.class, "direction": dir,
           "pool": pool, "rep": rep_i, "omega_le_hex": hex_f(&c.omega),
           "regenerate": "input is a function of (seed, type, log_n, class)"})
}

/// forward (vs naive DFT / Horner spots), then inverse (vs the input). Returns digests.
fn fft_worker<S, T>(
    cases: &[FftCase<S, T>],
    digest: fn(&[T]) -> u64,
    pool: usize,
    rep_i: usize,
    rep: &mut Report,
) -> Vec<[u64; 2]>
where
    S: PrimeField,
    T: midnight_curves::fft::FftGroup<S> + PartialEq,
{
    let mut out = vec![];
    for c in cases {
        let mut row = [0u64; 2];
        let run = |dir: usize, input: &[T]| -> Result<Vec<T>, PanicInfo> {
            let mut v = input.to_vec();
            catch_any(move || {
                if dir == 0 {
                    best_fft(&mut v, c.omega, c.log_n);
                } else {
                    best_fft(&mut v, c.omega_inv, c.log_n);
                    for x in v.iter_mut() {
                        *x *= &c.n_inv;
                    }
                }
                v
            })
        };
        let fwd_ok = |v: &[T]| match &c.expected {
            Some(e) => v == &e[..],
            None => c.spot.iter().all(|(j, y)| v[*j] == *y),
        };
        rep.eval();
        rep.count(&format!("fft.{}.forward", c.name));
        let fwd = match run(0, &c.a) {
            Ok(v) => v,
            Err(p) => {
                row[0] = PANIC_DIGEST;
                let mut w = fft_witness(c, "forward", pool, rep_i);
                w["panic"] = json!({"message": p.message, "location": p.location});
                rep.violation(
                    &format!("C12/best_fft/panic@{FFT_FILE} {}", c.name),
                    &format!("best_fft panics on {} log_n={} ({}): {} at {}", c.name, c.log_n, c.class, p.message, p.location),
                    w,
                );
                out.push(row);
                continue;
            }
        };
        row[0] = digest(&fwd);
        if !fwd_ok(&fwd) {
            let again = run(0, &c.a);
            if matches!(&again, Ok(v2) if *v2 == fwd) {
                let mut w = fft_witness(c, "forward", pool, rep_i);
                w["first_bad_index"] = json!(c.expected.as_ref().and_then(|e| e.iter().zip(fwd.iter()).position(|(a, b)| a != b)));
                rep.violation(
                    &format!("C12/best_fft/mismatch@{FFT_FILE} {} forward", c.name),
                    &format!("best_fft on {} log_n={} ({}) differs from the naive DFT (pool {pool})", c.name, c.log_n, c.class),
                    w,
                );
            } else {
                rep.inconclusive(&format!("fft forward mismatch did not reproduce: {} log_n={} pool {pool}", c.name, c.log_n));
            }
        }
        // inverse of the *reference* forward transform when available (independent of the
        // forward result of the library), else of the library's forward result
        let inv_in: &[T] = c.expected.as_deref().unwrap_or(&fwd);
        rep.eval();
        rep.count(&format!("fft.{}.inverse", c.name));
        match run(1, inv_in) {
            Ok(v) => {
                row[1] = digest(&v);
                if v != c.a {
                    let again = run(1, inv_in);
                    if matches!(&again, Ok(v2) if *v2 == v) {
                        rep.violation(
                            &format!("C12/best_fft/mismatch@{FFT_FILE} {} inverse", c.name),
                            &format!("best_fft with ω⁻¹ and 1/n on {} log_n={} ({}) does not invert the DFT (pool {pool})", c.name, c.log_n, c.class),
                            fft_witness(c, "inverse", pool, rep_i),
                        );
                    } else {
                        rep.inconclusive(&format!("fft inverse mismatch did not reproduce: {} log_n={} pool {pool}", c.name, c.log_n));
                    }
                }
            }
            Err(p) => {
                row[1] = PANIC_DIGEST;
                let mut w = fft_witness(c, "inverse", pool, rep_i);
                w["panic"] = json!({"message": p.message, "location": p.location});
                rep.violation(
                    &format!("C12/best_fft/panic@{FFT_FILE} {}", c.name),
                    &format!("best_fft panics on {} log_n={} ({}): {} at {}", c.name, c.log_n, c.class, p.message, p.location),
                    w,
                );
            }
        }
        out.push(row);
    }
    out
}

fn fft_run<S, T>(rep: &mut Report, cases: Vec<FftCase<S, T>>, digest: fn(&[T]) -> u64, pools: &[usize], reps: usize)
where
    S: PrimeField,
    T: midnight_curves::fft::FftGroup<S> + PartialEq,
{
    let results = run_workers(pools, reps, rep, |p, r, part| fft_worker(&cases, digest, p, r, part));
    let mut all = vec![];
    for (pr, d, part) in results {
        rep.merge(part);
        all.push((pr, d));
    }
    for (ci, c) in cases.iter().enumerate() {
        if c.nontrivial {
            rep.nontrivial(&("fft", &c.name, c.log_n, c.class));
        }
        rep.count(&format!("fft.cases.{}.{}", c.name, if c.expected.is_some() { "naive-dft" } else { "horner-spots" }));
        for (di, dir) in ["forward", "inverse"].iter().enumerate() {
            let digs: Vec<_> = all.iter().map(|(pr, d)| (*pr, d[ci][di])).collect();
            if let Some(by) = divergent(&digs) {
                let mut w = fft_witness(c, dir, 0, 0);
                w["results_by_pool"] = by;
                rep.violation(
                    &format!("C12/best_fft/pool-divergence@{FFT_FILE} {}", c.name),
                    &format!("best_fft on {} log_n={} ({}) {dir}: results differ between pools/repetitions", c.name, c.log_n, c.class),
                    w,
                );
            }
        }
    }
}

fn fft_section(ctx: &Ctx, rep: &mut Report, max_log: u32, naive_log: u32, max_log_group: u32, pools: &[usize], reps: usize) {
    fft_run(rep, fft_field_cases::<Fq>(ctx, "bls12-381-Fr", max_log, naive_log), dig_fs::<Fq>, pools, reps);
    fft_run(rep, fft_field_cases::<bn256::Fr>(ctx, "bn254-Fr", max_log, naive_log), dig_fs::<bn256::Fr>, pools, reps);
    fft_run(rep, fft_group_cases::<G1Projective>(ctx, "bls12-381-G1", max_log_group, 4), dig_gs::<G1Projective>, pools, reps);
    fft_run(rep, fft_group_cases::<bn256::G1>(ctx, "bn254-G1", max_log_group.min(7), 3), dig_gs::<bn256::G1>, pools, reps);
    rep.set("fft", json!({"max_log_n": max_log, "naive_dft_up_to_log_n": naive_log, "group_max_log_n": max_log_group}));
}

// ---------------------------------------------------------------------------------------------
// Evaluation domain and polynomial utilities
// ---------------------------------------------------------------------------------------------

const DOMAIN_FILE: &str = "proofs/src/poly/domain.rs";
const ARITH_FILE: &str = "proofs/src/utils/arithmetic.rs";

struct DomCase<F> {
    fname: String,
    j: u32,
    k: u32,
    n: usize,
    ext_k: u32,
    ext_len: usize,
    omega: F,
    ext_omega: F,
    g_coset: F,
    /// n random coefficients, its values on the domain and on the coset of the extended domain
    p: Vec<F>,
    p_evals: Vec<F>,
    p_ext: Vec<F>,
    /// ext_len random coefficients and its values on the coset
    big: Vec<F>,
    big_ext: Vec<F>,
    /// quotient q (ext_len − n coefficients) and the coset values of q·(Xⁿ − 1)
    q: Vec<F>,
    qz_ext: Vec<F>,
    /// arbitrary extended values and the values of Xⁿ − 1 on the coset
    arb: Vec<F>,
    vanish_at: Vec<F>,
    x: F,
    li_idx: Vec<i32>,
    li_expected: Vec<F>,
}

fn par_evals<F: PrimeField>(poly: &[F], pts: &[F]) -> Vec<F> {
    pts.par_iter().map(|x| rp::poly_eval(poly, *x)).collect()
}

fn build_dom_case<F>(ctx: &Ctx, fname: &str, j: u32, k: u32) -> Result<DomCase<F>, String>
where
    F: WithSmallOrderMulGroup<3> + PrimeField + Ord,
{
    let d = catch_any(|| EvaluationDomain::<F>::new(j, k)).map_err(|p| format!("{} at {}", p.message, p.location))?;
    let n = 1usize << k;
    let ext_k = d.extended_k();
    let ext_len = d.extended_len();
    let omega = d.get_omega();
    let ext_omega = d.get_extended_omega();
    let g_coset = <ExtendedLagrangeCoeff as PolynomialRepresentation>::g_coset(&d);
    let mut rng = ctx.rng(&format!("domain/{fname}/{j}/{k}"));
    let mut rnd = |m: usize| -> Vec<F> { (0..m).map(|_| F::random(&mut rng)).collect() };
    let p = rnd(n);
    let big = rnd(ext_len);
    let q = rnd(ext_len.saturating_sub(n));
    let arb = rnd(ext_len);
    let x = rnd(1)[0];
    let mut pts = Vec::with_capacity(n);
    let mut w = F::ONE;
    for _ in 0..n {
        pts.push(w);
        w *= omega;
    }
    let mut cpts = Vec::with_capacity(ext_len);
    let mut w = g_coset;
    for _ in 0..ext_len {
        cpts.push(w);
        w *= ext_omega;
    }
    let p_evals = par_evals(&p, &pts);
    let p_ext = par_evals(&p, &cpts);
    let big_ext = par_evals(&big, &cpts);
    let z = rp::vanishing::<F>(n);
    let qz = rp::poly_mul(&z, &q); // sparse factor first: O(2·len q)
    if !q.is_empty() {
        // reference self-check: long division gives back (q, 0)
        let (q2, r2) = rp::poly_divrem(&qz, &z);
        if !rp::poly_eq(&q2, &q) || !rp::trim(r2).is_empty() {
            return Err("harness: long-division self-check failed".into());
        }
    }
    let qz_ext = par_evals(&qz, &cpts);
    let vanish_at: Vec<F> = cpts.iter().map(|c| rp::pow_u64(*c, n as u64) - F::ONE).collect();
    let ni = n as i32;
    let mut li_idx: Vec<i32> = if n <= 16 {
        (-(2 * ni + 1)..=(2 * ni + 1)).collect()
    } else {
        let mut v: Vec<i32> = (-5..=5).collect();
        v.extend(ni - 3..=ni + 3);
        v.extend(-ni - 3..=-ni + 3);
        v.extend([2 * ni, 2 * ni + 1, -2 * ni - 1, ni / 2, -ni / 2]);
        v
    };
    li_idx.dedup();
    let li_expected: Vec<F> = li_idx
        .par_iter()
        .map(|i| rp::lagrange_basis_eval(omega, n, rp::wrap_index(*i as i64, n), x))
        .collect();
    Ok(DomCase {
        fname: fname.to_string(),
        j,
        k,
        n,
        ext_k,
        ext_len,
        omega,
        ext_omega,
        g_coset,
        p,
        p_evals,
        p_ext,
        big,
        big_ext,
        q,
        qz_ext,
        arb,
        vanish_at,
        x,
        li_idx,
        li_expected,
    })
}

fn dom_check(
    rep: &mut Report,
    func: &str,
    file: &str,
    wit: &Json,
    shape: &str,
    f: impl Fn() -> bool,
) {
    rep.eval();
    rep.count(&format!("domain.{func}"));
    let mut w = wit.clone();
    w["function"] = json!(func);
    match catch_any(&f) {
        Ok(true) => {}
        Ok(false) => {
            if matches!(catch_any(&f), Ok(false)) {
                rep.violation(
                    &format!("C12/{func}/mismatch@{file}{shape}"),
                    &format!("{func} disagrees with plain polynomial arithmetic ({wit})"),
                    w,
                );
            } else {
                rep.inconclusive(&format!("{func} mismatch did not reproduce ({wit})"));
            }
        }
        Err(p) => {
            w["panic"] = json!({"message": p.message, "location": p.location});
            rep.violation(
                &format!("C12/{func}/panic@{file}{shape}"),
                &format!("{func} panics ({wit}): {} at {}", p.message, p.location),
                w,
            );
        }
    }
}

fn dom_worker<F>(cases: &[DomCase<F>], pool: usize, rep: &mut Report)
where
    F: WithSmallOrderMulGroup<3> + PrimeField + Ord,
{
    for c in cases {
        let wit = json!({"section": "domain", "field": c.fname, "j": c.j, "k": c.k, "pool": pool,
                         "regenerate": "inputs are a function of (seed, field, j, k)"});
        let d = match catch_any(|| EvaluationDomain::<F>::new(c.j, c.k)) {
            Ok(d) => d,
            Err(p) => {
                rep.violation(
                    &format!("C12/EvaluationDomain::new/panic@{DOMAIN_FILE}"),
                    &format!("EvaluationDomain::new({}, {}) panics: {} at {}", c.j, c.k, p.message, p.location),
                    wit.clone(),
                );
                continue;
            }
        };
        let d = &d;
        let n = c.n;
        let ext = |vals: &[F]| {
            let mut e = d.empty_extended();
            e.copy_from_slice(vals);
            e
        };
        dom_check(rep, "EvaluationDomain::new", DOMAIN_FILE, &wit, "", || {
            let g = <ExtendedLagrangeCoeff as PolynomialRepresentation>::g_coset(d);
            d.get_omega() == c.omega
                && d.get_extended_omega() == c.ext_omega
                && g == c.g_coset
                && d.k() == c.k
                && d.extended_k() == c.ext_k
                && d.extended_len() == c.ext_len
                && c.ext_k >= c.k
                && (c.ext_len as u64) >= (n as u64) * (c.j as u64 - 1)
                && rp::has_order_pow2(c.omega, c.k)
                && rp::has_order_pow2(c.ext_omega, c.ext_k)
                && rp::pow_u64(c.ext_omega, 1u64 << (c.ext_k - c.k)) == c.omega
                && d.get_omega_inv() * c.omega == F::ONE
                && d.get_quotient_poly_degree() == (c.j - 1) as usize
                // the vanishing polynomial must not vanish on the coset
                && c.vanish_at.iter().all(|v| !bool::from(v.is_zero()))
        });
        dom_check(rep, "coeff_to_lagrange", DOMAIN_FILE, &wit, "", || {
            d.coeff_to_lagrange(d.coeff_from_vec(c.p.clone()))[..] == c.p_evals[..]
        });
        dom_check(rep, "lagrange_to_coeff", DOMAIN_FILE, &wit, "", || {
            d.lagrange_to_coeff(d.lagrange_from_vec(c.p_evals.clone()))[..] == c.p[..]
        });
        dom_check(rep, "coeff_to_extended", DOMAIN_FILE, &wit, "", || {
            d.coeff_to_extended(d.coeff_from_vec(c.p.clone()))[..] == c.p_ext[..]
        });
        dom_check(rep, "extended_to_coeff", DOMAIN_FILE, &wit, "", || {
            d.extended_to_coeff(ext(&c.big_ext)) == c.big
        });
        dom_check(rep, "extended_to_lagrange", DOMAIN_FILE, &wit, "", || {
            d.extended_to_lagrange(ext(&c.p_ext))[..] == c.p_evals[..]
        });
        dom_check(rep, "divide_by_vanishing_poly", DOMAIN_FILE, &wit, " pointwise", || {
            let r = d.divide_by_vanishing_poly(ext(&c.arb));
            let ok = r.iter().zip(c.vanish_at.iter()).zip(c.arb.iter()).all(|((r, v), a)| *r * *v == *a);
            ok
        });
        if !c.q.is_empty() {
            dom_check(rep, "divide_by_vanishing_poly", DOMAIN_FILE, &wit, " long-division", || {
                let r = d.divide_by_vanishing_poly(ext(&c.qz_ext));
                let got = d.extended_to_coeff(r);
                let mut want = c.q.clone();
                want.resize(c.ext_len, F::ZERO);
                got == want
            });
        }
        let v = c.x;
        for r in [-3i32, -2, -1, 0, 1, 2, 3, n as i32, -(n as i32), 1 << 20, -(1 << 20), i32::MAX, i32::MIN] {
            dom_check(rep, "rotate_omega", DOMAIN_FILE, &wit, "", || {
                d.rotate_omega(v, Rotation(r)) == v * rp::pow_i64(c.omega, r as i64)
            });
        }
        for r in -3i32..=3 {
            let shape = if r.unsigned_abs() as usize > n { " rotation-larger-than-domain" } else { "" };
            let mut w = wit.clone();
            w["rotation"] = json!(r);
            dom_check(rep, "Polynomial::rotate", "proofs/src/poly/mod.rs", &w, shape, || {
                let e = d.lagrange_from_vec(c.p_evals.clone());
                let rot = e.rotate(Rotation(r));
                // values: rot[i] = p(ω^{i+r}); as a polynomial: rot(X) = p(ω^r·X)
                let idx_ok = (0..n).all(|i| rot[i] == c.p_evals[rp::wrap_index(i as i64 + r as i64, n)]);
                let coeffs = d.lagrange_to_coeff(rot);
                idx_ok && rp::poly_eval(&coeffs, c.x) == rp::poly_eval(&c.p, c.x * rp::pow_i64(c.omega, r as i64))
            });
        }
        dom_check(rep, "l_i_range", DOMAIN_FILE, &wit, "", || {
            let xn = rp::pow_u64(c.x, n as u64);
            d.l_i_range(c.x, xn, c.li_idx.iter().copied()) == c.li_expected
        });
        // contiguous range form as used by the verifier
        dom_check(rep, "l_i_range", DOMAIN_FILE, &wit, "", || {
            let xn = rp::pow_u64(c.x, n as u64);
            let lo = -(n.min(6) as i32);
            let got = d.l_i_range(c.x, xn, lo..=2);
            (lo..=2).zip(got.iter()).all(|(i, g)| {
                *g == rp::lagrange_basis_eval(c.omega, n, rp::wrap_index(i as i64, n), c.x)
            })
        });
        // observation only: the barycentric formula is 0/0 for x inside the domain
        if pool == 1 {
            let xd = rp::pow_u64(c.omega, 1 % n as u64);
            if let Ok(got) = catch_any(|| d.l_i_range(xd, F::ONE, 0..(n.min(4) as i32))) {
                let want: Vec<F> = (0..n.min(4)).map(|i| rp::lagrange_basis_eval(c.omega, n, i, xd)).collect();
                rep.count(if got == want { "domain.l_i_range.x_in_domain.correct" } else { "domain.l_i_range.x_in_domain.differs(documented barycentric formula, counted only)" });
            } else {
                rep.count("domain.l_i_range.x_in_domain.panic(counted only)");
            }
        }
    }
}

struct ArithCases<F> {
    fname: String,
    evals: Vec<(Vec<F>, F, F)>,
    kate: Vec<(Vec<F>, F, Vec<F>)>,
    interp: Vec<(Vec<F>, Vec<F>, Vec<F>)>,
    inner: Vec<(Vec<F>, Vec<F>, F)>,
}

fn build_arith<F: PrimeField + Ord>(ctx: &Ctx, fname: &str) -> ArithCases<F> {
    let mut rng = ctx.rng(&format!("arith/{fname}"));
    let mut lens: Vec<usize> = (0..70).collect();
    lens.extend([127, 128, 129, 1000, 1024, 4097]);
    let mut evals = vec![];
    for &l in &lens {
        for xc in 0..3 {
            let a: Vec<F> = (0..l).map(|_| F::random(&mut rng)).collect();
            let x = match xc {
                0 => F::random(&mut rng),
                1 => F::ZERO,
                _ => F::ONE,
            };
            let e = rp::poly_eval(&a, x);
            assert!(e == rp::poly_eval_powers(&a, x), "harness: Horner self-check");
            evals.push((a, x, e));
        }
    }
    let mut kate = vec![];
    let mut klens: Vec<usize> = (1..40).collect();
    klens.extend([64, 128, 1000]);
    for &l in &klens {
        for variant in 0..4 {
            let b = match variant {
                2 => F::ZERO,
                3 => F::ONE,
                _ => F::random(&mut rng),
            };
            let a: Vec<F> = if variant == 0 && l >= 2 {
                // exact multiple of (X - b)
                let q: Vec<F> = (0..l - 1).map(|_| F::random(&mut rng)).collect();
                rp::poly_mul(&q, &[-b, F::ONE])
            } else {
                (0..l).map(|_| F::random(&mut rng)).collect()
            };
            let (mut q, _r) = rp::poly_divrem(&a, &[-b, F::ONE]);
            q.resize(a.len() - 1, F::ZERO);
            kate.push((a, b, q));
        }
    }
    let mut interp = vec![];
    for m in 0..=ctx.tier.pick(9usize, 16) {
        for _ in 0..3 {
            let mut pts: Vec<F> = vec![];
            while pts.len() < m {
                let c = if rng.gen_range(0..4) == 0 { F::from(rng.gen_range(0..6u64)) } else { F::random(&mut rng) };
                if !pts.contains(&c) {
                    pts.push(c);
                }
            }
            let ev: Vec<F> = (0..m).map(|_| if rng.gen_range(0..5) == 0 { F::ZERO } else { F::random(&mut rng) }).collect();
            let want = rp::lagrange_interpolate(&pts, &ev);
            for (x, y) in pts.iter().zip(ev.iter()) {
                assert!(rp::poly_eval(&want, *x) == *y, "harness: interpolation self-check");
            }
            interp.push((pts, ev, want));
        }
    }
    let mut inner = vec![];
    for l in 0..20 {
        let a: Vec<F> = (0..l).map(|_| F::random(&mut rng)).collect();
        let b: Vec<F> = (0..l).map(|_| F::random(&mut rng)).collect();
        let e = rp::inner_product(&a, &b);
        inner.push((a, b, e));
    }
    ArithCases {
        fname: fname.to_string(),
        evals,
        kate,
        interp,
        inner,
    }
}

fn arith_worker<F: PrimeField + Ord>(a: &ArithCases<F>, pool: usize, rep: &mut Report) {
    for (i, (poly, x, want)) in a.evals.iter().enumerate() {
        let wit = json!({"section": "arith", "field": a.fname, "case": i, "len": poly.len(), "pool": pool,
                         "x_le_hex": hex_f(x), "poly_le_hex": if poly.len() <= 16 { json!(poly.iter().map(hex_f).collect::<Vec<_>>()) } else { json!("regenerate from seed") }});
        dom_check(rep, "eval_polynomial", ARITH_FILE, &wit, "", || eval_polynomial(poly, *x) == *want);
    }
    for (i, (poly, b, want)) in a.kate.iter().enumerate() {
        let wit = json!({"section": "arith", "field": a.fname, "case": i, "len": poly.len(), "pool": pool, "b_le_hex": hex_f(b)});
        dom_check(rep, "kate_division", ARITH_FILE, &wit, "", || kate_division(poly.iter(), *b) == *want);
    }
    for (i, (pts, ev, want)) in a.interp.iter().enumerate() {
        let wit = json!({"section": "arith", "field": a.fname, "case": i, "points": pts.iter().map(hex_f).collect::<Vec<_>>(),
                         "evals": ev.iter().map(hex_f).collect::<Vec<_>>(), "pool": pool});
        dom_check(rep, "lagrange_interpolate", ARITH_FILE, &wit, "", || lagrange_interpolate(pts, ev) == *want);
    }
    for (i, (x, y, want)) in a.inner.iter().enumerate() {
        let wit = json!({"section": "arith", "field": a.fname, "case": i, "len": x.len(), "pool": pool});
        dom_check(rep, "compute_inner_product", ARITH_FILE, &wit, "", || compute_inner_product(x, y) == *want);
    }
}

fn domain_section<F>(ctx: &Ctx, rep: &mut Report, fname: &str, max_k: u32, max_j: u32, pools: &[usize])
where
    F: WithSmallOrderMulGroup<3> + PrimeField + Ord,
{
    let mut jk = vec![];
    for k in 1..=max_k {
        for j in 1..=max_j {
            jk.push((j, k));
        }
    }
    let built: Vec<_> = jk.par_iter().map(|&(j, k)| (j, k, build_dom_case::<F>(ctx, fname, j, k))).collect();
    let mut cases = vec![];
    for (j, k, b) in built {
        match b {
            Ok(c) => {
                rep.nontrivial(&("domain", fname, j, k));
                cases.push(c);
            }
            Err(e) if e.starts_with("harness") => rep.inconclusive(&format!("domain case ({j},{k}) on {fname}: {e}")),
            Err(e) => rep.violation(
                &format!("C12/EvaluationDomain::new/panic@{DOMAIN_FILE}"),
                &format!("EvaluationDomain::new({j}, {k}) on {fname} panics: {e}"),
                json!({"section": "domain", "field": fname, "j": j, "k": k}),
            ),
        }
    }
    let arith = build_arith::<F>(ctx, fname);
    rep.nontrivial(&("arith", fname));
    let results = run_workers(pools, 1, rep, |p, _r, part| {
        dom_worker::<F>(&cases, p, part);
        arith_worker::<F>(&arith, p, part);
    });
    for (_, _, part) in results {
        rep.merge(part);
    }
    rep.set(
        &format!("domain.{fname}"),
        json!({"k": format!("1..={max_k}"), "j": format!("1..={max_j}"), "domains": cases.len(),
               "arith_cases": arith.evals.len() + arith.kate.len() + arith.interp.len() + arith.inner.len()}),
    );
}

// ---------------------------------------------------------------------------------------------
// KZG parameters: commit vs commit_lagrange, g_to_lagrange, downsize (BLS12-381)
// ---------------------------------------------------------------------------------------------

const PARAMS_FILE: &str = "proofs/src/poly/kzg/params.rs";
type Kzg = KZGCommitmentScheme<Bls12>;

struct KzgCase {
    k: u32,
    rng: ChaCha8Rng,
    s: Fq,
    g: Vec<G1Projective>,
    /// for every k2 of interest: (k2, L_i(s)·G for the domain of size 2^k2, p truncated, its
    /// domain values, p(s)·G)
    per_k: Vec<(u32, Vec<G1Projective>, Vec<Fq>, Vec<Fq>, G1Projective)>,
}

fn build_kzg_case(ctx: &Ctx, k: u32) -> KzgCase {
    let rng = ctx.rng(&format!("kzg/{k}"));
    let s = Fq::random(rng.clone());
    let n = 1usize << k;
    let gen = G1Projective::generator();
    let mut spow = Vec::with_capacity(n);
    let mut w = Fq::ONE;
    for _ in 0..n {
        spow.push(w);
        w *= s;
    }
    let g: Vec<G1Projective> = spow.par_iter().map(|e| rp::scalar_mul(&gen, e)).collect();
    let mut prng = ctx.rng(&format!("kzg/poly/{k}"));
    let p: Vec<Fq> = (0..n).map(|_| Fq::random(&mut prng)).collect();
    let mut k2s = vec![k, k.saturating_sub(1), k.div_ceil(2), 1];
    k2s.retain(|x| *x >= 1);
    k2s.sort();
    k2s.dedup();
    k2s.reverse();
    let per_k = k2s
        .into_iter()
        .map(|k2| {
            let n2 = 1usize << k2;
            let omega = EvaluationDomain::<Fq>::new(1, k2).get_omega();
            let lag: Vec<G1Projective> = (0..n2)
                .into_par_iter()
                .map(|i| rp::scalar_mul(&gen, &rp::lagrange_basis_eval(omega, n2, i, s)))
                .collect();
            let p2 = p[..n2].to_vec();
            let mut pts = Vec::with_capacity(n2);
            let mut w = Fq::ONE;
            for _ in 0..n2 {
                pts.push(w);
                w *= omega;
            }
            let ev = par_evals(&p2, &pts);
            let c = rp::scalar_mul(&gen, &rp::poly_eval(&p2, s));
            (k2, lag, p2, ev, c)
        })
        .collect();
    KzgCase {
        k,
        rng,
        s,
        g,
        per_k,
    }
}

fn kzg_worker(cases: &[KzgCase], pool: usize, rep: &mut Report) {
    for c in cases {
        let k = c.k;
        let n = 1usize << k;
        let wit = json!({"section": "kzg", "k": k, "pool": pool, "s_le_hex": hex_f(&c.s),
                         "regenerate": "ParamsKZG::unsafe_setup(k, ctx.rng(\"kzg/<k>\")); polynomial from ctx.rng(\"kzg/poly/<k>\")"});
        let params = match catch_any(|| ParamsKZG::<Bls12>::unsafe_setup(k, c.rng.clone())) {
            Ok(p) => p,
            Err(p) => {
                rep.violation(
                    &format!("C12/ParamsKZG::unsafe_setup/panic@{PARAMS_FILE}"),
                    &format!("unsafe_setup({k}) panics: {} at {}", p.message, p.location),
                    wit.clone(),
                );
                continue;
            }
        };
        // the secret drawn by unsafe_setup must be the one the harness derived from the same rng
        if params.s_g2() != params.g2() * c.s {
            rep.inconclusive(&format!("kzg k={k}: could not recover the setup secret from the rng clone"));
            continue;
        }
        let params = &params;
        let (_, lag, p, ev, com) = &c.per_k[0];
        let dom = EvaluationDomain::<Fq>::new(1, k);
        let dom = &dom;
        dom_check(rep, "ParamsKZG::unsafe_setup", PARAMS_FILE, &wit, " g_lagrange", || {
            params.g_lagrange() == &lag[..] && params.max_k() == k
        });
        dom_check(rep, "ParamsKZG::unsafe_setup", PARAMS_FILE, &wit, " g", || {
            // monomial basis observed through commitments to X^i
            let step = (n / 64).max(1);
            (0..n).step_by(step).chain([n - 1]).all(|i| {
                let mut m = dom.empty_coeff();
                m[i] = Fq::ONE;
                Kzg::commit(params, &m) == c.g[i]
            })
        });
        dom_check(rep, "commit", "proofs/src/poly/kzg/mod.rs", &wit, "", || {
            Kzg::commit(params, &dom.coeff_from_vec(p.clone())) == *com
        });
        dom_check(rep, "commit_lagrange", "proofs/src/poly/kzg/mod.rs", &wit, "", || {
            Kzg::commit_lagrange(params, &dom.lagrange_from_vec(ev.clone())) == *com
        });
        dom_check(rep, "g_to_lagrange", ARITH_FILE, &wit, "", || g_to_lagrange(&c.g, k) == *lag);
        dom_check(rep, "ParamsKZG::from_parts", PARAMS_FILE, &wit, "", || {
            let p2 = ParamsKZG::<Bls12>::from_parts(k, c.g.clone(), None, params.g2(), params.s_g2());
            p2.g_lagrange() == &lag[..] && Kzg::commit(&p2, &dom.coeff_from_vec(p.clone())) == *com
        });
        for (k2, lag2, p2, ev2, com2) in c.per_k.iter() {
            let mut w = wit.clone();
            w["new_k"] = json!(k2);
            dom_check(rep, "ParamsKZG::downsize", PARAMS_FILE, &w, "", || {
                let mut q = params.clone();
                if *k2 % 2 == 0 {
                    q.downsize(*k2);
                } else {
                    Params::downsize(&mut q, *k2);
                }
                let d2 = EvaluationDomain::<Fq>::new(1, *k2);
                q.max_k() == *k2
                    && q.g_lagrange() == &lag2[..]
                    && Kzg::commit(&q, &d2.coeff_from_vec(p2.clone())) == *com2
                    && Kzg::commit_lagrange(&q, &d2.lagrange_from_vec(ev2.clone())) == *com2
            });
        }
        if pool == 1 {
            // caller error (documented by an assertion): counted only
            let r = catch_any(|| {
                let mut q = params.clone();
                q.downsize(k + 1)
            });
            rep.count(if r.is_err() { "kzg.downsize.larger_k.panic(counted only)" } else { "kzg.downsize.larger_k.returned" });
        }
    }
}

fn kzg_section(ctx: &Ctx, rep: &mut Report, max_k: u32, pools: &[usize]) {
    let cases: Vec<KzgCase> = (1..=max_k).map(|k| build_kzg_case(ctx, k)).collect();
    for c in &cases {
        rep.nontrivial(&("kzg", c.k));
    }
    let results = run_workers(pools, 1, rep, |p, _r, part| kzg_worker(&cases, p, part));
    for (_, _, part) in results {
        rep.merge(part);
    }
    rep.set("kzg_params", json!({"k": format!("1..={max_k}"), "engine": "bls12-381"}));
}

// ---------------------------------------------------------------------------------------------
// replay
// ---------------------------------------------------------------------------------------------

fn run_replay(ctx: &Ctx, rep: &mut Report, r: &Json) {
    let w = &r["witness"];
    let pool = w["pool"].as_u64().unwrap_or(1).max(1) as usize;
    match w["section"].as_str().unwrap_or("") {
        "msm" => {
            let desc = MsmDesc {
                curve: w["curve"].as_str().unwrap_or("bls12-381").to_string(),
                n: w["n"].as_u64().unwrap_or(0) as usize,
                sc: w["scalar_class"].as_str().unwrap_or("random").to_string(),
                bc: w["base_class"].as_str().unwrap_or("random").to_string(),
                round: w["round"].as_u64().unwrap_or(0) as usize,
            };
            let pool_size = w["pool_size"].as_u64().unwrap_or(64) as usize;
            let cap = w["naive_cap"].as_u64().unwrap_or(129) as usize;
            fn one<E>(ctx: &Ctx, rep: &mut Report, desc: &MsmDesc, pool_size: usize, cap: usize, pool: usize, me: Option<fn(&[E::G1], &[E::Fr]) -> E::G1>)
            where
                E: Engine + Debug,
                E::G1Affine: CurveAffine<ScalarExt = E::Fr, CurveExt = E::G1>,
            {
                let bp = build_pool::<E>(ctx, &desc.curve, pool_size);
                let case = build_case::<E>(ctx, &bp, desc, cap);
                let mut part = rep.fork();
                with_pool(pool, || msm_worker::<E>(std::slice::from_ref(&case), me, pool, 0, &mut part));
                rep.merge(part);
            }
            if desc.curve == "bn254" {
                one::<bn256::Bn256>(ctx, rep, &desc, pool_size, cap, pool, None);
            } else {
                one::<Bls12>(ctx, rep, &desc, pool_size, cap, pool, Some(bls_multi_exp));
            }
        }
        "fft" => fft_section(ctx, rep, 12, ctx.tier.pick(10, 12), ctx.tier.pick(10, 12), &[pool], 1),
        "domain" | "arith" => {
            if w["field"].as_str() == Some("bn254-Fr") {
                domain_section::<bn256::Fr>(ctx, rep, "bn254-Fr", ctx.tier.pick(6, 10), 8, &[pool]);
            } else {
                domain_section::<Fq>(ctx, rep, "bls12-381-Fr", 10, 8, &[pool]);
            }
        }
        "kzg" => kzg_section(ctx, rep, ctx.tier.pick(8, 10), &[pool]),
        other => rep.inconclusive(&format!("replay: unknown section {other:?}")),
    }
}

// ---------------------------------------------------------------------------------------------
// main
// ---------------------------------------------------------------------------------------------

fn lap(rep: &mut Report, t: &mut std::time::Instant, what: &str) {
    let s = t.elapsed().as_secs_f64();
    eprintln!("[c12] {what}: {s:.1}s");
    rep.set(&format!("wall_s.{what}"), json!((s * 10.0).round() / 10.0));
    *t = std::time::Instant::now();
}

fn main() {
    let mut ctx = Ctx::from_args("C12");
    let replay = ctx.replay.as_ref().and_then(|p| load_replay(p));
    if let Some(r) = &replay {
        if let Some(s) = r.get("seed").and_then(|s| s.as_u64()) {
            ctx.seed = s;
        }
        if r.get("tier").and_then(|t| t.as_str()) == Some("thorough") {
            ctx.tier = Tier::Thorough;
        } else {
            ctx.tier = Tier::Quick;
        }
    }
    let mut rep = Report::new(
        &ctx,
        "MSM: every entry point on generated (length, scalar class, base class) cases, compared with the \
         double-and-add sum (bases are known multiples of the generator, so the sum is also (Σ sᵢbᵢ)·G; for \
         n ≤ cap additionally the literal Σ sᵢ·Bᵢ); a case is non-trivial iff some term has a non-zero scalar \
         and a non-identity base. FFT: forward vs naive DFT, inverse∘forward = id; non-trivial iff n ≥ 2 and \
         the input is not all zero. Domain/KZG: every conversion compared with schoolbook evaluation / long \
         division / direct Lagrange basis; non-trivial iff the polynomial is non-zero. Every case is run under \
         each pool size × repetitions and the results compared with each other.",
    );
    rep.assume("single point addition, doubling, negation, equality, to_affine and to_bytes of the curve types are correct (checked by C11)");
    rep.assume("field +,-,*,invert and to_repr of the scalar fields are correct (checked by C10)");
    rep.set("pools", json!(POOLS));

    let san = ctx.extra.get("stage").map(|s| s == "san").unwrap_or(false);
    if let Some(r) = &replay {
        run_replay(&ctx, &mut rep, r);
        rep.nontrivial(&("replay", 0));
        rep.nontrivial(&("replay", 1));
        rep.min_nontrivial = 0;
        finish_replay(rep);
    }

    if san {
        let lengths = [0usize, 1, 2, 33, 300];
        let pools = [1usize, 3];
        msm_section::<Bls12>(&ctx, &mut rep, "bls12-381", Some(bls_multi_exp), &lengths, &pools, 1, 1);
        msm_section::<bn256::Bn256>(&ctx, &mut rep, "bn254", None, &lengths, &pools, 1, 1);
        fft_section(&ctx, &mut rep, 6, 6, 4, &pools, 1);
        domain_section::<Fq>(&ctx, &mut rep, "bls12-381-Fr", 4, 3, &pools);
        kzg_section(&ctx, &mut rep, 4, &pools);
        rep.set("stage", json!("san"));
        rep.finish();
    }

    let reps = 3;
    let rounds = ctx.tier.pick(1, 2);
    let lengths = msm_lengths(ctx.tier);
    rep.set("msm_lengths", json!(lengths));
    rep.set("repetitions", json!(reps));
    let mut t = std::time::Instant::now();
    msm_section::<Bls12>(&ctx, &mut rep, "bls12-381", Some(bls_multi_exp), &lengths, &POOLS, reps, rounds);
    lap(&mut rep, &mut t, "msm.bls12-381");
    msm_section::<bn256::Bn256>(&ctx, &mut rep, "bn254", None, &lengths, &POOLS, reps, rounds);
    lap(&mut rep, &mut t, "msm.bn254");
    fft_section(&ctx, &mut rep, 12, ctx.tier.pick(10, 12), ctx.tier.pick(10, 12), &POOLS, reps);
    lap(&mut rep, &mut t, "fft");
    domain_section::<Fq>(&ctx, &mut rep, "bls12-381-Fr", 10, 8, &POOLS);
    domain_section::<bn256::Fr>(&ctx, &mut rep, "bn254-Fr", ctx.tier.pick(6, 10), 8, &POOLS);
    lap(&mut rep, &mut t, "domain");
    kzg_section(&ctx, &mut rep, ctx.tier.pick(8, 10), &POOLS);
    lap(&mut rep, &mut t, "kzg");
    rep.set(
        "unreachable",
        json!([
            "curves::msm::{get_booth_index, batch_add, Schedule}: private, exercised only through msm_best",
            "proofs::poly::batch_invert_rational and Polynomial::<Rational>::invert: pub(crate)",
            "EvaluationDomain::{distribute_powers_zeta, ifft}: private, exercised through the conversions",
            "ParamsKZG::g (monomial basis): pub(crate); observed through commit(X^i)",
            "utils::arithmetic::{powers, inner_product, msm_inner_product, evals_inner_product}: pub(crate) (exercised by C14)"
        ]),
    );
    rep.min_nontrivial = ctx.tier.pick(5_000, 20_000);
    rep.finish();
}

fn finish_replay(rep: Report) -> ! {
    rep.finish()
}
