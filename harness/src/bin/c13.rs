//! C13 — The pairing is bilinear, non-degenerate and consistent across entry points.
//!
//! Oracle L (DESIGN.md §5 C13): no independent numeric value of the pairing is computed. Checked
//! are the laws e(aP, bQ) = e(P, Q)^(ab), e(P, Q) = 1 ⇔ P = O ∨ Q = O, final_exp(multi_miller_loop
//! (list)) = Π e(Pᵢ, Qᵢ) for lists of length 0..8 with identities in every position and repeated
//! pairs, equality of all entry points (Engine::pairing, PairingCurveAffine::pairing_with in both
//! directions, MultiMillerLoop with prepared G2 points, the free function of the BLS module, the
//! final check of DualMSM), and the group-notation operators of Gt against pairings of scaled /
//! added inputs, for the engines BLS12-381 and BN254 (dev-curves).
//!
//! The scalar products a·b mod r are computed over big integers; the points aP, bQ come from the
//! scalar multiplication that C11 compares with the affine reference.

#![allow(clippy::type_complexity)]

use std::collections::BTreeMap;
use std::fmt::Debug;

use ff::{Field, PrimeField};
use group::{prime::PrimeCurveAffine, Curve, Group, GroupEncoding};
use midnight_proofs::poly::kzg::msm::{DualMSM, MSMKZG};
use midnight_proofs::poly::kzg::params::ParamsKZG;
use midnight_proofs::poly::CommitmentLabel;
use midnight_proofs::utils::arithmetic::MSM;
use mzv::common::*;
use mzv::refs::curve::{big_hex, BLS12_381_R, BN254_R};
use num_bigint::BigUint;
use num_traits::{One, Zero};
use pairing::{Engine, MillerLoopResult, MultiMillerLoop, PairingCurveAffine};
use rand_chacha::ChaCha8Rng;
use rand_core::RngCore;
use rayon::prelude::*;
use serde_json::{json, Value as Json};

type Rng = ChaCha8Rng;

#[derive(Clone, Copy, PartialEq, Eq, Debug)]
enum Mode {
    Full,
    San,
}

struct Cx {
    rep: Report,
    engine: &'static str,
    shard: String,
    stats: BTreeMap<String, u64>,
}

impl Cx {
    fn stat(&mut self, k: String, n: u64) {
        *self.stats.entry(k).or_insert(0) += n;
    }
    /// One law instance. `f` returns Ok(()) if the law holds, Err(description) otherwise.
    fn law(&mut self, law: &'static str, cls: &str, key: u64, pairings: u64, f: &dyn Fn() -> Result<(), String>, wit: &dyn Fn() -> Json) {
        self.rep.eval();
        self.rep.count_n("pairings", pairings);
        self.stat(format!("law|{}|{}", self.engine, law), 1);
        self.stat(format!("class|{}|{}|{}", self.engine, law, cls), 1);
        self.rep.nontrivial(&(self.engine, law, cls, key));
        let got = catch_any(f);
        if matches!(got, Ok(Ok(()))) {
            return;
        }
        let again = catch_any(f);
        if again != got {
            self.rep.inconclusive(&format!("{}/{law}: not reproducible on re-execution", self.engine));
            return;
        }
        let (kind, what) = match got {
            Err(pi) => {
                self.rep.count("panics");
                ("panic", format!("panicked: {} at {}", pi.message, pi.location))
            }
            Ok(Err(e)) => ("mismatch", e),
            Ok(Ok(())) => unreachable!(),
        };
        let w = json!({"engine": self.engine, "shard": self.shard, "law": law, "classes": cls, "inputs": wit()});
        self.rep.violation(&format!("C13/{}/{}/{}", self.engine, law, kind), &format!("{} [{}] {}", law, cls, what), w);
    }
}

fn rand_big_below(rng: &mut Rng, m: &BigUint) -> BigUint {
    let mut b = vec![0u8; ((m.bits() + 7) / 8) as usize + 8];
    rng.fill_bytes(&mut b);
    BigUint::from_bytes_le(&b) % m
}

fn scalar_classes(rng: &mut Rng, r: &BigUint, tiny: bool) -> Vec<(&'static str, BigUint)> {
    if tiny {
        return vec![("0", BigUint::zero()), ("random", rand_big_below(rng, r))];
    }
    vec![
        ("0", BigUint::zero()),
        ("1", BigUint::one()),
        ("2", BigUint::from(2u32)),
        ("r-1", r - 1u32),
        ("random", rand_big_below(rng, r)),
        ("random", rand_big_below(rng, r)),
    ]
}

fn short<T: Debug>(t: &T) -> String {
    let s = format!("{t:?}");
    if s.len() > 400 {
        format!("{}…", &s[..400])
    } else {
        s
    }
}

struct ShardOut {
    rep: Report,
    stats: BTreeMap<String, u64>,
}

macro_rules! engine_mod {
    ($m:ident, $E:ty, $name:expr, $rhex:expr, bls = $bls:expr) => {
        pub mod $m {
            use super::*;
            pub type E = $E;
            pub type Fr = <E as Engine>::Fr;
            pub type G1 = <E as Engine>::G1;
            pub type G2 = <E as Engine>::G2;
            pub type G1A = <E as Engine>::G1Affine;
            pub type G2A = <E as Engine>::G2Affine;
            pub type Gt = <E as Engine>::Gt;
            pub type Prep = <E as MultiMillerLoop>::G2Prepared;
            pub const NAME: &str = $name;

            pub fn order() -> BigUint {
                big_hex($rhex)
            }
            pub fn fr(k: &BigUint) -> Fr {
                Fr::from_str_vartime(&k.to_str_radix(10)).expect("scalar below r")
            }
            fn h1(p: &G1A) -> String {
                hx(p.to_bytes().as_ref())
            }
            fn h2(p: &G2A) -> String {
                hx(p.to_bytes().as_ref())
            }
            fn mml(list: &[(G1A, G2A)]) -> Gt {
                let prep: Vec<Prep> = list.iter().map(|(_, q)| Prep::from(*q)).collect();
                let terms: Vec<(&G1A, &Prep)> = list.iter().zip(prep.iter()).map(|((p, _), q)| (p, q)).collect();
                E::multi_miller_loop(&terms).final_exponentiation()
            }
            fn eq_gt(what: &str, a: &Gt, b: &Gt) -> Result<(), String> {
                if a == b {
                    Ok(())
                } else {
                    Err(format!("{what}: {} != {}", short(a), short(b)))
                }
            }
            fn wit_list(list: &[(G1A, G2A)]) -> Json {
                json!(list.iter().map(|(p, q)| json!({"g1": h1(p), "g2": h2(q)})).collect::<Vec<_>>())
            }

            pub fn run_ops(ctx: &Ctx, base: &Report, label: &str, mode: Mode) -> ShardOut {
                let mut cx = Cx { rep: base.fork(), engine: NAME, shard: label.to_string(), stats: BTreeMap::new() };
                let mut rng = ctx.rng(label);
                let r = order();
                let tiny = mode == Mode::San;
                // the modulus string the library publishes must be the published group order
                {
                    let m = <Fr as PrimeField>::MODULUS.trim_start_matches("0x");
                    cx.rep.eval();
                    if big_hex(m) != r {
                        cx.rep.violation(&format!("C13/{NAME}/scalar-modulus/mismatch"), "Fr::MODULUS is not the published group order", json!({"engine": NAME, "shard": label, "inputs": {"modulus": m}}));
                    }
                }
                let p1: Vec<(&'static str, G1)> = if tiny {
                    vec![("identity", G1::identity()), ("random", G1::random(&mut rng))]
                } else {
                    vec![("identity", G1::identity()), ("generator", G1::generator()), ("random", G1::random(&mut rng)), ("random", G1::random(&mut rng))]
                };
                let p2: Vec<(&'static str, G2)> = if tiny {
                    vec![("generator", G2::generator()), ("random", G2::random(&mut rng))]
                } else {
                    vec![("identity", G2::identity()), ("generator", G2::generator()), ("random", G2::random(&mut rng)), ("random", G2::random(&mut rng))]
                };
                let scalars = scalar_classes(&mut rng, &r, tiny);
                cx.rep.sample(json!({"engine": NAME, "shard": label, "g1": p1.iter().map(|(c, p)| json!({"class": c, "point": h1(&p.to_affine())})).collect::<Vec<_>>(),
                    "g2": p2.iter().map(|(c, p)| json!({"class": c, "point": h2(&p.to_affine())})).collect::<Vec<_>>(),
                    "scalars": scalars.iter().map(|(c, k)| json!({"class": c, "value": format!("{k:x}")})).collect::<Vec<_>>()}));

                // ---- bilinearity, entry points, non-degeneracy
                for (c1, p) in &p1 {
                    for (c2, q) in &p2 {
                        let (pa, qa) = (p.to_affine(), q.to_affine());
                        let both_random = *c1 == "random" && *c2 == "random";
                        let mut ab: Vec<(usize, usize)> = vec![];
                        if tiny {
                            ab.push((1, 1));
                            ab.push((0, 1));
                        } else if both_random {
                            for i in 0..scalars.len() {
                                for j in 0..scalars.len() {
                                    ab.push((i, j));
                                }
                            }
                        } else {
                            for _ in 0..ctx.tier.pick(8, 12) {
                                ab.push(((rng.next_u32() as usize) % scalars.len(), (rng.next_u32() as usize) % scalars.len()));
                            }
                        }
                        let p_id = bool::from(pa.is_identity());
                        let q_id = bool::from(qa.is_identity());
                        let cls0 = format!("{c1}x{c2}");
                        let key0 = hash_of(&(h1(&pa), h2(&qa)));
                        cx.law("non-degeneracy", &cls0, key0, 1, &|| {
                            let e = E::pairing(&pa, &qa);
                            if bool::from(e.is_identity()) == (p_id || q_id) { Ok(()) } else { Err(format!("e(P,Q) is_identity = {} with P identity = {p_id}, Q identity = {q_id}", bool::from(e.is_identity()))) }
                        }, &|| json!({"g1": h1(&pa), "g2": h2(&qa)}));
                        for (i, j) in ab {
                            let (ca, a) = &scalars[i];
                            let (cb, b) = &scalars[j];
                            let (fa, fb) = (fr(a), fr(b));
                            let fab = fr(&((a * b) % &r));
                            let cls = format!("{c1}x{c2}/{ca}*{cb}");
                            let key = hash_of(&(h1(&pa), h2(&qa), a, b));
                            let wit = || json!({"g1": h1(&pa), "g2": h2(&qa), "a": format!("{a:x}"), "b": format!("{b:x}")});
                            let ap = (*p * fa).to_affine();
                            let bq = (*q * fb).to_affine();
                            cx.law("bilinearity", &cls, key, 2, &|| {
                                let lhs = E::pairing(&ap, &bq);
                                let rhs = E::pairing(&pa, &qa) * fab;
                                eq_gt("e(aP,bQ) vs e(P,Q)*(ab)", &lhs, &rhs)
                            }, &wit);
                            cx.law("bilinearity", &format!("{cls}/swap"), key, 2, &|| {
                                let lhs = E::pairing(&ap, &qa);
                                let rhs = E::pairing(&pa, &(*q * fa).to_affine());
                                eq_gt("e(aP,Q) vs e(P,aQ)", &lhs, &rhs)
                            }, &wit);
                            cx.law("entry-points", &cls, key, 4, &|| {
                                let e0 = E::pairing(&ap, &bq);
                                eq_gt("Engine::pairing vs G1Affine::pairing_with", &e0, &ap.pairing_with(&bq))?;
                                eq_gt("Engine::pairing vs G2Affine::pairing_with", &e0, &bq.pairing_with(&ap))?;
                                eq_gt("Engine::pairing vs multi_miller_loop+final_exponentiation", &e0, &mml(&[(ap, bq)]))?;
                                extra_entry_points(&ap, &bq, &e0)
                            }, &wit);
                            let expect_id = p_id || q_id || a.is_zero() || b.is_zero();
                            cx.law("non-degeneracy", &cls, key, 1, &|| {
                                let e = E::pairing(&ap, &bq);
                                if bool::from(e.is_identity()) == expect_id { Ok(()) } else { Err(format!("e(aP,bQ) is_identity = {}, expected {expect_id}", bool::from(e.is_identity()))) }
                            }, &wit);
                        }
                    }
                }

                // ---- products: multi_miller_loop of lists of length 0..8
                let max_len = if tiny { 2 } else { 8 };
                let nbase = 4;
                let bp: Vec<G1A> = (0..nbase).map(|_| G1::random(&mut rng).to_affine()).collect();
                let bq: Vec<G2A> = (0..nbase).map(|_| G2::random(&mut rng).to_affine()).collect();
                // cache of single pairings of the base pairs
                let single = |p: &G1A, q: &G2A| E::pairing(p, q);
                for len in 0..=max_len {
                    let base_list: Vec<(G1A, G2A)> = (0..len).map(|i| (bp[i % nbase], bq[(i * 3 + 1) % nbase])).collect();
                    let mut lists: Vec<(String, Vec<(G1A, G2A)>)> = vec![("random".to_string(), base_list.clone())];
                    for i in 0..len {
                        let mut l = base_list.clone();
                        l[i].0 = G1A::identity();
                        lists.push((format!("identity-g1@{i}"), l));
                        let mut l = base_list.clone();
                        l[i].1 = G2A::identity();
                        lists.push((format!("identity-g2@{i}"), l));
                        if !tiny {
                            let mut l = base_list.clone();
                            l[i] = (G1A::identity(), G2A::identity());
                            lists.push((format!("identity-both@{i}"), l));
                        }
                    }
                    if len > 0 {
                        lists.push(("repeated".to_string(), vec![(bp[0], bq[0]); len]));
                        lists.push(("all-identity-g1".to_string(), base_list.iter().map(|(_, q)| (G1A::identity(), *q)).collect()));
                        lists.push(("all-identity-g2".to_string(), base_list.iter().map(|(p, _)| (*p, G2A::identity())).collect()));
                    }
                    if len >= 2 {
                        let mut l = base_list.clone();
                        l[1] = l[0];
                        lists.push(("repeated-adjacent".to_string(), l));
                        let mut l = base_list.clone();
                        l[len - 1] = (-l[0].0, l[0].1);
                        lists.push(("cancelling".to_string(), l));
                    }
                    for (pat, l) in lists {
                        let cls = format!("len{len}/{pat}");
                        let key = hash_of(&(len, &pat, l.iter().map(|(p, q)| (h1(p), h2(q))).collect::<Vec<_>>()));
                        cx.law("multi_miller_loop-product", &cls, key, 2 * l.len() as u64, &|| {
                            let lhs = mml(&l);
                            let mut rhs = Gt::identity();
                            for (p, q) in &l {
                                rhs += single(p, q);
                            }
                            eq_gt("final_exp(multi_miller_loop) vs sum of pairings", &lhs, &rhs)?;
                            if l.len() >= 2 {
                                let mut rev = l.clone();
                                rev.reverse();
                                eq_gt("list vs reversed list", &lhs, &mml(&rev))?;
                            }
                            extra_product(&l, &lhs)
                        }, &|| wit_list(&l));
                    }
                }

                // ---- Gt in group notation against pairings of added / scaled inputs
                {
                    let n = if tiny { 1 } else { ctx.tier.pick(3, 6) };
                    for it in 0..n {
                        let (p, p2) = (G1::random(&mut rng), G1::random(&mut rng));
                        let q = G2::random(&mut rng);
                        let (pa, p2a, qa) = (p.to_affine(), p2.to_affine(), q.to_affine());
                        let k = rand_big_below(&mut rng, &r);
                        let fk = fr(&k);
                        let key = hash_of(&(h1(&pa), h1(&p2a), h2(&qa), &k));
                        let wit = || json!({"p": h1(&pa), "p2": h1(&p2a), "q": h2(&qa), "k": format!("{k:x}")});
                        let rbits: Vec<bool> = (0..r.bits()).rev().map(|i| r.bit(i)).collect();
                        let rm1 = fr(&(&r - 1u32));
                        cx.law("gt-operators", "random", key, 8, &|| {
                            let g = E::pairing(&pa, &qa);
                            let h = E::pairing(&p2a, &qa);
                            eq_gt("g + h vs e(P+P',Q)", &(g + h), &E::pairing(&(p + p2).to_affine(), &qa))?;
                            eq_gt("g + &h", &(g + &h), &(g + h))?;
                            eq_gt("g - h vs e(P-P',Q)", &(g - h), &E::pairing(&(p - p2).to_affine(), &qa))?;
                            eq_gt("-g vs e(-P,Q)", &(-g), &E::pairing(&(-p).to_affine(), &qa))?;
                            eq_gt("-g vs e(P,-Q)", &(-g), &E::pairing(&pa, &(-q).to_affine()))?;
                            eq_gt("double vs e(2P,Q)", &g.double(), &E::pairing(&p.double().to_affine(), &qa))?;
                            eq_gt("double vs g+g", &g.double(), &(g + g))?;
                            eq_gt("g*k vs e(kP,Q)", &(g * fk), &E::pairing(&(p * fk).to_affine(), &qa))?;
                            eq_gt("g*&k", &(g * &fk), &(g * fk))?;
                            let mut t = g;
                            t += h;
                            eq_gt("add_assign", &t, &(g + h))?;
                            t -= h;
                            eq_gt("sub_assign", &t, &g)?;
                            let mut t = g;
                            t += &h;
                            t -= &h;
                            eq_gt("add_assign(&)/sub_assign(&)", &t, &g)?;
                            let mut t = g;
                            t *= fk;
                            eq_gt("mul_assign", &t, &(g * fk))?;
                            let mut t = g;
                            t *= &fk;
                            eq_gt("mul_assign(&)", &t, &(g * fk))?;
                            eq_gt("sum", &[g, h].iter().sum::<Gt>(), &(g + h))?;
                            eq_gt("sum(owned)", &[g, h].into_iter().sum::<Gt>(), &(g + h))?;
                            eq_gt("identity + g", &(Gt::identity() + g), &g)?;
                            eq_gt("g - g", &(g - g), &Gt::identity())?;
                            eq_gt("g*0", &(g * Fr::ZERO), &Gt::identity())?;
                            eq_gt("g*1", &(g * Fr::ONE), &g)?;
                            if bool::from(g.is_identity()) || !bool::from((g - g).is_identity()) {
                                return Err("is_identity wrong on g or g-g".into());
                            }
                            // order: r·g = identity, by (r−1)·g + g and by double-and-add over the bits of r
                            eq_gt("(r-1)g + g", &(g * rm1 + g), &Gt::identity())?;
                            let mut acc = Gt::identity();
                            for bit in &rbits {
                                acc = acc.double();
                                if *bit {
                                    acc += g;
                                }
                            }
                            eq_gt("double-and-add(r, g)", &acc, &Gt::identity())?;
                            extra_gt(&g)
                        }, &wit);
                        let _ = it;
                    }
                }
                ShardOut { rep: cx.rep, stats: cx.stats }
            }

            // ---- DualMSM::check: e(left, [s]G2) · e(right, −G2) = 1  ⇔  s·left = right
            pub fn run_dual(ctx: &Ctx, base: &Report, label: &str, mode: Mode) -> ShardOut {
                let mut cx = Cx { rep: base.fork(), engine: NAME, shard: label.to_string(), stats: BTreeMap::new() };
                let mut rng = ctx.rng(label);
                let r = order();
                let s_big = rand_big_below(&mut rng, &r);
                let s = fr(&s_big);
                let g1 = G1::generator();
                let g2 = G2::generator();
                // parameters with a known secret, through the public constructor
                let k = 1u32;
                let g = vec![g1, g1 * s];
                let params = ParamsKZG::<E>::from_parts(k, g.clone(), Some(g.clone()), g2, g2 * s);
                let vparams = params.verifier_params();
                let n_cases = match mode { Mode::San => 3, Mode::Full => ctx.tier.pick(24, 60) };
                for case in 0..n_cases {
                    // left channel: random terms, with identity bases and zero scalars mixed in
                    let shape = case % 8;
                    let nl = match shape { 0 => 0, 1 => 1, _ => 1 + (rng.next_u32() % 5) as usize };
                    let mut lterms: Vec<(Fr, G1)> = vec![];
                    for i in 0..nl {
                        let mut a = fr(&rand_big_below(&mut rng, &r));
                        let mut b = G1::random(&mut rng);
                        match (shape, i) {
                            (1, _) => a = Fr::ONE,            // the `scalars == [1]` shortcut
                            (2, 0) => b = G1::identity(),     // identity base
                            (3, 0) => a = Fr::ZERO,           // zero scalar
                            (4, _) => b = G1::identity(),     // only identity bases
                            (5, _) => a = Fr::ZERO,           // only zero scalars
                            _ => {}
                        }
                        lterms.push((a, b));
                    }
                    let l_val: G1 = lterms.iter().fold(G1::identity(), |acc, (a, b)| acc + *b * *a);
                    let target = l_val * s;
                    // right channel: random terms plus one term closing the sum to s·left
                    let nr = if shape == 0 { 0 } else { (rng.next_u32() % 3) as usize };
                    let mut rterms: Vec<(Fr, G1)> = vec![];
                    let mut acc = G1::identity();
                    for _ in 0..nr {
                        let a = fr(&rand_big_below(&mut rng, &r));
                        let b = G1::random(&mut rng);
                        acc += b * a;
                        rterms.push((a, b));
                    }
                    if shape != 0 {
                        let c = if shape == 6 { Fr::ONE } else { fr(&rand_big_below(&mut rng, &r)) };
                        let closing = (target - acc) * c.invert().unwrap();
                        rterms.push((c, closing));
                    }
                    let build = |lt: &[(Fr, G1)], rt: &[(Fr, G1)]| -> DualMSM<E> {
                        let mut l = MSMKZG::<E>::init();
                        for (a, b) in lt {
                            l.append_term(*a, *b, CommitmentLabel::NoLabel);
                        }
                        let mut rr = MSMKZG::<E>::init();
                        for (a, b) in rt {
                            rr.append_term(*a, *b, CommitmentLabel::NoLabel);
                        }
                        DualMSM::new(l, rr)
                    };
                    let wit = || json!({"s": format!("{s_big:x}"), "shape": shape,
                        "left": lterms.iter().map(|(a, b)| json!({"scalar": hx(a.to_repr().as_ref()), "base": h1(&b.to_affine())})).collect::<Vec<_>>(),
                        "right": rterms.iter().map(|(a, b)| json!({"scalar": hx(a.to_repr().as_ref()), "base": h1(&b.to_affine())})).collect::<Vec<_>>()});
                    let key = hash_of(&(case, label, hx(s.to_repr().as_ref())));
                    let cls = format!("shape{shape}/valid");
                    cx.law("DualMSM.check", &cls, key, 2, &|| {
                        if build(&lterms, &rterms).check(&vparams) { Ok(()) } else { Err("check() = false on a pair with s·left = right".into()) }
                    }, &wit);
                    // the same relation through the explicit pairing entry point
                    cx.law("DualMSM.check", &format!("shape{shape}/explicit-pairings"), key, 2, &|| {
                        let r_val: G1 = rterms.iter().fold(G1::identity(), |acc, (a, b)| acc + *b * *a);
                        let e = E::pairing(&l_val.to_affine(), &(g2 * s).to_affine()) + E::pairing(&r_val.to_affine(), &(-g2).to_affine());
                        if bool::from(e.is_identity()) { Ok(()) } else { Err("e(left,[s]G2)·e(right,−G2) ≠ 1 on a pair with s·left = right".into()) }
                    }, &wit);
                    // scaled and added valid accumulators stay valid
                    let e_big = rand_big_below(&mut rng, &r);
                    let e_s = fr(&e_big);
                    cx.law("DualMSM.check", &format!("shape{shape}/scaled+added"), key, 2, &|| {
                        let mut m = build(&lterms, &rterms);
                        m.scale(e_s);
                        m.add_msm(build(&lterms, &rterms));
                        if m.check(&vparams) { Ok(()) } else { Err("check() = false after scale/add_msm of valid accumulators".into()) }
                    }, &wit);
                    // wrong claim: right channel shifted by the generator
                    cx.law("DualMSM.check", &format!("shape{shape}/invalid"), key, 2, &|| {
                        let mut rt = rterms.clone();
                        rt.push((Fr::ONE, g1));
                        if build(&lterms, &rt).check(&vparams) { Err("check() = true although s·left ≠ right".into()) } else { Ok(()) }
                    }, &wit);
                    cx.law("DualMSM.check", &format!("shape{shape}/valid+invalid"), key, 2, &|| {
                        let mut rt = rterms.clone();
                        rt.push((Fr::ONE, g1));
                        let mut m = build(&lterms, &rterms);
                        m.scale(e_s);
                        m.add_msm(build(&lterms, &rt));
                        if m.check(&vparams) { Err("check() = true on valid·e + invalid".into()) } else { Ok(()) }
                    }, &wit);
                }
                cx.rep.sample(json!({"engine": NAME, "shard": label, "dual_msm_cases": n_cases}));
                ShardOut { rep: cx.rep, stats: cx.stats }
            }
        }
    };
}

// ---- engine specific entry points ----------------------------------------------------------------

mod bls_x {
    use super::*;
    use midnight_curves::{Bls12, G1Affine, G2Affine, G2Prepared, Gt};
    pub fn extra_entry_points(p: &G1Affine, q: &G2Affine, e0: &Gt) -> Result<(), String> {
        let e = midnight_curves::bls12_381::pairing(p, q);
        if e != *e0 {
            return Err("bls12_381::pairing (free function) differs from Engine::pairing".into());
        }
        // G2Prepared::is_identity must agree with the point
        let prep = G2Prepared::from(*q);
        if bool::from(prep.is_identity()) != bool::from(q.is_identity()) {
            return Err("G2Prepared::is_identity differs from G2Affine::is_identity".into());
        }
        Ok(())
    }
    /// BLS `MillerLoopResult` documents `+` as the product of Miller loop values
    pub fn extra_product(l: &[(G1Affine, G2Affine)], lhs: &Gt) -> Result<(), String> {
        let mut acc = midnight_curves::MillerLoopResult::default();
        let mut acc2 = midnight_curves::MillerLoopResult::default();
        for (i, (p, q)) in l.iter().enumerate() {
            let prep = G2Prepared::from(*q);
            let one = Bls12::multi_miller_loop(&[(p, &prep)]);
            if i % 2 == 0 {
                acc = acc + one;
                acc2 += one;
            } else {
                acc = acc + &one;
                acc2 += &one;
            }
        }
        if acc.final_exponentiation() != *lhs || acc2.final_exponentiation() != *lhs {
            return Err("sum of single MillerLoopResults (Add/AddAssign, Default as neutral) differs from multi_miller_loop".into());
        }
        Ok(())
    }
    pub fn extra_gt(g: &Gt) -> Result<(), String> {
        // serde round trip (the only encoding Gt exposes)
        let s = serde_json::to_string(g).map_err(|e| format!("serialize: {e}"))?;
        let back: Gt = serde_json::from_str(&s).map_err(|e| format!("deserialize: {e}"))?;
        if back != *g {
            return Err("Gt serde round trip changed the value".into());
        }
        let gen = <Gt as Group>::generator();
        let e = Bls12::pairing(&G1Affine::generator(), &G2Affine::generator());
        if gen != e {
            return Err("Gt::generator() != e(G1::generator, G2::generator)".into());
        }
        Ok(())
    }
}

mod bn_x {
    use midnight_curves::bn256::{G1Affine, G2Affine, Gt};
    pub fn extra_entry_points(_p: &G1Affine, _q: &G2Affine, _e0: &Gt) -> Result<(), String> {
        Ok(())
    }
    pub fn extra_product(l: &[(G1Affine, G2Affine)], lhs: &Gt) -> Result<(), String> {
        // the unprepared free function multi_miller_loop(&[(&G1Affine, &G2Affine)])
        use pairing::MillerLoopResult;
        let terms: Vec<(&G1Affine, &G2Affine)> = l.iter().map(|(p, q)| (p, q)).collect();
        let e = midnight_curves::bn256::multi_miller_loop(&terms).final_exponentiation();
        if e != *lhs {
            return Err("bn256::multi_miller_loop (free function) differs from MultiMillerLoop::multi_miller_loop".into());
        }
        Ok(())
    }
    pub fn extra_gt(_g: &Gt) -> Result<(), String> {
        Ok(())
    }
}

mod bls {
    pub use super::bls_x::*;
    use super::*;
    engine_mod!(inner, midnight_curves::Bls12, "bls12_381", BLS12_381_R, bls = true);
}
mod bn {
    pub use super::bn_x::*;
    use super::*;
    engine_mod!(inner, midnight_curves::bn256::Bn256, "bn256", BN254_R, bls = false);
}

#[derive(Clone, Debug)]
struct Shard {
    engine: &'static str,
    dual: bool,
    idx: usize,
}
impl Shard {
    fn label(&self) -> String {
        format!("{}/{}/{}", self.engine, if self.dual { "dual" } else { "ops" }, self.idx)
    }
}

fn run_shard(ctx: &Ctx, base: &Report, s: &Shard, mode: Mode) -> ShardOut {
    match catch_any(|| run_shard_inner(ctx, base, s, mode)) {
        Ok(o) => o,
        Err(pi) => {
            let mut rep = base.fork();
            rep.count("shards.aborted");
            rep.inconclusive(&format!("shard {} aborted by an unguarded panic: {} at {}", s.label(), pi.message, pi.location));
            ShardOut { rep, stats: BTreeMap::new() }
        }
    }
}

fn run_shard_inner(ctx: &Ctx, base: &Report, s: &Shard, mode: Mode) -> ShardOut {
    let label = s.label();
    match (s.engine, s.dual) {
        ("bls12_381", false) => bls::inner::run_ops(ctx, base, &label, mode),
        ("bls12_381", true) => bls::inner::run_dual(ctx, base, &label, mode),
        ("bn256", false) => bn::inner::run_ops(ctx, base, &label, mode),
        ("bn256", true) => bn::inner::run_dual(ctx, base, &label, mode),
        _ => unreachable!(),
    }
}

fn main() {
    let mut ctx = Ctx::from_args("C13");
    let mut rep = Report::new(
        &ctx,
        "a case is one instance of a law (bilinearity, non-degeneracy, entry-point equality, multi-Miller-loop product, \
         Gt operators, DualMSM final check) on concrete points/scalars/lists drawn per shard from the seed; it is \
         non-trivial iff both sides of the law were computed by the library and compared",
    );
    rep.assume("no independent numeric value of the pairing is computed: laws and cross-entry-point consistency only (DESIGN §5 C13)");
    rep.assume("scalar products a·b mod r are computed over big integers; scaled points use the scalar multiplication checked by C11");
    rep.assume("Gt membership in the order-r subgroup is observed through r·g = identity (double-and-add over the bits of r)");

    let stage = ctx.extra.get("stage").cloned().unwrap_or_default();
    let mode = if stage == "san" { Mode::San } else { Mode::Full };
    let mut only: Option<String> = None;
    let mut only_sig: Option<String> = None;
    if let Some(path) = ctx.replay.clone() {
        match load_replay(&path) {
            Some(j) => {
                only_sig = j.get("signature").and_then(|s| s.as_str()).map(|s| s.to_string());
                if let Some(s) = j.get("seed").and_then(|s| s.as_u64()) {
                    ctx.seed = s;
                }
                ctx.tier = if j.get("tier").and_then(|s| s.as_str()) == Some("thorough") { Tier::Thorough } else { Tier::Quick };
                only = j.pointer("/witness/shard").and_then(|s| s.as_str()).map(|s| s.to_string());
                if only.is_none() {
                    rep.inconclusive("replay file has no witness.shard");
                }
            }
            None => rep.inconclusive("cannot read replay file"),
        }
        rep.ctx = ctx.clone();
    }
    let (n_ops, n_dual) = match mode {
        Mode::San => (1usize, 1usize),
        Mode::Full => (ctx.tier.pick(2, 24), ctx.tier.pick(1, 8)),
    };
    let mut shards = vec![];
    for engine in ["bls12_381", "bn256"] {
        for idx in 0..n_ops {
            shards.push(Shard { engine, dual: false, idx });
        }
        for idx in 0..n_dual {
            shards.push(Shard { engine, dual: true, idx });
        }
    }
    if let Some(o) = &only {
        shards.retain(|s| s.label() == *o);
    }
    rep.set("shards", json!(shards.len()));
    let outs: Vec<ShardOut> = if mode == Mode::San {
        shards.iter().map(|s| run_shard(&ctx, &rep, s, mode)).collect()
    } else {
        shards.par_iter().with_max_len(1).map(|s| run_shard(&ctx, &rep, s, mode)).collect()
    };
    let mut stats: BTreeMap<String, u64> = BTreeMap::new();
    for o in outs {
        for (k, v) in o.stats {
            *stats.entry(k).or_insert(0) += v;
        }
        rep.merge(o.rep);
    }
    if let Some(sig) = &only_sig {
        // replay: report the recorded defect only (the shard is re-executed as a whole)
        rep.violations.retain(|v| v.signature == *sig);
    }
    let mut laws = serde_json::Map::new();
    let mut classes = serde_json::Map::new();
    for (k, v) in &stats {
        let (kind, rest) = k.split_once('|').unwrap();
        if kind == "law" {
            laws.insert(rest.to_string(), json!(v));
        } else {
            classes.insert(rest.to_string(), json!(v));
        }
    }
    rep.set("law_counts", Json::Object(laws));
    rep.set("class_counts", Json::Object(classes));
    if only.is_none() && mode == Mode::Full {
        for engine in ["bls12_381", "bn256"] {
            for law in ["bilinearity", "non-degeneracy", "entry-points", "multi_miller_loop-product", "gt-operators", "DualMSM.check"] {
                if !stats.contains_key(&format!("law|{engine}|{law}")) {
                    rep.inconclusive(&format!("planned law {law} of {engine} has no case"));
                }
            }
        }
        rep.min_nontrivial = ctx.tier.pick(1_000, 30_000);
    }
    rep.finish();
}
