//! C14 — KZG multi-opening: correct openings verify, any wrong claim is rejected.
//!
//! Oracle: D (multi_open vs multi_prepare(..)?.verify(params) + assert_empty) with the claimed
//! evaluations computed by the harness' own Horner (refs::poly). Honest ⇒ Ok and the transcript
//! is fully consumed; a fault (one at a time) ⇒ Err somewhere (prover, prepare, verify,
//! assert_empty); a panic is a violation of kind `panic`. A repeated (commitment, point) pair
//! must be refused with an error on both sides. See DESIGN.md §5 C14.
#![allow(clippy::type_complexity, clippy::too_many_arguments)]

use ff::Field;
use group::Group;
use midnight_curves::{Bls12, Fq, G1Projective};
use midnight_proofs::{
    poly::{
        commitment::{Guard, PolynomialCommitmentScheme},
        kzg::{
            params::{ParamsKZG, ParamsVerifierKZG},
            KZGCommitmentScheme,
        },
        Coeff, CommitmentLabel, Error, EvaluationDomain, Polynomial, ProverQuery, VerifierQuery,
    },
    transcript::{CircuitTranscript, Transcript},
};
use mzv::{common::*, refs::poly as rp};
use rand::{seq::SliceRandom, Rng};
use rayon::prelude::*;
use serde_json::{json, Value as Json};

type F = Fq;
type G = G1Projective;
type CS = KZGCommitmentScheme<Bls12>;
type T = CircuitTranscript<blake2b_simd::State>;

const KZG_FILE: &str = "proofs/src/poly/kzg/mod.rs";
const KINDS: [&str; 5] = ["zero", "constant", "full-degree", "random-degree", "copy-of-previous"];

fn hex_f(f: &F) -> String {
    hx(&rp::le_bytes(f))
}

// ---------------------------------------------------------------------------------------------
// case description
// ---------------------------------------------------------------------------------------------

#[derive(Clone, Debug)]
struct Chop {
    /// indices (into `polys`) of the pieces, little-endian
    pieces: Vec<usize>,
    point: usize,
    /// the `n` handed to VerifierQuery::from_parts (piece i is weighted by x^{(n-1)·i})
    n_param: u64,
}

#[derive(Clone, Debug)]
struct Shape {
    label: String,
    family: &'static str,
    k: u32,
    kinds: Vec<&'static str>,
    n_points: usize,
    /// per polynomial: non-empty sorted list of point indices
    assign: Vec<Vec<usize>>,
    chops: Vec<Chop>,
}

/// Everything both sides need, built deterministically from (seed, shape).
struct World {
    k: u32,
    polys: Vec<Polynomial<F, Coeff>>,
    coeffs: Vec<Vec<F>>,
    coms: Vec<G>,
    points: Vec<F>,
    /// prover queries (polynomial index, point), already shuffled
    pq: Vec<(usize, F)>,
    /// verifier queries, shuffled independently
    vq: Vec<VQ>,
    /// spare commitment (to a known polynomial) used by replacement faults
    spare: usize,
}

#[derive(Clone, Debug)]
enum VQ {
    One { com: usize, point: F, eval: F },
    Chop { pieces: Vec<usize>, point: F, eval: F, n_param: u64 },
}

impl VQ {
    fn point(&self) -> F {
        match self {
            VQ::One { point, .. } | VQ::Chop { point, .. } => *point,
        }
    }
    fn set_point(&mut self, p: F) {
        match self {
            VQ::One { point, .. } | VQ::Chop { point, .. } => *point = p,
        }
    }
    fn bump_eval(&mut self) {
        match self {
            VQ::One { eval, .. } | VQ::Chop { eval, .. } => *eval += F::ONE,
        }
    }
    /// Is the claim true for the polynomials behind the (possibly replaced) commitments?
    fn claim_true(&self, coeffs_of_com: &dyn Fn(usize) -> Vec<F>) -> bool {
        match self {
            VQ::One { com, point, eval } => rp::poly_eval(&coeffs_of_com(*com), *point) == *eval,
            VQ::Chop {
                pieces,
                point,
                eval,
                n_param,
            } => {
                let factor = rp::pow_u64(*point, n_param - 1);
                let mut acc = F::ZERO;
                let mut w = F::ONE;
                for p in pieces {
                    acc += w * rp::poly_eval(&coeffs_of_com(*p), *point);
                    w *= factor;
                }
                acc == *eval
            }
        }
    }
    fn describe(&self) -> Json {
        match self {
            VQ::One { com, point, eval } => json!({"commitment": com, "point": hex_f(point), "eval": hex_f(eval)}),
            VQ::Chop {
                pieces,
                point,
                eval,
                n_param,
            } => json!({"pieces": pieces, "n": n_param, "point": hex_f(point), "eval": hex_f(eval)}),
        }
    }
}

struct Env {
    params: Vec<Option<(ParamsKZG<Bls12>, ParamsVerifierKZG<Bls12>)>>,
    g_size: usize,
    f_size: usize,
}

fn build_world(ctx: &Ctx, env: &Env, shape: &Shape) -> World {
    let mut rng = ctx.rng(&format!("c14/world/{}", shape.label));
    let k = shape.k;
    let n = 1usize << k;
    let (params, _) = env.params[k as usize].as_ref().unwrap();
    let dom = EvaluationDomain::<F>::new(1, k);
    let mut coeffs: Vec<Vec<F>> = vec![];
    for kind in &shape.kinds {
        let c: Vec<F> = match *kind {
            "zero" => vec![F::ZERO; n],
            "constant" => {
                let mut v = vec![F::ZERO; n];
                v[0] = F::random(&mut rng);
                v
            }
            "full-degree" => {
                let mut v: Vec<F> = (0..n).map(|_| F::random(&mut rng)).collect();
                if bool::from(v[n - 1].is_zero()) {
                    v[n - 1] = F::ONE;
                }
                v
            }
            "random-degree" => {
                let d = rng.gen_range(0..n);
                (0..n).map(|i| if i <= d { F::random(&mut rng) } else { F::ZERO }).collect()
            }
            "copy-of-previous" => match coeffs.last() {
                Some(prev) => prev.clone(),
                None => (0..n).map(|_| F::random(&mut rng)).collect(),
            },
            _ => unreachable!(),
        };
        coeffs.push(c);
    }
    // points: pairwise distinct; now and then a structured one (0, 1, a domain element)
    let mut points: Vec<F> = vec![];
    while points.len() < shape.n_points {
        let c = match rng.gen_range(0..12) {
            0 => F::ZERO,
            1 => F::ONE,
            2 => dom.get_omega(),
            _ => F::random(&mut rng),
        };
        if !points.contains(&c) {
            points.push(c);
        }
    }
    let mut pq: Vec<(usize, F)> = vec![];
    let mut vq: Vec<VQ> = vec![];
    for (pi, pts) in shape.assign.iter().enumerate() {
        for &pt in pts {
            pq.push((pi, points[pt]));
            vq.push(VQ::One {
                com: pi,
                point: points[pt],
                eval: rp::poly_eval(&coeffs[pi], points[pt]),
            });
        }
    }
    // chopped commitments: the prover opens Σ x^{(n_param-1)·i}·piece_i at x, as the in-tree
    // vanishing argument does
    for ch in &shape.chops {
        let x = points[ch.point];
        let factor = rp::pow_u64(x, ch.n_param - 1);
        let mut comb = vec![F::ZERO; n];
        let mut w = F::ONE;
        for p in &ch.pieces {
            for (c, a) in comb.iter_mut().zip(coeffs[*p].iter()) {
                *c += w * *a;
            }
            w *= factor;
        }
        let eval = rp::poly_eval(&comb, x);
        coeffs.push(comb);
        pq.push((coeffs.len() - 1, x));
        vq.push(VQ::Chop {
            pieces: ch.pieces.clone(),
            point: x,
            eval,
            n_param: ch.n_param,
        });
    }
    // spare polynomial for replacement faults
    coeffs.push((0..n).map(|_| F::random(&mut rng)).collect());
    let spare = coeffs.len() - 1;
    let polys: Vec<Polynomial<F, Coeff>> = coeffs.iter().map(|c| dom.coeff_from_vec(c.clone())).collect();
    let coms: Vec<G> = polys.iter().map(|p| CS::commit(params, p)).collect();
    // One permutation for both sides: the i-th prover query and the i-th verifier query talk about
    // the same (polynomial, point). The scheme combines commitments in order of first appearance,
    // so the two sides have to list their queries in the same order (as plonk's prover and verifier
    // do); an independently ordered verifier list is only *observed* (see run_case).
    let mut both: Vec<((usize, F), VQ)> = pq.into_iter().zip(vq).collect();
    both.shuffle(&mut rng);
    let (pq, vq): (Vec<(usize, F)>, Vec<VQ>) = both.into_iter().unzip();
    World {
        k,
        polys,
        coeffs,
        coms,
        points,
        pq,
        vq,
        spare,
    }
}

// ---------------------------------------------------------------------------------------------
// executions
// ---------------------------------------------------------------------------------------------

#[derive(Debug, Clone, PartialEq)]
enum Outcome {
    Accepted,
    /// stage ∈ {prover, prepare, verify, assert_empty, read}, error text
    Rejected(&'static str, String),
    Panicked(PanicInfo),
}

/// Signature of a verifier panic. One known shape gets one signature whatever sub-check reached
/// it: with a chopped commitment in the query set, multi_prepare indexes the (one-element) point
/// set of the chopped commitment with a *global* point index.
fn panic_sig(sub: &str, shape: &Shape, p: &PanicInfo) -> String {
    let file = repo_file(&p.file);
    if !shape.chops.is_empty() && file.ends_with("poly/kzg/mod.rs") && p.message.starts_with("index out of bounds") {
        format!("C14/chopped/panic@{KZG_FILE} multi_prepare point-index")
    } else {
        format!("C14/{sub}/panic@{file}")
    }
}

fn err_name(e: &Error) -> String {
    format!("{e:?}")
}

/// Prover: writes nothing but the opening proof. Returns the proof bytes.
fn prove(env: &Env, w: &World, pq: &[(usize, F)]) -> Result<Result<Vec<u8>, Error>, PanicInfo> {
    let (params, _) = env.params[w.k as usize].as_ref().unwrap();
    catch_any(|| {
        let mut t = T::init();
        let queries: Vec<ProverQuery<F>> = pq.iter().map(|(pi, x)| ProverQuery::new(*x, &w.polys[*pi])).collect();
        CS::multi_open(params, &queries, &mut t).map(|_| t.finalize())
    })
}

fn verify(env: &Env, k: u32, coms: &[G], vq: &[VQ], proof: &[u8]) -> Outcome {
    let (_, vparams) = env.params[k as usize].as_ref().unwrap();
    let r = catch_any(|| {
        let mut t = T::init_from_bytes(proof);
        let queries: Vec<VerifierQuery<F, CS>> = vq
            .iter()
            .map(|q| match q {
                VQ::One { com, point, eval } => VerifierQuery::new(*point, CommitmentLabel::NoLabel, &coms[*com], *eval),
                VQ::Chop {
                    pieces,
                    point,
                    eval,
                    n_param,
                } => {
                    let parts: Vec<&G> = pieces.iter().map(|p| &coms[*p]).collect();
                    VerifierQuery::from_parts(*point, CommitmentLabel::Custom("chopped".into()), &parts, *eval, *n_param)
                }
            })
            .collect();
        let guard = match CS::multi_prepare(&queries, &mut t) {
            Ok(g) => g,
            Err(e) => return Outcome::Rejected("prepare", err_name(&e)),
        };
        if let Err(e) = guard.verify(vparams) {
            return Outcome::Rejected("verify", err_name(&e));
        }
        if let Err(e) = t.assert_empty() {
            return Outcome::Rejected("assert_empty", e.to_string());
        }
        Outcome::Accepted
    });
    match r {
        Ok(o) => o,
        Err(p) => Outcome::Panicked(p),
    }
}

/// Parses the opening proof into elements (f_com, q_evals.., pi); None if it does not parse.
fn parse_proof(env: &Env, proof: &[u8]) -> Option<(G, Vec<F>, G)> {
    if proof.len() < 2 * env.g_size || (proof.len() - 2 * env.g_size) % env.f_size != 0 {
        return None;
    }
    let m = (proof.len() - 2 * env.g_size) / env.f_size;
    catch_any(|| {
        let mut t = T::init_from_bytes(proof);
        let f: G = t.read().ok()?;
        let mut ev = vec![];
        for _ in 0..m {
            ev.push(t.read::<F>().ok()?);
        }
        let pi: G = t.read().ok()?;
        Some((f, ev, pi))
    })
    .ok()
    .flatten()
}

fn encode_proof(f: &G, ev: &[F], pi: &G) -> Vec<u8> {
    let mut t = T::init();
    t.write(f).unwrap();
    for e in ev {
        t.write(e).unwrap();
    }
    t.write(pi).unwrap();
    t.finalize()
}

// ---------------------------------------------------------------------------------------------
// one case: honest run + every fault, one at a time
// ---------------------------------------------------------------------------------------------

fn witness(shape: &Shape, w: &World, fault: &str, detail: Json, vq: &[VQ], proof: &[u8]) -> Json {
    json!({
        "label": shape.label, "family": shape.family, "k": shape.k, "kinds": shape.kinds,
        "assign": shape.assign,
        "chops": shape.chops.iter().map(|c| json!({"pieces": c.pieces, "point": c.point, "n": c.n_param})).collect::<Vec<_>>(),
        "points": w.points.iter().map(hex_f).collect::<Vec<_>>(),
        "polys_le_hex": w.coeffs.iter().map(|c| c.iter().map(hex_f).collect::<Vec<_>>()).collect::<Vec<_>>(),
        "prover_queries": w.pq.iter().map(|(p, x)| json!([p, hex_f(x)])).collect::<Vec<_>>(),
        "verifier_queries": vq.iter().map(|q| q.describe()).collect::<Vec<_>>(),
        "fault": fault, "fault_detail": detail, "proof_hex": hx(proof),
        "regenerate": "params = unsafe_setup(k, rng(c14/params/<k>)); the world is a function of (seed, label); --replay re-runs the whole case",
    })
}

fn run_case(ctx: &Ctx, env: &Env, shape: &Shape, rep: &mut Report) {
    let w = build_world(ctx, env, shape);
    let mut rng = ctx.rng(&format!("c14/faults/{}", shape.label));
    let sub_h = if shape.chops.is_empty() { "honest" } else { "honest-chopped" };

    // ---- honest ----
    rep.eval();
    let proof = match prove(env, &w, &w.pq) {
        Ok(Ok(p)) => p,
        Ok(Err(e)) => {
            rep.violation(
                &format!("C14/{sub_h}/rejects-honest@{KZG_FILE} multi_open"),
                &format!("multi_open returns {e:?} on a well-formed query set ({})", shape.label),
                witness(shape, &w, "none", json!(null), &w.vq, &[]),
            );
            return;
        }
        Err(p) => {
            let n = 1usize << shape.k;
            let many = shape.assign.iter().any(|a| a.len() > n);
            let shape_s = if many && p.file.ends_with("utils/arithmetic.rs") {
                "kate_division more-points-than-coefficients"
            } else {
                "multi_open"
            };
            rep.violation(
                &format!("C14/{sub_h}/panic@{} {shape_s}", repo_file(&p.file)),
                &format!("multi_open panics on a well-formed query set ({}): {} at {}", shape.label, p.message, p.location),
                witness(shape, &w, "none", json!({"panic": p.message, "location": p.location}), &w.vq, &[]),
            );
            return;
        }
    };
    rep.eval();
    rep.count(&format!("honest.{}", shape.family));
    match verify(env, w.k, &w.coms, &w.vq, &proof) {
        Outcome::Accepted => {}
        Outcome::Rejected(stage, e) => {
            // re-run once
            if verify(env, w.k, &w.coms, &w.vq, &proof) != Outcome::Accepted {
                rep.violation(
                    &format!("C14/{sub_h}/rejects-honest@{KZG_FILE} {stage}"),
                    &format!("honest multi-opening rejected at {stage}: {e} ({})", shape.label),
                    witness(shape, &w, "none", json!({"stage": stage, "error": e}), &w.vq, &proof),
                );
            } else {
                rep.inconclusive(&format!("honest rejection did not reproduce ({})", shape.label));
            }
            return;
        }
        Outcome::Panicked(p) => {
            rep.violation(
                &panic_sig(sub_h, shape, &p),
                &format!("verifier panics on an honest proof ({}): {} at {}", shape.label, p.message, p.location),
                witness(shape, &w, "none", json!({"panic": p.message, "location": p.location}), &w.vq, &proof),
            );
            return;
        }
    }
    // observation only: verifier lists the same queries in another order
    {
        let mut vq2 = w.vq.clone();
        vq2.shuffle(&mut rng);
        if vq2.iter().zip(w.vq.iter()).any(|(a, b)| a.describe() != b.describe()) {
            rep.eval();
            rep.count(match verify(env, w.k, &w.coms, &vq2, &proof) {
                Outcome::Accepted => "observe.verifier-order-differs.accepted",
                Outcome::Rejected(..) => "observe.verifier-order-differs.rejected(order is part of the statement; counted only)",
                Outcome::Panicked(_) => "observe.verifier-order-differs.panic(counted only)",
            });
        }
    }
    let nq = w.vq.len();
    let nsets = {
        // distinct point sets = number of q_evals in the proof (layout derived from the bytes)
        (proof.len() - 2 * env.g_size) / env.f_size
    };
    rep.nontrivial(&("honest", shape.family, shape.k, &shape.kinds, &shape.assign, shape.chops.len()));
    rep.count(&format!("shape.queries.{}", if nq <= 4 { "1-4" } else if nq <= 12 { "5-12" } else { "13+" }));
    rep.count(&format!("shape.point_sets.{nsets}"));
    rep.count(&format!("shape.k.{}", shape.k));
    if !shape.chops.is_empty() {
        rep.count(&format!("shape.chopped.{}", shape.chops.len()));
    }
    if rep.samples.is_empty() {
        rep.sample(json!({"label": shape.label, "k": shape.k, "kinds": shape.kinds, "assign": shape.assign,
                          "chops": shape.chops.len(), "proof_bytes": proof.len(), "point_sets": nsets}));
    }

    // ---- faults ----
    // coeffs of the polynomial behind commitment index i, given a replacement map
    let check_fault = |rep: &mut Report,
                       name: &str,
                       detail: Json,
                       coms: &[G],
                       com_poly: &dyn Fn(usize) -> usize,
                       vq: &[VQ],
                       proof: &[u8],
                       proof_altered: bool| {
        let all_true = vq.iter().all(|q| q.claim_true(&|c| w.coeffs[com_poly(c)].clone()));
        let is_fault = proof_altered || !all_true;
        rep.eval();
        let out = verify(env, w.k, coms, vq, proof);
        match out {
            Outcome::Rejected(stage, e) => {
                rep.count(&format!("fault.{name}.rejected.{stage}.{}", e.split('(').next().unwrap_or("")));
                if is_fault {
                    rep.nontrivial(&("fault", name, &shape.label, detail.to_string()));
                }
            }
            Outcome::Accepted => {
                if !is_fault {
                    // every verifier claim is still true and the proof is untouched: not a wrong claim
                    rep.count(&format!("fault.{name}.vacuous-accepted(all claims still true)"));
                    return;
                }
                if verify(env, w.k, coms, vq, proof) == Outcome::Accepted {
                    rep.violation(
                        &format!("C14/{name}/accepts-wrong@{KZG_FILE}"),
                        &format!("verification accepts after fault `{name}` ({})", shape.label),
                        witness(shape, &w, name, detail, vq, proof),
                    );
                } else {
                    rep.inconclusive(&format!("acceptance after fault {name} did not reproduce ({})", shape.label));
                }
            }
            Outcome::Panicked(p) => {
                rep.violation(
                    &panic_sig(name, shape, &p),
                    &format!("verifier panics after fault `{name}` ({}): {} at {}", shape.label, p.message, p.location),
                    witness(shape, &w, name, json!({"detail": detail, "panic": p.message, "location": p.location}), vq, proof),
                );
            }
        }
    };
    let id = |c: usize| c;

    // each evaluation +1
    for qi in 0..nq {
        let mut vq = w.vq.clone();
        vq[qi].bump_eval();
        let name = if matches!(vq[qi], VQ::Chop { .. }) { "chopped-eval+1" } else { "eval+1" };
        check_fault(rep, name, json!({"query": qi}), &w.coms, &id, &vq, &proof, false);
    }
    // compensating pair: two commitments opened at the same set of points, evaluation +1 on one and
    // −1 on the other at a common point (only the x1-combination separates the two)
    {
        use std::collections::BTreeMap;
        let mut sets: BTreeMap<usize, Vec<(Vec<u8>, usize)>> = BTreeMap::new();
        for (qi, q) in w.vq.iter().enumerate() {
            if let VQ::One { com, point, .. } = q {
                sets.entry(*com).or_default().push((rp::le_bytes(point), qi));
            }
        }
        for v in sets.values_mut() {
            v.sort();
        }
        let coms_: Vec<usize> = sets.keys().copied().collect();
        let mut done = 0;
        'outer: for (ai, a) in coms_.iter().enumerate() {
            for b in coms_.iter().skip(ai + 1) {
                let (sa, sb) = (&sets[a], &sets[b]);
                if sa.len() == sb.len() && sa.iter().zip(sb.iter()).all(|(x, y)| x.0 == y.0) {
                    let j = rng.gen_range(0..sa.len());
                    let mut vq = w.vq.clone();
                    vq[sa[j].1].bump_eval();
                    if let VQ::One { eval, .. } = &mut vq[sb[j].1] {
                        *eval -= F::ONE;
                    }
                    check_fault(rep, "evals+1-1", json!({"queries": [sa[j].1, sb[j].1]}), &w.coms, &id, &vq, &proof, false);
                    done += 1;
                    if done >= 3 {
                        break 'outer;
                    }
                }
            }
        }
    }
    // each point changed: to a fresh point, and to another point of the case
    for qi in 0..nq {
        let mut vq = w.vq.clone();
        vq[qi].set_point(F::random(&mut rng));
        let name = if matches!(vq[qi], VQ::Chop { .. }) { "chopped-point-changed" } else { "point-changed" };
        check_fault(rep, name, json!({"query": qi, "to": "fresh"}), &w.coms, &id, &vq, &proof, false);
        if w.points.len() > 1 {
            let cur = w.vq[qi].point();
            let others: Vec<F> = w.points.iter().copied().filter(|p| *p != cur).collect();
            let mut vq = w.vq.clone();
            vq[qi].set_point(*others.choose(&mut rng).unwrap());
            check_fault(rep, name, json!({"query": qi, "to": "other point of the case"}), &w.coms, &id, &vq, &proof, false);
        }
    }
    // each commitment replaced (by the commitment to a known spare polynomial)
    let n_real = shape.kinds.len();
    for ci in 0..n_real {
        let mut coms = w.coms.clone();
        coms[ci] = w.coms[w.spare];
        let in_chop = shape.chops.iter().any(|c| c.pieces.contains(&ci));
        let name = if in_chop { "chopped-piece-replaced" } else { "commitment-replaced" };
        let map = move |c: usize| if c == ci { usize::MAX } else { c };
        let spare = w.spare;
        check_fault(rep, name, json!({"commitment": ci}), &coms, &move |c| if map(c) == usize::MAX { spare } else { c }, &w.vq, &proof, false);
    }
    // two commitments swapped
    if n_real >= 2 {
        let a = rng.gen_range(0..n_real);
        let mut b = rng.gen_range(0..n_real - 1);
        if b >= a {
            b += 1;
        }
        let mut coms = w.coms.clone();
        coms.swap(a, b);
        check_fault(rep, "commitments-swapped", json!({"a": a, "b": b}), &coms,
            &move |c| if c == a { b } else if c == b { a } else { c }, &w.vq, &proof, false);
    }
    // chopped: wrong n
    for (qi, q) in w.vq.iter().enumerate() {
        if let VQ::Chop { n_param, .. } = q {
            let mut vq = w.vq.clone();
            if let VQ::Chop { n_param: np, .. } = &mut vq[qi] {
                *np = n_param + 1;
            }
            check_fault(rep, "chopped-n-changed", json!({"query": qi}), &w.coms, &id, &vq, &proof, false);
        }
    }
    // proof elements: replaced by another valid element; one flipped bit per element; truncation;
    // trailing byte
    if let Some((f, ev, pi)) = parse_proof(env, &proof) {
        let g = G::generator();
        let mut variants: Vec<(String, Vec<u8>)> = vec![
            ("f_com+G".into(), encode_proof(&(f + g), &ev, &pi)),
            ("pi+G".into(), encode_proof(&f, &ev, &(pi + g))),
            ("f_com<->pi".into(), encode_proof(&pi, &ev, &f)),
        ];
        for i in 0..ev.len() {
            let mut e2 = ev.clone();
            e2[i] += F::ONE;
            variants.push((format!("q_eval[{i}]+1"), encode_proof(&f, &e2, &pi)));
        }
        if ev.len() >= 2 {
            let mut e2 = ev.clone();
            e2.swap(0, 1);
            variants.push(("q_eval[0]<->q_eval[1]".into(), encode_proof(&f, &e2, &pi)));
        }
        for (what, bytes) in variants {
            let altered = parse_proof(env, &bytes).map(|p| p != (f, ev.clone(), pi)).unwrap_or(true);
            if !altered {
                rep.count("fault.proof-element.same-elements(skipped)");
                continue;
            }
            check_fault(rep, "proof-element", json!({"mutation": what}), &w.coms, &id, &w.vq, &bytes, true);
        }
        // one random bit per element
        let mut offs = vec![(0usize, env.g_size)];
        for i in 0..ev.len() {
            offs.push((env.g_size + i * env.f_size, env.f_size));
        }
        offs.push((proof.len() - env.g_size, env.g_size));
        for (start, len) in offs {
            let pos = start + rng.gen_range(0..len);
            let bit = rng.gen_range(0..8);
            let mut bytes = proof.clone();
            bytes[pos] ^= 1 << bit;
            let altered = parse_proof(env, &bytes).map(|p| p != (f, ev.clone(), pi)).unwrap_or(true);
            if !altered {
                rep.count("fault.proof-byte.decodes-to-same-elements(skipped)");
                continue;
            }
            check_fault(rep, "proof-byte", json!({"byte": pos, "bit": bit}), &w.coms, &id, &w.vq, &bytes, true);
        }
        let mut bytes = proof.clone();
        bytes.push(rng.gen());
        check_fault(rep, "trailing-byte", json!(null), &w.coms, &id, &w.vq, &bytes, true);
        let cut = rng.gen_range(0..proof.len());
        check_fault(rep, "truncated", json!({"len": cut}), &w.coms, &id, &w.vq, &proof[..cut], true);
    } else {
        rep.inconclusive(&format!("opening proof of {} does not parse as (G1, F.., G1)", shape.label));
    }
    // query dropped on the verifier side (remaining claims are true: acceptance is only counted)
    if nq >= 2 {
        let qi = rng.gen_range(0..nq);
        let mut vq = w.vq.clone();
        vq.remove(qi);
        check_fault(rep, "query-dropped", json!({"query": qi}), &w.coms, &id, &vq, &proof, false);
    }
    // duplicated (commitment, point) pair: must be an error on both sides, never a panic
    {
        let qi = rng.gen_range(0..nq);
        for (variant, bump) in [("same-eval", false), ("other-eval", true)] {
            let mut vq = w.vq.clone();
            let mut d = w.vq[qi].clone();
            if bump {
                d.bump_eval();
            }
            let at = rng.gen_range(0..=vq.len());
            vq.insert(at, d);
            rep.eval();
            match verify(env, w.k, &w.coms, &vq, &proof) {
                Outcome::Rejected(stage, e) => {
                    rep.count(&format!("duplicate.verifier.{variant}.{stage}.{e}"));
                    rep.nontrivial(&("dup-v", &shape.label, variant));
                }
                Outcome::Accepted => rep.violation(
                    &format!("C14/duplicate-verifier/accepts-wrong@{KZG_FILE}"),
                    &format!("a verifier query set repeating a (commitment, point) pair is not refused ({})", shape.label),
                    witness(shape, &w, "duplicate-verifier", json!({"query": qi, "variant": variant, "inserted_at": at}), &vq, &proof),
                ),
                Outcome::Panicked(p) => rep.violation(
                    &panic_sig("duplicate-verifier", shape, &p),
                    &format!("verifier panics on a repeated (commitment, point) pair ({}): {} at {}", shape.label, p.message, p.location),
                    witness(shape, &w, "duplicate-verifier", json!({"query": qi, "variant": variant, "panic": p.message}), &vq, &proof),
                ),
            }
        }
        let pi_ = rng.gen_range(0..w.pq.len());
        let mut pq = w.pq.clone();
        let at = rng.gen_range(0..=pq.len());
        pq.insert(at, w.pq[pi_]);
        rep.eval();
        match prove(env, &w, &pq) {
            Ok(Err(e)) => {
                rep.count(&format!("duplicate.prover.{e:?}"));
                rep.nontrivial(&("dup-p", &shape.label));
            }
            Ok(Ok(p2)) => rep.violation(
                &format!("C14/duplicate-prover/accepts-wrong@{KZG_FILE}"),
                &format!("multi_open does not refuse a query set repeating a (polynomial, point) pair ({})", shape.label),
                witness(shape, &w, "duplicate-prover", json!({"query": pi_, "inserted_at": at}), &w.vq, &p2),
            ),
            Err(p) => rep.violation(
                &format!("C14/duplicate-prover/panic@{}", repo_file(&p.file)),
                &format!("multi_open panics on a repeated (polynomial, point) pair ({}): {} at {}", shape.label, p.message, p.location),
                witness(shape, &w, "duplicate-prover", json!({"query": pi_, "panic": p.message, "location": p.location}), &w.vq, &[]),
            ),
        }
    }
}

// ---------------------------------------------------------------------------------------------
// shapes
// ---------------------------------------------------------------------------------------------

/// Pattern `idx` of the exhaustive family: `np` polynomials (1..=4), each opened at a non-empty
/// subset of 3 points; idx enumerates 7^np subsets in base 7.
fn small_shape(ctx: &Ctx, np: usize, idx: usize) -> Shape {
    let label = format!("small/{np}/{idx}");
    let mut rng = ctx.rng(&format!("c14/shape/{label}"));
    let mut assign = vec![];
    let mut x = idx;
    for _ in 0..np {
        let mask = x % 7 + 1; // 1..=7
        x /= 7;
        assign.push((0..3).filter(|b| mask >> b & 1 == 1).collect::<Vec<_>>());
    }
    let kinds = (0..np).map(|_| *KINDS.choose(&mut rng).unwrap()).collect();
    Shape {
        label,
        family: "small-exhaustive",
        k: 2 + ((idx + np) % 6) as u32,
        kinds,
        n_points: 3,
        assign,
        chops: vec![],
    }
}

fn large_shape(ctx: &Ctx, i: usize) -> Shape {
    let label = format!("large/{i}");
    let mut rng = ctx.rng(&format!("c14/shape/{label}"));
    let np = rng.gen_range(1..=12usize);
    let n_points = rng.gen_range(1..=5usize);
    let mut assign = vec![];
    for _ in 0..np {
        let mask = rng.gen_range(1..(1usize << n_points));
        assign.push((0..n_points).filter(|b| mask >> b & 1 == 1).collect::<Vec<_>>());
    }
    let kinds: Vec<&'static str> = (0..np).map(|_| *KINDS.choose(&mut rng).unwrap()).collect();
    let k = 2 + (i % 6) as u32;
    let n = 1u64 << k;
    let mut chops = vec![];
    if i % 2 == 1 && np >= 2 {
        for _ in 0..rng.gen_range(1..=2) {
            let m = rng.gen_range(2..=4usize);
            // pieces may repeat polynomials used elsewhere, but one chopped commitment uses
            // distinct pieces or repeated ones at random
            let pieces: Vec<usize> = (0..m).map(|_| rng.gen_range(0..np)).collect();
            let point = rng.gen_range(0..n_points);
            let n_param = match rng.gen_range(0..4) {
                0 => 1,
                1 => rng.gen_range(2..=2 * n),
                _ => n,
            };
            // two chopped commitments with identical (pieces, n) are the *same* commitment reference
            // (equality is by piece pointers and n): at the same point that is a repeated pair, at
            // another point it is a chopped commitment opened at two points, which multi_prepare
            // documents as unsupported. Keep them distinct.
            if chops.iter().any(|c: &Chop| c.pieces == pieces && c.n_param == n_param) {
                continue;
            }
            chops.push(Chop {
                pieces,
                point,
                n_param,
            });
        }
    }
    Shape {
        label,
        family: if chops.is_empty() { "random-larger" } else { "random-larger-chopped" },
        k,
        kinds,
        n_points,
        assign,
        chops,
    }
}

fn shape_from_label(ctx: &Ctx, label: &str) -> Option<Shape> {
    let parts: Vec<&str> = label.split('/').collect();
    match parts.as_slice() {
        ["small", np, idx] => Some(small_shape(ctx, np.parse().ok()?, idx.parse().ok()?)),
        ["large", i] => Some(large_shape(ctx, i.parse().ok()?)),
        _ => None,
    }
}

fn main() {
    let mut ctx = Ctx::from_args("C14");
    let replay = ctx.replay.as_ref().and_then(|p| load_replay(p));
    if let Some(r) = &replay {
        if let Some(s) = r.get("seed").and_then(|s| s.as_u64()) {
            ctx.seed = s;
        }
        ctx.tier = if r.get("tier").and_then(|t| t.as_str()) == Some("thorough") { Tier::Thorough } else { Tier::Quick };
    }
    let mut rep = Report::new(
        &ctx,
        "a case = a query set (k, polynomial kinds, assignment of non-empty point subsets to polynomials, optional \
         chopped commitments), proven once with multi_open and verified with multi_prepare+verify+assert_empty; then \
         every single fault is applied on the verifier side and re-verified. The honest case is non-trivial iff it \
         verifies; a fault is non-trivial iff at least one verifier claim is false under the harness' own Horner \
         evaluation (or the proof decodes to different elements) and the run was executed.",
    );
    rep.assume("G1 / Fq encodings used by the transcript are canonical (C11/C03); the claimed evaluations are the harness' Horner values");
    rep.assume("a proof/commitment for a set of claims that are all still true after a verifier-side edit (constant polynomial at another point, dropped query) is not a wrong claim: acceptance is counted, not failed");

    // parameters per k and element sizes (derived from the transcript, not assumed)
    let mut params = vec![None, None];
    for k in 2..=7u32 {
        let p = ParamsKZG::<Bls12>::unsafe_setup(k, ctx.rng(&format!("c14/params/{k}")));
        let v = p.verifier_params();
        params.push(Some((p, v)));
    }
    let size_of = |f: &dyn Fn(&mut T)| {
        let mut t = T::init();
        f(&mut t);
        t.finalize().len()
    };
    let env = Env {
        params,
        g_size: size_of(&|t| t.write(&G::generator()).unwrap()),
        f_size: size_of(&|t| t.write(&F::ONE).unwrap()),
    };
    rep.set("element_sizes", json!({"G1": env.g_size, "Fr": env.f_size}));

    let mut shapes: Vec<Shape> = vec![];
    if let Some(r) = &replay {
        match r["witness"]["label"].as_str().and_then(|l| shape_from_label(&ctx, l)) {
            Some(s) => shapes.push(s),
            None => rep.inconclusive("replay: witness has no usable label"),
        }
        rep.nontrivial(&("replay", 0));
        rep.nontrivial(&("replay", 1));
        rep.min_nontrivial = 0;
    } else {
        let san = ctx.extra.get("stage").map(|s| s == "san").unwrap_or(false);
        // exhaustive small family: 7 + 49 + 343 + 2401 patterns
        let mut all_small: Vec<(usize, usize)> = vec![];
        for np in 1..=4usize {
            for idx in 0..7usize.pow(np as u32) {
                all_small.push((np, idx));
            }
        }
        let n_small = if san { 6 } else { ctx.tier.pick(300, all_small.len()) };
        if n_small < all_small.len() {
            let mut rng = ctx.rng("c14/sample-small");
            all_small.shuffle(&mut rng);
            all_small.truncate(n_small);
            all_small.sort();
        }
        for (np, idx) in all_small {
            shapes.push(small_shape(&ctx, np, idx));
        }
        let n_large = if san { 4 } else { ctx.tier.pick(500, 4000) };
        for i in 0..n_large {
            shapes.push(large_shape(&ctx, i));
        }
        // fixed shapes: two chopped commitments whose pieces have identical content behind distinct
        // references (equal by value, different by reference), at the same point and at
        // different points — both are honest, distinct commitments
        for (tag, pts) in [("same-point", [0usize, 0]), ("other-point", [0usize, 1])] {
            for k in [3u32, 5] {
                shapes.push(Shape {
                    label: format!("fixed/chopped-twins-{tag}/{k}"),
                    family: "random-larger-chopped",
                    k,
                    kinds: vec!["random-degree", "copy-of-previous", "full-degree", "copy-of-previous"],
                    n_points: 2,
                    assign: vec![vec![0], vec![1], vec![0, 1], vec![1]],
                    chops: vec![
                        Chop { pieces: vec![0, 2], point: pts[0], n_param: 1 << k },
                        Chop { pieces: vec![1, 3], point: pts[1], n_param: 1 << k },
                    ],
                });
            }
        }
        rep.set("planned", json!({"small_patterns": n_small, "small_patterns_total": 2800, "random_larger": n_large}));
        rep.min_nontrivial = if san { 10 } else { ctx.tier.pick(10_000, 150_000) };
    }

    let parts: Vec<Report> = shapes
        .par_iter()
        .map(|s| {
            let mut part = rep.fork();
            run_case(&ctx, &env, s, &mut part);
            part
        })
        .collect();
    for p in parts {
        rep.merge(p);
    }

    // documented restriction (comment in multi_prepare): a chopped commitment opened at two points
    // is not supported; observed once, counted only
    {
        let shape = Shape {
            label: "probe/chopped-two-points".into(),
            family: "probe",
            k: 3,
            kinds: vec!["full-degree", "full-degree"],
            n_points: 2,
            assign: vec![vec![0], vec![1]],
            chops: vec![
                Chop { pieces: vec![0, 1], point: 0, n_param: 8 },
                Chop { pieces: vec![0, 1], point: 1, n_param: 8 },
            ],
        };
        let w = build_world(&ctx, &env, &shape);
        if let Ok(Ok(proof)) = prove(&env, &w, &w.pq) {
            let o = verify(&env, w.k, &w.coms, &w.vq, &proof);
            rep.count(&format!(
                "probe.chopped-at-two-points.{}(documented restriction, counted only)",
                match o {
                    Outcome::Accepted => "accepted".to_string(),
                    Outcome::Rejected(s, _) => format!("rejected-{s}"),
                    Outcome::Panicked(p) => format!("panic:{}", p.message.chars().take(60).collect::<String>()),
                }
            ));
        }
    }
    rep.set("unreachable", json!([
        "poly::kzg::utils::construct_intermediate_sets and CommitmentData: private (observed through multi_open/multi_prepare)",
        "poly::query::CommitmentReference: not re-exported; chopped commitments are built with VerifierQuery::from_parts",
        "the prover has no chopped query type: it opens the x-weighted combination of the pieces, as plonk/vanishing does"
    ]));
    rep.finish();
}
