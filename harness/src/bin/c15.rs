//! C15 — batching and accumulation accept exactly the all-valid batches.
//!
//! A: `midnight_zk_stdlib::batch_verify` = ⋀ `verify(member)` over batches of size 0..6 with invalid
//!    members of three kinds at every position, permutations, repetitions, mixed relations/k;
//!    empty / length-mismatched batches must give a result value; dependency monitor: the batching
//!    challenge (last squeeze of the logged run) must change when any single member proof changes.
//! B: `DualMSM::{scale, add_msm, check}` combinations and `Guard::batch_verify` = ⋀ guard.verify.
//! C: `Accumulator::{from_dual_msm, accumulate, collapse, check}` with fixed-base maps of several
//!    verifying keys.

use std::collections::BTreeMap;

use ff::{Field, PrimeField};
use midnight_circuits::verifier::{fixed_bases, Accumulator, BlstrsEmulation};
use midnight_curves::{Bls12, Fq, G1Projective, G2Affine};
use midnight_proofs::{
    plonk::prepare,
    poly::{commitment::Guard, kzg::msm::DualMSM, kzg::params::ParamsVerifierKZG},
    transcript::{CircuitTranscript, Hashable, Sampleable, Transcript, TranscriptHash},
};
use midnight_zk_stdlib::{MidnightCircuit, MidnightVK, Relation};
use mzv::{
    common::*,
    engines::{gen_circuit::*, logged_hash::*, plonk_util::*, relations::*},
};
use rand::{seq::SliceRandom, Rng, SeedableRng};
use rand_chacha::ChaCha8Rng;
use serde_json::json;

type PState = midnight_circuits::hash::poseidon::PoseidonState<Fq>;
type S = BlstrsEmulation;

#[derive(Clone)]
struct Member {
    label: String,
    vk: MidnightVK,
    pi: Vec<Fq>,
    proof: Vec<u8>,
    k: u32,
}

const KMAX: u32 = 12;

fn vparams() -> ParamsVerifierKZG<Bls12> {
    params_for(KMAX).verifier_params()
}

/// Proves one relation instance with params of its own k (the verifier side uses the common
/// verifier parameters: g2 / s_g2 are the same for all sizes derived from one secret — we use
/// parameters downsized from one big setup so that all members share the SRS).
fn shared_params(k: u32) -> midnight_proofs::poly::kzg::params::ParamsKZG<Bls12> {
    let mut p = params_for(KMAX).clone();
    if k < KMAX {
        p.downsize(k);
    }
    p
}

fn make_member<R: Relation, H>(label: &str, rel: &R, inst: R::Instance, wit: R::Witness, seed: u64) -> Result<Member, String>
where
    H: TranscriptHash,
    G1Projective: Hashable<H>,
    Fq: Hashable<H> + Sampleable<H>,
{
    let k = MidnightCircuit::from_relation(rel).min_k();
    let params = shared_params(k);
    catch_any(|| {
        let vk = midnight_zk_stdlib::setup_vk(&params, rel);
        let pk = midnight_zk_stdlib::setup_pk(rel, &vk);
        let proof = midnight_zk_stdlib::prove::<R, H>(&params, &pk, rel, &inst, wit, ChaCha8Rng::seed_from_u64(seed))
            .map_err(|e| format!("{e:?}"))?;
        let pi = R::format_instance(&inst).map_err(|e| format!("{e:?}"))?;
        Ok(Member {
            label: label.to_string(),
            vk,
            pi,
            proof,
            k,
        })
    })
    .map_err(|p| format!("panic {p:?}"))?
}

fn single<H>(m: &Member) -> bool
where
    H: TranscriptHash,
    G1Projective: Hashable<H>,
    Fq: Hashable<H> + Sampleable<H>,
{
    catch_any(|| midnight_zk_stdlib::batch_verify::<H>(&vparams(), &[m.vk.clone()], &[m.pi.clone()], &[m.proof.clone()]).is_ok())
        .unwrap_or(false)
}

/// A corrupted copy of `m` whose proof still parses (some scalar + 1) but no longer verifies.
fn corrupt_parsing<H>(m: &Member) -> Option<Member>
where
    H: TranscriptHash,
    G1Projective: Hashable<H>,
    Fq: Hashable<H> + Sampleable<H>,
{
    // scalars are 32 bytes; walk 32-byte windows from the end, add one to the scalar if it decodes
    let n = m.proof.len();
    let mut off = n;
    for _ in 0..40 {
        if off < 80 {
            break;
        }
        off -= 32;
        let mut repr = <Fq as PrimeField>::Repr::default();
        repr.as_mut().copy_from_slice(&m.proof[off..off + 32]);
        let s: Option<Fq> = Fq::from_repr(repr).into();
        let Some(s) = s else { continue };
        let mut p = m.proof.clone();
        p[off..off + 32].copy_from_slice((s + Fq::ONE).to_repr().as_ref());
        let mut m2 = m.clone();
        m2.proof = p;
        m2.label = format!("{}!proof", m.label);
        // must parse (prepare ok) but not verify
        let parses = catch_any(|| {
            let mut t = CircuitTranscript::<H>::init_from_bytes(&m2.proof);
            prepare::<Fq, CS, _>(m2.vk.vk(), &[&[G1Projective::default()]], &[&[&m2.pi]], &mut t).is_ok()
        })
        .unwrap_or(false);
        if parses && !single::<H>(&m2) {
            return Some(m2);
        }
    }
    None
}

/// Two corrupted copies of `m` whose final group element (the KZG witness) is shifted by +D and
/// −D: each is invalid on its own, and their errors cancel in any combination that gives both the
/// same weight.
fn cancelling_pair<H>(m: &Member, rng: &mut ChaCha8Rng) -> Option<(Member, Member)>
where
    H: TranscriptHash,
    G1Projective: Hashable<H>,
    Fq: Hashable<H> + Sampleable<H>,
{
    use group::{Group, GroupEncoding};
    let n = m.proof.len();
    if n < 48 {
        return None;
    }
    let mut repr = <G1Projective as GroupEncoding>::Repr::default();
    repr.as_mut().copy_from_slice(&m.proof[n - 48..]);
    let pi: Option<G1Projective> = G1Projective::from_bytes(&repr).into();
    let pi = pi?;
    let d = G1Projective::random(&mut *rng);
    let mk = |p: G1Projective, tag: &str| {
        let mut m2 = m.clone();
        m2.proof[n - 48..].copy_from_slice(GroupEncoding::to_bytes(&p).as_ref());
        m2.label = format!("{}!{tag}", m.label);
        m2
    };
    let (a, b) = (mk(pi + d, "pi+D"), mk(pi - d, "pi-D"));
    (!single::<H>(&a) && !single::<H>(&b)).then_some((a, b))
}

fn batch<H>(ms: &[Member]) -> Result<bool, PanicInfo>
where
    H: TranscriptHash,
    G1Projective: Hashable<H>,
    Fq: Hashable<H> + Sampleable<H>,
{
    let vks: Vec<MidnightVK> = ms.iter().map(|m| m.vk.clone()).collect();
    let pis: Vec<Vec<Fq>> = ms.iter().map(|m| m.pi.clone()).collect();
    let proofs: Vec<Vec<u8>> = ms.iter().map(|m| m.proof.clone()).collect();
    catch_any(|| midnight_zk_stdlib::batch_verify::<H>(&vparams(), &vks, &pis, &proofs).is_ok())
}

fn part_a<H>(hname: &str, ctx: &Ctx, rep: &mut Report)
where
    H: TranscriptHash,
    G1Projective: Hashable<H>,
    Fq: Hashable<H> + Sampleable<H>,
    Logged<H>: TranscriptHash,
    G1Projective: Hashable<Logged<H>>,
    Fq: Hashable<Logged<H>> + Sampleable<Logged<H>>,
{
    let mut rng = ctx.rng(&format!("c15-a-{hname}"));
    // pool of valid members: 2 per relation
    let mut valid: Vec<Member> = vec![];
    for i in 0..2 {
        let (a, w) = ArithRel::sample(&mut rng);
        valid.extend(make_member::<_, H>(&format!("arith{i}"), &ArithRel, a, w, rng.gen()));
        let (a, w) = PoseidonRel::sample(&mut rng);
        valid.extend(make_member::<_, H>(&format!("poseidon{i}"), &PoseidonRel, a, w, rng.gen()));
        let (a, w) = EccRel::sample(&mut rng);
        valid.extend(make_member::<_, H>(&format!("ecc{i}"), &EccRel, a, w, rng.gen()));
    }
    valid.retain(|m| single::<H>(m));
    if valid.len() < 4 {
        rep.inconclusive(&format!("{hname}: fewer than 4 valid members could be produced"));
        return;
    }
    // invalid members
    let mut invalid: Vec<Member> = vec![];
    for m in valid.iter().take(3) {
        if let Some(c) = corrupt_parsing::<H>(m) {
            invalid.push(c);
        }
        let mut w = m.clone();
        w.pi[0] += Fq::ONE;
        w.label = format!("{}!pi", m.label);
        invalid.push(w);
        // vk of another relation
        if let Some(other) = valid.iter().find(|o| o.label[..3] != m.label[..3]) {
            let mut w = m.clone();
            w.vk = other.vk.clone();
            w.label = format!("{}!vk", m.label);
            invalid.push(w);
        }
    }
    let kinds: Vec<String> = invalid.iter().map(|m| m.label.split('!').nth(1).unwrap_or("?").to_string()).collect();
    rep.set(&format!("{hname}.invalid_member_kinds"), json!(kinds));
    invalid.retain(|m| !single::<H>(m));

    let judge = |ms: &[Member], expect: bool, what: &str, rep: &mut Report| {
        rep.eval();
        let labels: Vec<&str> = ms.iter().map(|m| m.label.as_str()).collect();
        rep.nontrivial(&(hname.to_string(), labels.join(",")));
        match batch::<H>(ms) {
            Err(p) => rep.violation(
                &format!("C15/batch_verify/panic@{}", repo_file(&p.file)),
                &format!("batch_verify panics on a batch of {} ({what}): {}", ms.len(), p.message),
                json!({"hash": hname, "members": labels}),
            ),
            Ok(got) if got != expect => rep.violation(
                &format!("C15/batch_verify/{}", if got { "accepts-batch-with-invalid-member" } else { "rejects-all-valid-batch" }),
                &format!("batch_verify returned {got} but the conjunction of the individual verifications is {expect} ({what})"),
                json!({"hash": hname, "members": labels, "proofs": ms.iter().map(|m| hx(&m.proof)).collect::<Vec<_>>()}),
            ),
            Ok(_) => rep.count(&format!("{hname}.batch.{}", if expect { "all-valid-accepted" } else { "with-invalid-rejected" })),
        }
    };

    let max_size = 6;
    for size in 1..=max_size {
        // all valid (random selection, with repetitions allowed for size > pool)
        for _ in 0..ctx.tier.pick(2, 6) {
            let ms: Vec<Member> = (0..size).map(|_| valid.choose(&mut rng).unwrap().clone()).collect();
            judge(&ms, true, "all valid", rep);
        }
        // repeated member
        let ms: Vec<Member> = vec![valid[0].clone(); size];
        judge(&ms, true, "one member repeated", rep);
        // exactly one invalid at each position, every kind
        for pos in 0..size {
            for inv in &invalid {
                if ctx.tier == Tier::Quick && rng.gen_bool(0.5) && size > 2 {
                    continue;
                }
                let mut ms: Vec<Member> = (0..size).map(|_| valid.choose(&mut rng).unwrap().clone()).collect();
                ms[pos] = inv.clone();
                judge(&ms, false, &format!("one invalid member ({}) at position {pos}", inv.label), rep);
            }
        }
        // two invalid
        if size >= 2 && invalid.len() >= 2 {
            for _ in 0..ctx.tier.pick(2, 8) {
                let mut ms: Vec<Member> = (0..size).map(|_| valid.choose(&mut rng).unwrap().clone()).collect();
                let a = rng.gen_range(0..size);
                let b = (a + 1 + rng.gen_range(0..size - 1)) % size;
                ms[a] = invalid.choose(&mut rng).unwrap().clone();
                ms[b] = invalid.choose(&mut rng).unwrap().clone();
                judge(&ms, false, "two invalid members", rep);
            }
        }
    }
    // cancelling pairs: the same proof with its last point shifted by +D and -D at every pair of
    // positions (defeats any combination that gives two members the same weight)
    if let Some((plus, minus)) = cancelling_pair::<H>(&valid[0], &mut rng) {
        for size in 2..=4usize {
            for i in 0..size {
                for j in 0..size {
                    if i == j {
                        continue;
                    }
                    let mut ms: Vec<Member> = (0..size).map(|_| valid.choose(&mut rng).unwrap().clone()).collect();
                    ms[i] = plus.clone();
                    ms[j] = minus.clone();
                    judge(&ms, false, &format!("cancelling pair (pi+D at {i}, pi-D at {j})"), rep);
                }
            }
        }
        rep.count(&format!("{hname}.cancelling_pairs_tested"));
    } else {
        rep.inconclusive(&format!("{hname}: no cancelling pair could be built"));
    }
    // all permutations of a 3-batch (4 in thorough) containing one invalid member
    let psize = ctx.tier.pick(3, 4);
    if !invalid.is_empty() {
        let mut base: Vec<Member> = valid.iter().take(psize - 1).cloned().collect();
        base.push(invalid[0].clone());
        let mut idx: Vec<usize> = (0..psize).collect();
        permute(&mut idx, 0, &mut |p| {
            let ms: Vec<Member> = p.iter().map(|i| base[*i].clone()).collect();
            judge(&ms, false, "permutation of a batch with one invalid member", rep);
        });
        let base: Vec<Member> = valid.iter().take(psize).cloned().collect();
        let mut idx: Vec<usize> = (0..psize).collect();
        permute(&mut idx, 0, &mut |p| {
            let ms: Vec<Member> = p.iter().map(|i| base[*i].clone()).collect();
            judge(&ms, true, "permutation of an all-valid batch", rep);
        });
    }

    // empty and length-mismatched batches: a result value, never a crash
    let vp = vparams();
    let m = &valid[0];
    let shapes: Vec<(&str, Vec<MidnightVK>, Vec<Vec<Fq>>, Vec<Vec<u8>>)> = vec![
        ("empty", vec![], vec![], vec![]),
        ("vks-short", vec![], vec![m.pi.clone()], vec![m.proof.clone()]),
        ("pis-short", vec![m.vk.clone()], vec![], vec![m.proof.clone()]),
        ("proofs-short", vec![m.vk.clone()], vec![m.pi.clone()], vec![]),
        ("pis-long", vec![m.vk.clone()], vec![m.pi.clone(), m.pi.clone()], vec![m.proof.clone()]),
    ];
    for (name, vks, pis, proofs) in shapes {
        rep.eval();
        rep.nontrivial(&(hname.to_string(), "shape", name));
        match catch_any(|| midnight_zk_stdlib::batch_verify::<H>(&vp, &vks, &pis, &proofs).is_ok()) {
            Err(p) => rep.violation(
                &format!("C15/batch_verify/panic@{} {name}-batch", repo_file(&p.file)),
                &format!("batch_verify panics on a {name} batch instead of returning a result: {}", p.message),
                json!({"hash": hname, "shape": name}),
            ),
            Ok(r) => {
                rep.count(&format!("{hname}.shape.{name}.returned_{r}"));
                if r && name != "empty" {
                    rep.violation(
                        &format!("C15/batch_verify/accepts-mismatched-batch {name}"),
                        "batch_verify accepted a batch whose argument lengths differ",
                        json!({"hash": hname, "shape": name}),
                    );
                }
            }
        }
    }

    // dependency monitor: the batching challenge must depend on every member's proof
    let a0 = valid.iter().find(|m| m.label == "arith0");
    if let Some(a0) = a0 {
        // a second, different valid proof of the same statement cannot be made without the witness;
        // instead compare batches that differ in exactly one member (another valid member)
        let b3: Vec<Member> = vec![a0.clone(), valid[1].clone(), valid[2].clone()];
        let last_squeeze = |ms: &[Member]| -> Option<Vec<u8>> {
            start_log();
            let _ = batch::<Logged<H>>(ms);
            let log = take_log();
            log.iter().rev().find_map(|e| if let TEvent::Squeeze(b) = e { Some(b.clone()) } else { None })
        };
        let base = last_squeeze(&b3);
        for j in 0..3 {
            let mut alt = b3.clone();
            alt[j] = valid[(j + 3) % valid.len()].clone();
            if alt[j].label == b3[j].label {
                continue;
            }
            rep.eval();
            rep.nontrivial(&(hname.to_string(), "dependency", j));
            let other = last_squeeze(&alt);
            if base.is_some() && base == other {
                rep.violation(
                    "C15/batch_verify/batching-challenge-independent-of-member",
                    &format!("the batching challenge did not change when member {j} of the batch was replaced"),
                    json!({"hash": hname, "position": j}),
                );
            } else {
                rep.count(&format!("{hname}.dependency.challenge_changes"));
            }
        }
    }
    rep.sample(json!({"hash": hname, "valid_pool": valid.iter().map(|m| format!("{} k={} proof={}B", m.label, m.k, m.proof.len())).collect::<Vec<_>>(),
                      "invalid_pool": invalid.iter().map(|m| m.label.clone()).collect::<Vec<_>>()}));
}

fn permute(idx: &mut Vec<usize>, k: usize, f: &mut impl FnMut(&[usize])) {
    if k == idx.len() {
        f(idx);
        return;
    }
    for i in k..idx.len() {
        idx.swap(k, i);
        permute(idx, k + 1, f);
        idx.swap(k, i);
    }
}

/// Guards (deferred dual MSMs) from generated-family proofs with the Poseidon transcript.
struct GuardSrc {
    vk: VK,
    name: String,
    guard: DualMSM<Bls12>,
    valid: bool,
}

fn family_guards(ctx: &Ctx, rep: &mut Report, n_specs: usize) -> Vec<GuardSrc> {
    let mut rng = ctx.rng("c15-guards");
    let mut out = vec![];
    let mut si = 0;
    let mut attempts = 0;
    while si < n_specs && attempts < n_specs * 10 {
        attempts += 1;
        let mut knobs = GenKnobs::sample(&mut rng);
        knobs.n_gates = knobs.n_gates.max(1);
        knobs.n_phases = 1;
        let Some(spec) = gen_spec::<Fq>(&mut rng, &knobs, 7) else { continue };
        let Ok((vk, pk)) = keygen_family(&spec) else { continue };
        let name = format!("vk{si}");
        for w in 0..2 {
            let case = FamCase {
                spec: spec.clone(),
                np: 1,
                nc: 0,
                poseidon: true,
                wseeds: vec![rng.gen()],
            };
            let Ok(proof) = prove_family::<PState>(&case, &pk) else { continue };
            let instances = instances_of(&case);
            let plain: Vec<Vec<&[Fq]>> = instances.iter().map(|i| i.iter().map(|c| c.as_slice()).collect()).collect();
            let plain_refs: Vec<&[&[Fq]]> = plain.iter().map(|i| i.as_slice()).collect();
            let empty: &[G1Projective] = &[];
            let mk = |bytes: &[u8]| -> Option<DualMSM<Bls12>> {
                catch_any(|| {
                    let mut t = CircuitTranscript::<PState>::init_from_bytes(bytes);
                    prepare::<Fq, CS, _>(&vk, &[empty], &plain_refs, &mut t).ok()
                })
                .ok()
                .flatten()
            };
            if let Some(g) = mk(&proof) {
                let ok = g.clone().verify(&params_for(spec.k).verifier_params()).is_ok();
                if !ok {
                    rep.inconclusive("honest family proof rejected (reported by C01)");
                    continue;
                }
                out.push(GuardSrc {
                    vk: vk.clone(),
                    name: name.clone(),
                    guard: g,
                    valid: true,
                });
            }
            // invalid guard: a scalar of the proof + 1 such that prepare still succeeds
            if w == 0 {
                let mut off = proof.len();
                for _ in 0..30 {
                    if off < 64 {
                        break;
                    }
                    off -= 32;
                    let mut repr = <Fq as PrimeField>::Repr::default();
                    repr.as_mut().copy_from_slice(&proof[off..off + 32]);
                    let s: Option<Fq> = Fq::from_repr(repr).into();
                    let Some(s) = s else { continue };
                    let mut p2 = proof.clone();
                    p2[off..off + 32].copy_from_slice((s + Fq::ONE).to_repr().as_ref());
                    if let Some(g) = mk(&p2) {
                        if g.clone().verify(&params_for(spec.k).verifier_params()).is_err() {
                            out.push(GuardSrc {
                                vk: vk.clone(),
                                name: name.clone(),
                                guard: g,
                                valid: false,
                            });
                            break;
                        }
                    }
                }
            }
        }
        si += 1;
    }
    out
}

fn part_b(ctx: &Ctx, rep: &mut Report, guards: &[GuardSrc]) {
    let mut rng = ctx.rng("c15-b");
    // all params derive from different seeded secrets per k in params_for; guards of different k
    // therefore cannot be mixed in one pairing check: group by k
    let mut by_k: BTreeMap<u32, Vec<&GuardSrc>> = BTreeMap::new();
    for g in guards {
        by_k.entry(g.vk.get_domain().k()).or_default().push(g);
    }
    for (k, gs) in by_k {
        let vp = params_for(k).verifier_params();
        let valid: Vec<&&GuardSrc> = gs.iter().filter(|g| g.valid).collect();
        let invalid: Vec<&&GuardSrc> = gs.iter().filter(|g| !g.valid).collect();
        if valid.is_empty() {
            continue;
        }
        for size in 1..=5usize {
            for inv_pos in std::iter::once(None).chain((0..size).map(Some)) {
                if inv_pos.is_some() && invalid.is_empty() {
                    continue;
                }
                let members: Vec<&GuardSrc> = (0..size)
                    .map(|i| if Some(i) == inv_pos { **invalid.choose(&mut rng).unwrap() } else { **valid.choose(&mut rng).unwrap() })
                    .collect();
                let expect = inv_pos.is_none();
                // scale/add_msm chain with a random non-zero r
                let r = Fq::random(&mut rng);
                let mut acc = members[0].guard.clone();
                for m in &members[1..] {
                    acc.scale(r);
                    acc.add_msm(m.guard.clone());
                }
                rep.eval();
                rep.nontrivial(&("dualmsm", k, size, inv_pos));
                let got = catch_any(|| acc.check(&vp));
                match got {
                    Err(p) => rep.violation(
                        &format!("C15/DualMSM/panic@{}", repo_file(&p.file)),
                        &format!("DualMSM::check panics: {}", p.message),
                        json!({"k": k, "size": size, "invalid_position": inv_pos}),
                    ),
                    Ok(g) if g != expect => rep.violation(
                        &format!("C15/DualMSM/{}", if g { "scaled-sum-accepts-invalid-member" } else { "scaled-sum-rejects-all-valid" }),
                        &format!("scale/add_msm combination of {size} guards checks to {g}, expected {expect}"),
                        json!({"k": k, "size": size, "invalid_position": inv_pos}),
                    ),
                    Ok(_) => rep.count("dualmsm.combination.ok"),
                }
                // Guard::batch_verify
                rep.eval();
                let gv: Vec<DualMSM<Bls12>> = members.iter().map(|m| m.guard.clone()).collect();
                let ps: Vec<&ParamsVerifierKZG<Bls12>> = (0..size).map(|_| &vp).collect();
                let got = catch_any(|| <DualMSM<Bls12> as Guard<Fq, CS>>::batch_verify(gv.into_iter(), ps.into_iter()).is_ok());
                match got {
                    Err(p) => rep.violation(
                        &format!("C15/Guard::batch_verify/panic@{}", repo_file(&p.file)),
                        &format!("Guard::batch_verify panics: {}", p.message),
                        json!({"k": k, "size": size}),
                    ),
                    Ok(g) if g != expect => rep.violation(
                        &format!("C15/Guard::batch_verify/{}", if g { "accepts-invalid" } else { "rejects-valid" }),
                        "Guard::batch_verify disagrees with the conjunction of individual verifications",
                        json!({"k": k, "size": size, "invalid_position": inv_pos}),
                    ),
                    Ok(_) => rep.count("guard.batch_verify.ok"),
                }
            }
        }
        // empty / mismatched guard batches
        for (name, ng, np) in [("empty", 0usize, 0usize), ("guards-short", 1, 2), ("params-short", 2, 1)] {
            rep.eval();
            rep.nontrivial(&("guard-shape", k, name));
            let gv: Vec<DualMSM<Bls12>> = (0..ng).map(|_| valid[0].guard.clone()).collect();
            let ps: Vec<&ParamsVerifierKZG<Bls12>> = (0..np).map(|_| &vp).collect();
            match catch_any(|| <DualMSM<Bls12> as Guard<Fq, CS>>::batch_verify(gv.into_iter(), ps.into_iter()).is_ok()) {
                Err(p) => rep.violation(
                    &format!("C15/Guard::batch_verify/panic@{} {name}-batch", repo_file(&p.file)),
                    &format!("Guard::batch_verify panics on a {name} batch instead of returning a result: {}", p.message),
                    json!({"shape": name}),
                ),
                Ok(r) => rep.count(&format!("guard.shape.{name}.returned_{r}")),
            }
        }
    }
}

fn part_c(ctx: &Ctx, rep: &mut Report, guards: &[GuardSrc]) {
    let mut rng = ctx.rng("c15-c");
    let mut by_k: BTreeMap<u32, Vec<&GuardSrc>> = BTreeMap::new();
    for g in guards {
        by_k.entry(g.vk.get_domain().k()).or_default().push(g);
    }
    for (k, gs) in by_k {
        let tau: G2Affine = params_for(k).s_g2().into();
        // fixed-base map of all vks in this group
        let mut fb: BTreeMap<String, G1Projective> = BTreeMap::new();
        for g in &gs {
            fb.extend(fixed_bases::<S>(&g.name, &g.vk));
        }
        let accs: Vec<(Accumulator<S>, bool)> = gs
            .iter()
            .filter_map(|g| {
                let own = fixed_bases::<S>(&g.name, &g.vk);
                catch_any(|| Accumulator::<S>::from_dual_msm(g.guard.clone(), &g.name, &own)).ok().map(|a| (a, g.valid))
            })
            .collect();
        let valid: Vec<&(Accumulator<S>, bool)> = accs.iter().filter(|a| a.1).collect();
        let invalid: Vec<&(Accumulator<S>, bool)> = accs.iter().filter(|a| !a.1).collect();
        if valid.is_empty() {
            continue;
        }
        // single accumulators agree with the guard verdict
        for (a, v) in &accs {
            rep.eval();
            let got = catch_any(|| a.check(&tau, &fb));
            if got.as_ref().ok() != Some(v) {
                rep.violation(
                    "C15/Accumulator/from_dual_msm-check-disagrees",
                    &format!("Accumulator::from_dual_msm(guard).check = {got:?} but guard.verify = {v}"),
                    json!({"k": k}),
                );
            }
        }
        for size in 1..=5usize {
            for inv_pos in std::iter::once(None).chain((0..size).map(Some)) {
                if inv_pos.is_some() && invalid.is_empty() {
                    continue;
                }
                let members: Vec<Accumulator<S>> = (0..size)
                    .map(|i| if Some(i) == inv_pos { invalid.choose(&mut rng).unwrap().0.clone() } else { valid.choose(&mut rng).unwrap().0.clone() })
                    .collect();
                let expect = inv_pos.is_none();
                for collapse_mode in ["none", "before", "after"] {
                    rep.eval();
                    rep.nontrivial(&("acc", k, size, inv_pos, collapse_mode));
                    let ms = members.clone();
                    let fb2 = fb.clone();
                    let got = catch_any(move || {
                        let mut ms = ms;
                        if collapse_mode == "before" {
                            ms.iter_mut().for_each(|m| m.collapse());
                        }
                        let mut acc = Accumulator::<S>::accumulate(&ms);
                        if collapse_mode == "after" {
                            acc.collapse();
                        }
                        acc.check(&tau, &fb2)
                    });
                    match got {
                        Err(p) => rep.violation(
                            &format!("C15/Accumulator/panic@{}", repo_file(&p.file)),
                            &format!("Accumulator accumulate/collapse/check panics: {}", p.message),
                            json!({"k": k, "size": size, "collapse": collapse_mode}),
                        ),
                        Ok(g) if g != expect => rep.violation(
                            &format!("C15/Accumulator/{} collapse={collapse_mode}", if g { "accepts-invalid-member" } else { "rejects-all-valid" }),
                            &format!("accumulate of {size} accumulators (invalid at {inv_pos:?}, collapse {collapse_mode}) checks to {g}, expected {expect}"),
                            json!({"k": k, "size": size, "invalid_position": inv_pos, "collapse": collapse_mode}),
                        ),
                        Ok(_) => rep.count(&format!("accumulator.{collapse_mode}.ok")),
                    }
                }
            }
        }
    }
}

fn main() {
    let ctx = Ctx::from_args("C15");
    let mut rep = Report::new(
        &ctx,
        "case = a batch (ordered list of members, each valid or invalid by proof corruption that still parses / wrong public input / wrong vk) \
         or a combination of verification guards / accumulators; oracle: batch result = conjunction of the individual verifications. \
         Non-trivial = batch of size >= 1 whose members were individually judged first; distinct = distinct member-label sequence / (k, size, invalid position, mode).",
    );
    rep.assume("all members of a batch share one SRS (parameters downsized from one seeded setup)");
    let _ = params_for(KMAX);
    part_a::<blake2b_simd::State>("blake2b", &ctx, &mut rep);
    if ctx.tier == Tier::Thorough {
        part_a::<PState>("poseidon", &ctx, &mut rep);
    }
    let guards = family_guards(&ctx, &mut rep, ctx.tier.pick(4, 10));
    rep.set(
        "guards",
        json!({"valid": guards.iter().filter(|g| g.valid).count(), "invalid": guards.iter().filter(|g| !g.valid).count()}),
    );
    if guards.iter().filter(|g| !g.valid).count() == 0 {
        rep.inconclusive("no invalid-but-parsing guard could be produced");
    }
    part_b(&ctx, &mut rep, &guards);
    part_c(&ctx, &mut rep, &guards);
    rep.min_nontrivial = 100;
    rep.finish();
}
