//! C16 — decoding and verifying untrusted bytes is total (DESIGN.md §5 C16, engine E8).
#![allow(unexpected_cfgs)]
#![allow(clippy::type_complexity)]

use std::{
    collections::{BTreeMap, HashMap},
    io::{self, Cursor},
    path::Path,
};

use ff::{Field, FromUniformBytes, PrimeField};
use group::Group;
use midnight_circuits::{
    hash::poseidon::{PoseidonChip, PoseidonState},
    instructions::{
        hash::HashCPU, ArithInstructions, AssertionInstructions, AssignmentInstructions,
        EccInstructions, PublicInputInstructions,
    },
    types::{AssignedByte, AssignedNativePoint, Instantiable},
};
use midnight_curves::{Fr as JubjubScalar, G1Projective, JubjubExtended as Jubjub, JubjubSubgroup};
use midnight_proofs::{
    circuit::{Layouter, Value},
    dev::cost_model::dummy_synthesize_run,
    plonk::Error,
    poly::kzg::params::{ParamsKZG, ParamsVerifierKZG},
    transcript::{CircuitTranscript, Hashable, Sampleable, Transcript, TranscriptHash},
    utils::SerdeFormat,
};
use midnight_zk_stdlib::{
    MidnightCircuit, MidnightPK, MidnightVK, Relation, ZkStdLib, ZkStdLibArch,
};
use midnight_zkir::ZkirRelation;
use mzv::{
    common::*,
    engines::totality::{self as tot, CaseReport, CaseResult, ChildRunner, Unit, Verdict},
};
use rand::{Rng, RngCore};
use serde::{Deserialize, Serialize};
use serde_json::{json, Value as Json};

mzv::install_counting_allocator!();

type F = midnight_curves::Fq;
type E = midnight_curves::Bls12;
type Blake = blake2b_simd::State;
type Pose = PoseidonState<F>;

// =============================================================================================
// 1. Seed relations (different ZkStdLibArch, k, number of fixed / permutation columns)
// =============================================================================================

#[derive(Clone, Copy, Debug, PartialEq, Eq)]
enum HashKind {
    Blake,
    Poseidon,
}
impl HashKind {
    fn name(&self) -> &'static str {
        match self {
            HashKind::Blake => "blake2b",
            HashKind::Poseidon => "poseidon",
        }
    }
    fn parse(s: &str) -> HashKind {
        if s == "poseidon" {
            HashKind::Poseidon
        } else {
            HashKind::Blake
        }
    }
}

trait SeedRel: Relation + Sized + 'static {
    const NAME: &'static str;
    fn make() -> Self;
    /// a fixed satisfying (instance, witness) pair (no randomness: parent and children agree)
    fn case() -> (Self::Instance, Self::Witness);
}

/// native arithmetic only, default architecture, carries its architecture as relation payload
#[derive(Clone)]
struct RelNative {
    arch: ZkStdLibArch,
}
impl Relation for RelNative {
    type Instance = F;
    type Witness = F;
    fn format_instance(x: &F) -> Result<Vec<F>, Error> {
        Ok(vec![*x])
    }
    fn circuit(
        &self,
        std_lib: &ZkStdLib,
        layouter: &mut impl Layouter<F>,
        instance: Value<F>,
        witness: Value<F>,
    ) -> Result<(), Error> {
        let instance = std_lib.assign_as_public_input(layouter, instance)?;
        let witness = std_lib.assign(layouter, witness)?;
        let x = std_lib.mul(layouter, &witness, &witness, None)?;
        std_lib.assert_equal(layouter, &instance, &x)
    }
    fn used_chips(&self) -> ZkStdLibArch {
        self.arch
    }
    fn write_relation<W: io::Write>(&self, writer: &mut W) -> io::Result<()> {
        self.arch.write(writer)
    }
    fn read_relation<R: io::Read>(reader: &mut R) -> io::Result<Self> {
        ZkStdLibArch::read(reader).map(|arch| RelNative { arch })
    }
}
impl SeedRel for RelNative {
    const NAME: &'static str = "native";
    fn make() -> Self {
        RelNative { arch: ZkStdLibArch::default() }
    }
    fn case() -> (F, F) {
        let w = F::from(0x1234_5678_9abc_def1u64);
        (w * w, w)
    }
}

macro_rules! no_payload {
    ($t:ident) => {
        fn write_relation<W: io::Write>(&self, _w: &mut W) -> io::Result<()> {
            Ok(())
        }
        fn read_relation<R: io::Read>(_r: &mut R) -> io::Result<Self> {
            Ok($t)
        }
    };
}

/// Poseidon preimage, two range-check columns
#[derive(Clone, Default)]
struct RelPoseidon;
impl Relation for RelPoseidon {
    type Instance = F;
    type Witness = [F; 3];
    fn format_instance(x: &F) -> Result<Vec<F>, Error> {
        Ok(vec![*x])
    }
    fn circuit(
        &self,
        std_lib: &ZkStdLib,
        layouter: &mut impl Layouter<F>,
        _instance: Value<F>,
        witness: Value<[F; 3]>,
    ) -> Result<(), Error> {
        let m = std_lib.assign_many(layouter, &witness.transpose_array())?;
        let out = std_lib.poseidon(layouter, &m)?;
        std_lib.constrain_as_public_input(layouter, &out)
    }
    fn used_chips(&self) -> ZkStdLibArch {
        ZkStdLibArch { poseidon: true, nr_pow2range_cols: 2, ..ZkStdLibArch::default() }
    }
    no_payload!(RelPoseidon);
}
impl SeedRel for RelPoseidon {
    const NAME: &'static str = "poseidon";
    fn make() -> Self {
        RelPoseidon
    }
    fn case() -> (F, [F; 3]) {
        let w = [F::from(3), F::from(5), -F::from(7)];
        (<PoseidonChip<F> as HashCPU<F, F>>::hash(&w), w)
    }
}

/// Jubjub scalar multiplication, three range-check columns
#[derive(Clone, Default)]
struct RelJubjub;
impl Relation for RelJubjub {
    type Instance = JubjubSubgroup;
    type Witness = JubjubScalar;
    fn format_instance(p: &JubjubSubgroup) -> Result<Vec<F>, Error> {
        Ok(AssignedNativePoint::<Jubjub>::as_public_input(p))
    }
    fn circuit(
        &self,
        std_lib: &ZkStdLib,
        layouter: &mut impl Layouter<F>,
        _instance: Value<JubjubSubgroup>,
        witness: Value<JubjubScalar>,
    ) -> Result<(), Error> {
        let scalar = std_lib.jubjub().assign(layouter, witness)?;
        let g: AssignedNativePoint<Jubjub> =
            std_lib.jubjub().assign_fixed(layouter, <JubjubSubgroup as Group>::generator())?;
        let r = std_lib.jubjub().msm(layouter, &[scalar], &[g])?;
        std_lib.jubjub().constrain_as_public_input(layouter, &r)
    }
    fn used_chips(&self) -> ZkStdLibArch {
        ZkStdLibArch { jubjub: true, nr_pow2range_cols: 3, ..ZkStdLibArch::default() }
    }
    no_payload!(RelJubjub);
}
impl SeedRel for RelJubjub {
    const NAME: &'static str = "jubjub";
    fn make() -> Self {
        RelJubjub
    }
    fn case() -> (JubjubSubgroup, JubjubScalar) {
        let s = JubjubScalar::from(0xdead_beef_0123u64);
        (JubjubSubgroup::generator() * s, s)
    }
}

/// SHA-256 preimage, four range-check columns
#[derive(Clone, Default)]
struct RelSha;
impl Relation for RelSha {
    type Instance = [u8; 32];
    type Witness = [u8; 24];
    fn format_instance(instance: &[u8; 32]) -> Result<Vec<F>, Error> {
        Ok(instance.iter().flat_map(AssignedByte::<F>::as_public_input).collect())
    }
    fn circuit(
        &self,
        std_lib: &ZkStdLib,
        layouter: &mut impl Layouter<F>,
        _instance: Value<[u8; 32]>,
        witness: Value<[u8; 24]>,
    ) -> Result<(), Error> {
        let input = std_lib.assign_many(layouter, &witness.transpose_array())?;
        let out = std_lib.sha2_256(layouter, &input)?;
        out.iter().try_for_each(|b| std_lib.constrain_as_public_input(layouter, b))
    }
    fn used_chips(&self) -> ZkStdLibArch {
        ZkStdLibArch { sha2_256: true, nr_pow2range_cols: 4, ..ZkStdLibArch::default() }
    }
    no_payload!(RelSha);
}
impl SeedRel for RelSha {
    const NAME: &'static str = "sha256";
    fn make() -> Self {
        RelSha
    }
    fn case() -> ([u8; 32], [u8; 24]) {
        use sha2::Digest;
        let w: [u8; 24] = core::array::from_fn(|i| (i * 7 + 1) as u8);
        (sha2::Sha256::digest(w).into(), w)
    }
}

/// trivial circuit under a wide architecture (many chips enabled but unused)
#[derive(Clone, Default)]
struct RelWide;
impl Relation for RelWide {
    type Instance = F;
    type Witness = F;
    fn format_instance(x: &F) -> Result<Vec<F>, Error> {
        Ok(vec![*x])
    }
    fn circuit(
        &self,
        std_lib: &ZkStdLib,
        layouter: &mut impl Layouter<F>,
        instance: Value<F>,
        witness: Value<F>,
    ) -> Result<(), Error> {
        let instance = std_lib.assign_as_public_input(layouter, instance)?;
        let witness = std_lib.assign(layouter, witness)?;
        let x = std_lib.add(layouter, &witness, &witness)?;
        std_lib.assert_equal(layouter, &instance, &x)
    }
    fn used_chips(&self) -> ZkStdLibArch {
        ZkStdLibArch {
            jubjub: true,
            poseidon: true,
            sha2_256: false,
            sha2_512: true,
            keccak_256: false,
            sha3_256: false,
            blake2b: false,
            secp256k1: true,
            bls12_381: true,
            base64: false,
            automaton: false,
            nr_pow2range_cols: 4,
        }
    }
    no_payload!(RelWide);
}
impl SeedRel for RelWide {
    const NAME: &'static str = "wide";
    fn make() -> Self {
        RelWide
    }
    fn case() -> (F, F) {
        let w = F::from(77);
        (w + w, w)
    }
}

/// the aggregator's inner circuit shape: exactly two public inputs
#[derive(Clone, Default)]
struct RelInner;
impl Relation for RelInner {
    type Instance = [F; 2];
    type Witness = [F; 2];
    fn format_instance(x: &[F; 2]) -> Result<Vec<F>, Error> {
        Ok(x.to_vec())
    }
    fn circuit(
        &self,
        std_lib: &ZkStdLib,
        layouter: &mut impl Layouter<F>,
        _instance: Value<[F; 2]>,
        witness: Value<[F; 2]>,
    ) -> Result<(), Error> {
        let m = std_lib.assign_many(layouter, &witness.transpose_array())?;
        let o1 = std_lib.poseidon(layouter, &m)?;
        let o2 = std_lib.poseidon(layouter, &m[1..])?;
        std_lib.constrain_as_public_input(layouter, &o1)?;
        std_lib.constrain_as_public_input(layouter, &o2)
    }
    fn used_chips(&self) -> ZkStdLibArch {
        ZkStdLibArch {
            jubjub: true,
            poseidon: true,
            sha2_256: true,
            nr_pow2range_cols: 4,
            ..ZkStdLibArch::default()
        }
    }
    no_payload!(RelInner);
}
impl SeedRel for RelInner {
    const NAME: &'static str = "inner";
    fn make() -> Self {
        RelInner
    }
    fn case() -> ([F; 2], [F; 2]) {
        let w = [F::from(11), F::from(13)];
        (
            [
                <PoseidonChip<F> as HashCPU<F, F>>::hash(&w),
                <PoseidonChip<F> as HashCPU<F, F>>::hash(&w[1..]),
            ],
            w,
        )
    }
}

// ---- transcript hashes defined here -----------------------------------------------------------

/// Same function as the aggregator crate's private `LightPoseidonFS` (points are double-hashed,
/// SHA-512 then Poseidon); needed to produce inner proofs that `LightAggregator` can aggregate.
#[derive(Clone, Debug)]
struct LightFS(Pose);
impl TranscriptHash for LightFS {
    type Input = Vec<F>;
    type Output = F;
    fn init() -> Self {
        LightFS(<Pose as TranscriptHash>::init())
    }
    fn absorb(&mut self, input: &Vec<F>) {
        <Pose as TranscriptHash>::absorb(&mut self.0, input)
    }
    fn squeeze(&mut self) -> F {
        <Pose as TranscriptHash>::squeeze(&mut self.0)
    }
}
impl Hashable<LightFS> for G1Projective {
    fn to_input(&self) -> Vec<F> {
        use sha2::Digest;
        let bytes = <G1Projective as Hashable<Pose>>::to_bytes(self);
        let d: [u8; 64] = sha2::Sha512::digest(bytes).into();
        vec![F::from_uniform_bytes(&d)]
    }
    fn to_bytes(&self) -> Vec<u8> {
        <G1Projective as Hashable<Pose>>::to_bytes(self)
    }
    fn read(buffer: &mut impl io::Read) -> io::Result<Self> {
        <G1Projective as Hashable<Pose>>::read(buffer)
    }
}
impl Hashable<LightFS> for F {
    fn to_input(&self) -> Vec<F> {
        <F as Hashable<Pose>>::to_input(self)
    }
    fn to_bytes(&self) -> Vec<u8> {
        <F as Hashable<Pose>>::to_bytes(self)
    }
    fn read(buffer: &mut impl io::Read) -> io::Result<Self> {
        <F as Hashable<Pose>>::read(buffer)
    }
}
impl Sampleable<LightFS> for F {
    fn sample(out: F) -> F {
        out
    }
}

thread_local! {
    static PROBE_LOG: std::cell::RefCell<Vec<usize>> = const { std::cell::RefCell::new(Vec::new()) };
}
/// Blake2b with a log of the byte length of every element *read* from the proof: gives the
/// element boundaries of a proof at run time (no hard-coded layout).
#[derive(Clone)]
struct Probe(Blake);
impl TranscriptHash for Probe {
    type Input = Vec<u8>;
    type Output = Vec<u8>;
    fn init() -> Self {
        Probe(<Blake as TranscriptHash>::init())
    }
    fn absorb(&mut self, input: &Vec<u8>) {
        <Blake as TranscriptHash>::absorb(&mut self.0, input)
    }
    fn squeeze(&mut self) -> Vec<u8> {
        <Blake as TranscriptHash>::squeeze(&mut self.0)
    }
}
impl Hashable<Probe> for G1Projective {
    fn to_input(&self) -> Vec<u8> {
        <G1Projective as Hashable<Blake>>::to_input(self)
    }
    fn to_bytes(&self) -> Vec<u8> {
        <G1Projective as Hashable<Blake>>::to_bytes(self)
    }
    fn read(buffer: &mut impl io::Read) -> io::Result<Self> {
        let r = <G1Projective as Hashable<Blake>>::read(buffer)?;
        PROBE_LOG.with(|l| l.borrow_mut().push(<G1Projective as Hashable<Blake>>::to_bytes(&r).len()));
        Ok(r)
    }
}
impl Hashable<Probe> for F {
    fn to_input(&self) -> Vec<u8> {
        <F as Hashable<Blake>>::to_input(self)
    }
    fn to_bytes(&self) -> Vec<u8> {
        <F as Hashable<Blake>>::to_bytes(self)
    }
    fn read(buffer: &mut impl io::Read) -> io::Result<Self> {
        let r = <F as Hashable<Blake>>::read(buffer)?;
        PROBE_LOG.with(|l| l.borrow_mut().push(<F as Hashable<Blake>>::to_bytes(&r).len()));
        Ok(r)
    }
}
impl Sampleable<Probe> for F {
    fn sample(out: Vec<u8>) -> F {
        <F as Sampleable<Blake>>::sample(out)
    }
}

// ---- per-relation operations behind function pointers ------------------------------------------

#[derive(Clone, Debug, Default, Serialize, Deserialize)]
struct RelSeed {
    name: String,
    k: u32,
    arch: String,
    vk_p: String,
    vk_r: String,
    pk_p: Option<String>,
    pk_r: Option<String>,
    proof_blake: String,
    proof_poseidon: String,
    /// element sizes of the proof, in order (from the Probe hash)
    layout: Vec<usize>,
    pi: Vec<String>,
}

struct RelOps {
    name: &'static str,
    build: fn(&ParamsKZG<E>, u64, bool) -> Result<RelSeed, String>,
    verify: fn(&ParamsVerifierKZG<E>, &MidnightVK, &[u8], HashKind) -> Result<(), Error>,
    read_pk: fn(&mut Cursor<&[u8]>, SerdeFormat) -> io::Result<()>,
}

fn verify_rel<R: SeedRel>(
    pv: &ParamsVerifierKZG<E>,
    vk: &MidnightVK,
    proof: &[u8],
    h: HashKind,
) -> Result<(), Error> {
    let (inst, _) = R::case();
    match h {
        HashKind::Blake => midnight_zk_stdlib::verify::<R, Blake>(pv, vk, &inst, None, proof),
        HashKind::Poseidon => midnight_zk_stdlib::verify::<R, Pose>(pv, vk, &inst, None, proof),
    }
}

fn read_pk_rel<R: SeedRel>(cur: &mut Cursor<&[u8]>, fmt: SerdeFormat) -> io::Result<()> {
    MidnightPK::<R>::read(cur, fmt).map(|_| ())
}

fn build_rel<R: SeedRel>(srs_max: &ParamsKZG<E>, seed: u64, with_pk: bool) -> Result<RelSeed, String>
where
    R::Witness: Clone,
{
    let rel = R::make();
    let mut srs = srs_max.clone();
    midnight_zk_stdlib::downsize_srs_for_relation(&mut srs, &rel);
    let vk = midnight_zk_stdlib::setup_vk(&srs, &rel);
    let pk = midnight_zk_stdlib::setup_pk(&rel, &vk);
    let (inst, wit) = R::case();
    let proof_blake = midnight_zk_stdlib::prove::<R, Blake>(
        &srs,
        &pk,
        &rel,
        &inst,
        wit.clone(),
        rng_for(seed, &format!("c16/prove/blake/{}", R::NAME)),
    )
    .map_err(|e| format!("prove(blake) {}: {e:?}", R::NAME))?;
    let proof_poseidon = midnight_zk_stdlib::prove::<R, Pose>(
        &srs,
        &pk,
        &rel,
        &inst,
        wit,
        rng_for(seed, &format!("c16/prove/poseidon/{}", R::NAME)),
    )
    .map_err(|e| format!("prove(poseidon) {}: {e:?}", R::NAME))?;
    let pv = srs.verifier_params();
    verify_rel::<R>(&pv, &vk, &proof_blake, HashKind::Blake)
        .map_err(|e| format!("honest blake proof of {} rejected: {e:?}", R::NAME))?;
    verify_rel::<R>(&pv, &vk, &proof_poseidon, HashKind::Poseidon)
        .map_err(|e| format!("honest poseidon proof of {} rejected: {e:?}", R::NAME))?;
    // proof layout through the logging hash (same function as Blake2b => the proof verifies)
    PROBE_LOG.with(|l| l.borrow_mut().clear());
    let _ = midnight_zk_stdlib::verify::<R, Probe>(&pv, &vk, &inst, None, &proof_blake);
    let layout: Vec<usize> = PROBE_LOG.with(|l| l.borrow().clone());
    let enc = |f: SerdeFormat| {
        let mut b = vec![];
        vk.write(&mut b, f).map(|_| hx(&b)).map_err(|e| e.to_string())
    };
    let encpk = |f: SerdeFormat| {
        let mut b = vec![];
        pk.write(&mut b, f).map(|_| hx(&b)).map_err(|e| e.to_string())
    };
    let mut arch = vec![];
    rel.used_chips().write(&mut arch).map_err(|e| e.to_string())?;
    let pi = R::format_instance(&inst).map_err(|e| format!("{e:?}"))?;
    Ok(RelSeed {
        name: R::NAME.to_string(),
        k: vk.k() as u32,
        arch: hx(&arch),
        vk_p: enc(SerdeFormat::Processed)?,
        vk_r: enc(SerdeFormat::RawBytes)?,
        pk_p: if with_pk { Some(encpk(SerdeFormat::Processed)?) } else { None },
        pk_r: if with_pk { Some(encpk(SerdeFormat::RawBytes)?) } else { None },
        proof_blake: hx(&proof_blake),
        proof_poseidon: hx(&proof_poseidon),
        layout,
        pi: pi.iter().map(|x| hx(x.to_repr().as_ref())).collect(),
    })
}

fn ops_of<R: SeedRel>() -> RelOps
where
    R::Witness: Clone,
{
    RelOps { name: R::NAME, build: build_rel::<R>, verify: verify_rel::<R>, read_pk: read_pk_rel::<R> }
}

fn all_ops() -> Vec<RelOps> {
    vec![
        ops_of::<RelNative>(),
        ops_of::<RelPoseidon>(),
        ops_of::<RelJubjub>(),
        ops_of::<RelWide>(),
        ops_of::<RelInner>(),
        ops_of::<RelSha>(),
    ]
}

// =============================================================================================
// 2. Seed corpus (built once by the parent from ctx.seed, written to scratch, read by children)
// =============================================================================================

const ZKIR_SEEDS: &[(&str, &str)] = &[
    (
        "simple",
        r#"{"version":{"major":3,"minor":0},"instructions":[
{"op":{"load":"Native"},"outputs":["v0","v1"]},
{"op":{"load":"Bool"},"outputs":["b0"]},
{"op":{"load":{"Bytes":2}},"outputs":["bytes"]},
{"op":{"load":{"BigUint":512}},"outputs":["P","Q"]},
{"op":"mul","inputs":["P","Q"],"outputs":["N"]},
{"op":"publish","inputs":["v0","v1","N"]},
{"op":"add","inputs":["v0","v1"],"outputs":["z"]},
{"op":"assert_equal","inputs":["z","Native:-0x01"]}]}"#,
    ),
    (
        "schnorr",
        r#"{"version":{"major":3,"minor":0},"instructions":[
{"op":{"load":"Native"},"outputs":["msg"]},
{"op":"publish","inputs":["msg"]},
{"op":{"load":"JubjubPoint"},"outputs":["PK"]},
{"op":{"load":"JubjubScalar"},"outputs":["s"]},
{"op":{"load":{"Bytes":32}},"outputs":["e_bytes"]},
{"op":{"from_bytes":"JubjubScalar"},"inputs":["e_bytes"],"outputs":["e"]},
{"op":"inner_product","inputs":["e","s","PK","Jubjub:GENERATOR"],"outputs":["R"]},
{"op":"affine_coordinates","inputs":["PK"],"outputs":["PKx","PKy"]},
{"op":"affine_coordinates","inputs":["R"],"outputs":["Rx","Ry"]},
{"op":"poseidon","inputs":["PKx","PKy","Rx","Ry","msg"],"outputs":["h"]},
{"op":{"into_bytes":32},"inputs":["h"],"outputs":["h_bytes"]},
{"op":"assert_equal","inputs":["e_bytes","h_bytes"]}]}"#,
    ),
    (
        "hashes",
        r#"{"instructions":[
{"op":{"load":{"Bytes":5}},"outputs":["m"]},
{"op":"sha256","inputs":["m"],"outputs":["d"]},
{"op":"sha512","inputs":["m"],"outputs":["D"]},
{"op":"publish","inputs":["d","D"]}]}"#,
    ),
    (
        "bigint",
        r#"{"instructions":[
{"op":{"load":{"BigUint":64}},"outputs":["a","b","m"]},
{"op":"add","inputs":["a","b"],"outputs":["s"]},
{"op":"mul","inputs":["a","b"],"outputs":["p"]},
{"op":{"mod_exp":3},"inputs":["a","m"],"outputs":["e"]},
{"op":"is_equal","inputs":["s","p"],"outputs":["q"]},
{"op":{"into_bytes":16},"inputs":["p"],"outputs":["pb"]},
{"op":{"from_bytes":{"BigUint":128}},"inputs":["pb"],"outputs":["p2"]},
{"op":"assert_equal","inputs":["p","p2"]},
{"op":"assert_not_equal","inputs":["a","BigUint:0x10"]},
{"op":"publish","inputs":["e","q"]}]}"#,
    ),
    (
        "native",
        r#"{"instructions":[
{"op":{"load":"Native"},"outputs":["x","y"]},
{"op":"neg","inputs":["x"],"outputs":["nx"]},
{"op":"sub","inputs":["x","y"],"outputs":["d"]},
{"op":"inner_product","inputs":["x","y","nx","d"],"outputs":["ip"]},
{"op":"is_equal","inputs":["ip","Native:0x00"],"outputs":["z"]},
{"op":{"into_bytes":32},"inputs":["x"],"outputs":["xb"]},
{"op":{"from_bytes":"Native"},"inputs":["xb"],"outputs":["x2"]},
{"op":"assert_equal","inputs":["x","x2"]},
{"op":"assert_not_equal","inputs":["z","1"]},
{"op":"publish","inputs":["ip","z","xb"]}]}"#,
    ),
    (
        "points",
        r#"{"instructions":[
{"op":{"load":"JubjubPoint"},"outputs":["A","B"]},
{"op":{"load":"JubjubScalar"},"outputs":["k"]},
{"op":"add","inputs":["A","B"],"outputs":["C"]},
{"op":"neg","inputs":["C"],"outputs":["D"]},
{"op":"mul","inputs":["k","D"],"outputs":["G"]},
{"op":{"into_bytes":32},"inputs":["G"],"outputs":["gb"]},
{"op":{"from_bytes":"JubjubPoint"},"inputs":["gb"],"outputs":["G2"]},
{"op":"assert_equal","inputs":["G","G2"]},
{"op":"publish","inputs":["G","Jubjub:IDENTITY"]}]}"#,
    ),
];

/// number of inner proofs per aggregated proof (1 is unusable on the pinned tree: the honest
/// `aggregate_proofs` itself panics at light_aggregator.rs `lagrange_commitments[..bases1.len()]`)
const AGG_N: usize = 2;
const AGG_K_SRS: u32 = 14;

#[derive(Clone, Debug, Default, Serialize, Deserialize)]
struct AggSeed {
    /// srs size the aggregator was initialised with
    k_srs: u32,
    inner_rel: usize,
    /// public inputs of the one inner proof (field reprs, hex)
    inner_pi: Vec<String>,
    meta_proof: String,
}

#[derive(Clone, Debug, Default, Serialize, Deserialize)]
struct Corpus {
    seed: u64,
    k_max: u32,
    pv_p: String,
    pv_r: String,
    /// second, unrelated verifier parameter set (splice partner)
    pv2_p: String,
    pv2_r: String,
    /// full prover parameters of a tiny k (reported-only object)
    params_k: u32,
    params_p: String,
    params_r: String,
    rels: Vec<RelSeed>,
    zkir_json: Vec<(String, String)>,
    zkir_bin: Vec<(String, String)>,
    agg: Option<AggSeed>,
    build_secs: f64,
    notes: Vec<String>,
}

fn unhex(s: &str) -> Vec<u8> {
    hex::decode(s).unwrap_or_default()
}

fn srs_for(seed: u64, label: &str, k: u32) -> ParamsKZG<E> {
    ParamsKZG::<E>::unsafe_setup(k, rng_for(seed, label))
}

/// `ZkirRelation::read` wants `&'static str`; the program it returns owns all its data, so the
/// text is leaked for the call and reclaimed afterwards.
fn zkir_read_json(text: &str) -> Result<ZkirRelation, midnight_zkir::Error> {
    let leaked: &'static mut str = Box::leak(text.to_string().into_boxed_str());
    let ptr: *mut str = leaked;
    let r = catch_any(|| ZkirRelation::read(unsafe { &*ptr }));
    // reclaim (also on panic, which is re-raised below)
    unsafe { drop(Box::from_raw(ptr)) };
    match r {
        Ok(r) => r,
        Err(p) => std::panic::panic_any(p.message),
    }
}

fn build_agg(seed: u64, inner_idx: usize, k_srs: u32) -> Result<AggSeed, String> {
    use midnight_aggregator::light_aggregator::LightAggregator;
    let mut srs = srs_for(seed, "c16/srs/agg", k_srs);
    let rel = RelInner;
    let mut inner_srs = srs.clone();
    midnight_zk_stdlib::downsize_srs_for_relation(&mut inner_srs, &rel);
    let inner_vk = midnight_zk_stdlib::setup_vk(&inner_srs, &rel);
    let inner_pk = midnight_zk_stdlib::setup_pk(&rel, &inner_vk);
    let (inst, wit) = RelInner::case();
    let proof = midnight_zk_stdlib::prove::<RelInner, LightFS>(
        &inner_srs,
        &inner_pk,
        &rel,
        &inst,
        wit,
        rng_for(seed, "c16/agg/inner-proof"),
    )
    .map_err(|e| format!("inner proof: {e:?}"))?;
    let agg = LightAggregator::<AGG_N>::init(&mut srs, inner_vk.vk()).map_err(|e| format!("init: {e:?}"))?;
    let pis: [Vec<F>; AGG_N] = core::array::from_fn(|_| inst.to_vec());
    let proofs: [Vec<u8>; AGG_N] = core::array::from_fn(|_| proof.clone());
    let mut t = CircuitTranscript::<Blake>::init();
    agg.aggregate_proofs(&srs, &pis, &proofs, rng_for(seed, "c16/agg/rng"), &mut t)
        .map_err(|e| format!("aggregate: {e:?}"))?;
    let meta = t.finalize();
    let mut t = CircuitTranscript::<Blake>::init_from_bytes(&meta);
    agg.verify(&srs.verifier_params(), &pis, &mut t).map_err(|e| format!("honest meta proof rejected: {e:?}"))?;
    Ok(AggSeed {
        k_srs,
        inner_rel: inner_idx,
        inner_pi: inst.iter().map(|x| hx(x.to_repr().as_ref())).collect(),
        meta_proof: hx(&meta),
    })
}

fn build_corpus(seed: u64, with_agg: bool) -> Result<Corpus, String> {
    let t0 = std::time::Instant::now();
    let ops = all_ops();
    let mut c = Corpus { seed, ..Default::default() };
    // one toxic secret for every relation: the largest SRS is generated once and downsized
    let k_max = 13;
    c.k_max = k_max;
    let srs = srs_for(seed, "c16/srs/main", k_max);
    let pv = srs.verifier_params();
    let w = |f: SerdeFormat, pv: &ParamsVerifierKZG<E>| {
        let mut b = vec![];
        pv.write(&mut b, f).map(|_| hx(&b)).map_err(|e| e.to_string())
    };
    c.pv_p = w(SerdeFormat::Processed, &pv)?;
    c.pv_r = w(SerdeFormat::RawBytes, &pv)?;
    let small = srs_for(seed, "c16/srs/second", 3);
    let pv2 = small.verifier_params();
    c.pv2_p = w(SerdeFormat::Processed, &pv2)?;
    c.pv2_r = w(SerdeFormat::RawBytes, &pv2)?;
    c.params_k = 3;
    let wp = |f: SerdeFormat| {
        let mut b = vec![];
        small.write_custom(&mut b, f).map(|_| hx(&b)).map_err(|e| e.to_string())
    };
    c.params_p = wp(SerdeFormat::Processed)?;
    c.params_r = wp(SerdeFormat::RawBytes)?;

    use rayon::prelude::*;
    let rels: Vec<Result<RelSeed, String>> = ops
        .par_iter()
        .enumerate()
        .map(|(i, o)| {
            catch_any(|| (o.build)(&srs, seed, i < 2))
                .map_err(|p| format!("seed relation {} panicked: {} at {}", o.name, p.message, p.location))
                .and_then(|r| r)
        })
        .collect();
    for r in rels {
        c.rels.push(r?);
    }

    for (name, text) in ZKIR_SEEDS {
        let rel = catch_any(|| zkir_read_json(text))
            .map_err(|p| format!("zkir seed {name} panicked: {}", p.message))?
            .map_err(|e| format!("zkir seed {name} does not load: {e:?}"))?;
        let circuit = MidnightCircuit::new(&rel, Value::unknown(), Value::unknown(), Some(8));
        match catch_any(|| dummy_synthesize_run(&circuit)) {
            Ok(Ok(())) => {}
            Ok(Err(e)) => return Err(format!("zkir seed {name} does not compile: {e:?}")),
            Err(p) => return Err(format!("zkir seed {name} panics in synthesis: {}", p.message)),
        }
        c.zkir_json.push((name.to_string(), text.to_string()));
        let mut b = vec![];
        rel.write_relation(&mut b).map_err(|e| e.to_string())?;
        c.zkir_bin.push((name.to_string(), hx(&b)));
    }

    if with_agg {
        let inner_idx = ops.iter().position(|o| o.name == "inner").unwrap_or(0);
        match catch_any(|| build_agg(seed, inner_idx, AGG_K_SRS)) {
            Ok(Ok(a)) => c.agg = Some(a),
            Ok(Err(e)) => c.notes.push(format!("aggregated-proof seed not built: {e}")),
            Err(p) => c.notes.push(format!("aggregated-proof seed panicked: {} at {}", p.message, p.location)),
        }
    }
    c.build_secs = t0.elapsed().as_secs_f64();
    Ok(c)
}

// =============================================================================================
// 3. Targets, seeds, mutators
// =============================================================================================

/// (object name for signatures, is it reported-only?)
fn target_object(t: &str) -> &'static str {
    match t {
        "vk" => "MidnightVK",
        "pk" => "MidnightPK",
        "pv" => "ParamsVerifierKZG",
        "params" => "ParamsKZG",
        "arch" => "ZkStdLibArch",
        "proof" => "Proof",
        "cross" => "Proof",
        "zkir_json" => "ZkirRelation",
        "zkir_bin" => "ZkirRelation",
        "agg" => "AggregatedProof",
        _ => "?",
    }
}

/// proving keys, full prover parameters and the explicitly unchecked format are local / trusted
/// artefacts: exercised and reported, never violations
fn reported_only(t: &str, f: &str) -> bool {
    t == "pk" || t == "params" || f == "U"
}

fn fmt_name(t: &str, f: &str) -> String {
    match (t, f) {
        ("zkir_json", _) => "json".into(),
        ("zkir_bin", _) => "bincode".into(),
        ("arch", _) => "bincode".into(),
        (_, "P") => "Processed".into(),
        (_, "R") => "RawBytes".into(),
        (_, "U") => "RawBytesUnchecked".into(),
        ("proof", h) | ("cross", h) | ("agg", h) => h.to_string(),
        _ => f.to_string(),
    }
}

fn serde_fmt(f: &str) -> SerdeFormat {
    match f {
        "P" => SerdeFormat::Processed,
        "U" => SerdeFormat::RawBytesUnchecked,
        _ => SerdeFormat::RawBytes,
    }
}

/// number of seed objects of a target
fn n_seeds(c: &Corpus, t: &str) -> usize {
    match t {
        "vk" | "arch" | "proof" => c.rels.len(),
        "pk" => c.rels.iter().filter(|r| r.pk_r.is_some()).count(),
        "pv" => 2,
        "params" => 1,
        "zkir_json" => c.zkir_json.len(),
        "zkir_bin" => c.zkir_bin.len(),
        "agg" => c.agg.is_some() as usize,
        _ => 0,
    }
}

fn seed_name(c: &Corpus, t: &str, s: usize) -> String {
    match t {
        "vk" | "arch" | "proof" | "pk" => c.rels.get(s).map(|r| r.name.clone()).unwrap_or_default(),
        "zkir_json" => c.zkir_json.get(s).map(|r| r.0.clone()).unwrap_or_default(),
        "zkir_bin" => c.zkir_bin.get(s).map(|r| r.0.clone()).unwrap_or_default(),
        "pv" => ["main", "second"].get(s).unwrap_or(&"?").to_string(),
        _ => "0".into(),
    }
}

/// the honest encoding of seed `s` of target `t` in format / hash `f`
fn seed_bytes(c: &Corpus, t: &str, f: &str, s: usize) -> Vec<u8> {
    let checked_or_raw = |p: &str, r: &str| if f == "P" { unhex(p) } else { unhex(r) };
    match t {
        "vk" => c.rels.get(s).map(|r| checked_or_raw(&r.vk_p, &r.vk_r)).unwrap_or_default(),
        "pk" => c
            .rels
            .get(s)
            .map(|r| checked_or_raw(r.pk_p.as_deref().unwrap_or(""), r.pk_r.as_deref().unwrap_or("")))
            .unwrap_or_default(),
        "pv" => {
            if s == 0 {
                checked_or_raw(&c.pv_p, &c.pv_r)
            } else {
                checked_or_raw(&c.pv2_p, &c.pv2_r)
            }
        }
        "params" => checked_or_raw(&c.params_p, &c.params_r),
        "arch" => c.rels.get(s).map(|r| unhex(&r.arch)).unwrap_or_default(),
        "proof" => c
            .rels
            .get(s)
            .map(|r| if f == "poseidon" { unhex(&r.proof_poseidon) } else { unhex(&r.proof_blake) })
            .unwrap_or_default(),
        "zkir_json" => c.zkir_json.get(s).map(|r| r.1.as_bytes().to_vec()).unwrap_or_default(),
        "zkir_bin" => c.zkir_bin.get(s).map(|r| unhex(&r.1)).unwrap_or_default(),
        "agg" => c.agg.as_ref().map(|a| unhex(&a.meta_proof)).unwrap_or_default(),
        _ => vec![],
    }
}

fn lcp(a: &[u8], b: &[u8]) -> usize {
    a.iter().zip(b.iter()).take_while(|(x, y)| x == y).count()
}

/// start offsets of plausible u32 count / length fields: neighbourhoods of runs of >= 2 zero bytes
/// (a count such as `2d 00 00 00` or `00 00 02 00` stands out from field / point data)
fn count_field_candidates(enc: &[u8], cap: usize) -> Vec<usize> {
    let mut out = vec![];
    let mut i = 0;
    while i < enc.len() {
        if enc[i] == 0 {
            let a = i;
            while i < enc.len() && enc[i] == 0 {
                i += 1;
            }
            let b = i;
            if b - a >= 2 {
                for o in [a as i64 - 1, a as i64 - 2, b as i64 - 3, b as i64 - 2] {
                    if o >= 0 && (o as usize) + 4 <= enc.len() && !out.contains(&(o as usize)) {
                        out.push(o as usize);
                    }
                }
            }
        } else {
            i += 1;
        }
        if out.len() >= cap {
            break;
        }
    }
    out
}

/// byte positions whose every value is tried: header region (found by diffing the two format
/// encodings of the same object / encodings of different objects), count-field candidates,
/// flag bytes of elements (first / last byte of every element of a proof, from the probed layout)
fn byte_positions(c: &Corpus, t: &str, f: &str, s: usize, thorough: bool) -> Vec<usize> {
    let enc = seed_bytes(c, t, f, s);
    let mut pos: Vec<usize> = vec![];
    let add = |p: usize, pos: &mut Vec<usize>| {
        if p < enc.len() && !pos.contains(&p) {
            pos.push(p);
        }
    };
    match t {
        "vk" | "pk" | "params" => {
            // header = longest common prefix of the Processed and RawBytes encodings of the same
            // object (the first point differs between the formats), capped
            let other = seed_bytes(c, t, if f == "P" { "R" } else { "P" }, s);
            let h = lcp(&enc, &other).min(64);
            for p in 0..h {
                add(p, &mut pos);
            }
            let cap = if t == "vk" { 8 } else { 10 };
            for o in count_field_candidates(&enc, cap) {
                for p in o..o + 4 {
                    add(p, &mut pos);
                }
            }
            // flag bytes of the first and the last element
            for p in [h, h + 1, enc.len().saturating_sub(1), enc.len().saturating_sub(2)] {
                add(p, &mut pos);
            }
        }
        "pv" | "arch" => {
            for p in 0..enc.len() {
                if thorough || t == "arch" || p < 6 || p + 6 >= enc.len() || p % 24 == 0 {
                    add(p, &mut pos);
                }
            }
        }
        "proof" => {
            let layout = c.rels.get(s).map(|r| r.layout.clone()).unwrap_or_default();
            let mut off = 0usize;
            let mut seen: BTreeMap<usize, usize> = BTreeMap::new();
            let n = layout.len();
            for (i, len) in layout.iter().enumerate() {
                let k = seen.entry(*len).or_insert(0);
                *k += 1;
                // quick: the first three elements of each size and the last two elements
                if thorough || *k <= 3 || i + 2 >= n {
                    add(off, &mut pos);
                    add(off + len - 1, &mut pos);
                }
                off += len;
            }
        }
        "zkir_bin" => {
            for p in 0..enc.len() {
                add(p, &mut pos);
            }
        }
        "agg" => {
            for o in count_field_candidates(&enc, 12) {
                for p in o..o + 4 {
                    add(p, &mut pos);
                }
                // flag bytes of the element that follows the field
                add(o + 4, &mut pos);
            }
            add(enc.len().saturating_sub(1), &mut pos);
            add(enc.len().saturating_sub(32), &mut pos);
        }
        _ => {}
    }
    pos.sort();
    pos
}

/// header length of a key-like object: longest common prefix of its two format encodings
fn header_len(c: &Corpus, t: &str, f: &str, s: usize) -> usize {
    match t {
        "vk" | "pk" | "params" => {
            let a = seed_bytes(c, t, "P", s);
            let b = seed_bytes(c, t, "R", s);
            let _ = f;
            lcp(&a, &b).min(64)
        }
        _ => 0,
    }
}

const BOUNDARY_VALS: &[u8] = &[
    0, 1, 2, 3, 4, 5, 6, 7, 8, 0x0f, 0x10, 0x1f, 0x20, 0x21, 0x3f, 0x40, 0x7f, 0x80, 0x81, 0xbf, 0xc0, 0xe0, 0xfa,
    0xfb, 0xfc, 0xfd, 0xfe, 0xff,
];

/// count-bump candidates `(offset, elem_size, delta, big_endian)`: add `delta` to the u32 at
/// `offset` and duplicate / remove `|delta|` elements of `elem_size` bytes at the end of the list
/// that follows the field (so that the declared count and the data stay consistent)
fn count_bump_cases(enc: &[u8], t: &str) -> Vec<(usize, usize, i64, bool)> {
    let mut out = vec![];
    let elems: &[usize] = match t {
        "agg" | "proof" => &[48, 32],
        "vk" | "pk" | "params" => &[48, 96, 32],
        _ => &[],
    };
    for o in count_field_candidates(enc, 12) {
        for be in [false, true] {
            let raw: [u8; 4] = enc[o..o + 4].try_into().unwrap();
            let n = if be { u32::from_be_bytes(raw) } else { u32::from_le_bytes(raw) } as usize;
            for &e in elems {
                if n == 0 || n > 4096 || o + 4 + n * e > enc.len() {
                    continue;
                }
                for d in [1i64, 2, 3, 8, 32, 128, 1024, -1, -2] {
                    if d < 0 && (-d) as usize >= n {
                        continue;
                    }
                    out.push((o, e, d, be));
                }
            }
        }
    }
    out
}

fn apply_count_bump(enc: &[u8], case: (usize, usize, i64, bool)) -> Vec<u8> {
    let (o, e, d, be) = case;
    let raw: [u8; 4] = enc[o..o + 4].try_into().unwrap();
    let n = if be { u32::from_be_bytes(raw) } else { u32::from_le_bytes(raw) } as i64;
    let n2 = (n + d) as u32;
    let mut out = enc[..o].to_vec();
    out.extend_from_slice(&if be { n2.to_be_bytes() } else { n2.to_le_bytes() });
    let list_end = o + 4 + (n as usize) * e;
    if d > 0 {
        out.extend_from_slice(&enc[o + 4..list_end]);
        let last = &enc[list_end - e..list_end];
        for _ in 0..d {
            out.extend_from_slice(last);
        }
    } else {
        out.extend_from_slice(&enc[o + 4..list_end - ((-d) as usize) * e]);
    }
    out.extend_from_slice(&enc[list_end..]);
    out
}

/// one random mutation (flip / set / window / splice / append / delete / duplicate)
fn random_mutation(rng: &mut impl RngCore, enc: &[u8], partner: &[u8]) -> (Vec<u8>, String) {
    let mut v = enc.to_vec();
    let n = v.len().max(1);
    let kind = rng.gen_range(0..10u32);
    let desc;
    match kind {
        0 => {
            let p = rng.gen_range(0..n);
            let b = rng.gen_range(0..8);
            if !v.is_empty() {
                v[p] ^= 1 << b;
            }
            desc = format!("flip1@{p}.{b}");
        }
        1 => {
            let k = rng.gen_range(2..=8);
            let mut d = String::from("flips");
            for _ in 0..k {
                let p = rng.gen_range(0..n);
                let b = rng.gen_range(0..8);
                if !v.is_empty() {
                    v[p] ^= 1 << b;
                }
                d.push_str(&format!("@{p}.{b}"));
            }
            desc = d;
        }
        2 => {
            let p = rng.gen_range(0..n);
            let val = if rng.gen_bool(0.5) {
                BOUNDARY_VALS[rng.gen_range(0..BOUNDARY_VALS.len())]
            } else {
                rng.gen()
            };
            if !v.is_empty() {
                v[p] = val;
            }
            desc = format!("set@{p}={val}");
        }
        3 => {
            // overwrite a 4-byte window with a boundary u32
            let vals = [0u32, 1, 2, 0x7fff_ffff, 0x8000_0000, 0xffff_ffff, 0x0001_0000, 0x00ff_ffff];
            let x = vals[rng.gen_range(0..vals.len())];
            let be = rng.gen_bool(0.5);
            if v.len() >= 4 {
                let p = rng.gen_range(0..v.len() - 3);
                v[p..p + 4].copy_from_slice(&if be { x.to_be_bytes() } else { x.to_le_bytes() });
                desc = format!("u32@{p}={x:#x}{}", if be { "be" } else { "le" });
            } else {
                desc = "u32@-".into();
            }
        }
        4 => {
            // splice: prefix of this encoding, suffix of another valid encoding
            let a = rng.gen_range(0..=v.len());
            let b = if rng.gen_bool(0.5) { a.min(partner.len()) } else { rng.gen_range(0..=partner.len()) };
            v.truncate(a);
            v.extend_from_slice(&partner[b..]);
            desc = format!("splice[..{a}]+partner[{b}..]");
        }
        5 => {
            let k = rng.gen_range(1..=64);
            for _ in 0..k {
                v.push(rng.gen());
            }
            desc = format!("append{k}");
        }
        6 => {
            // append a copy of a chunk of the encoding itself (valid-looking elements)
            let l = [32usize, 48, 96, 4][rng.gen_range(0..4)].min(v.len());
            let p = if v.len() > l { rng.gen_range(0..v.len() - l) } else { 0 };
            let chunk = v[p..p + l].to_vec();
            v.extend_from_slice(&chunk);
            desc = format!("appendcopy[{p}..+{l}]");
        }
        7 => {
            let l = rng.gen_range(1..=96).min(v.len());
            let p = if v.len() > l { rng.gen_range(0..v.len() - l) } else { 0 };
            v.drain(p..p + l);
            desc = format!("delete[{p}..+{l}]");
        }
        8 => {
            let l = [1usize, 4, 32, 48, 96][rng.gen_range(0..5)].min(v.len());
            let p = if v.len() > l { rng.gen_range(0..v.len() - l) } else { 0 };
            let chunk = v[p..p + l].to_vec();
            let at = p + l;
            v.splice(at..at, chunk);
            desc = format!("dup[{p}..+{l}]");
        }
        _ => {
            // random window
            let l = rng.gen_range(1..=16).min(v.len());
            let p = if v.len() > l { rng.gen_range(0..v.len() - l) } else { 0 };
            for x in v[p..p + l].iter_mut() {
                *x = rng.gen();
            }
            desc = format!("noise[{p}..+{l}]");
        }
    }
    (v, desc)
}

const ZKIR_PARAMS: &[u64] = &[
    0,
    1,
    2,
    7,
    8,
    31,
    32,
    33,
    63,
    64,
    65,
    255,
    256,
    1000,
    4096,
    5000,
    8192,
    65535,
    65536,
    (1 << 31) - 1,
    1 << 31,
    (1 << 32) - 1,
    1 << 32,
    1 << 53,
    (1 << 63) - 1,
    1 << 63,
    u64::MAX,
];

const ZKIR_NAMES: &[&str] = &[
    "0",
    "1",
    "2",
    "ff",
    "0xff",
    "0xFFF",
    "",
    ":",
    "a:b:c",
    "Native:",
    "Native:0x01",
    "Native:-0x01",
    "Native:-",
    "Native:0x73eda753299d7d483339d80809a1d80553bda402fffe5bfeffffffff00000001",
    "Native:ffffffffffffffffffffffffffffffffffffffffffffffffffffffffffffffffff",
    "BigUint:",
    "BigUint:0x",
    "BigUint:0x10",
    "BigUint:0x0",
    "BigUint:-1",
    "Jubjub:GENERATOR",
    "Jubjub:IDENTITY",
    "Jubjub:",
    "Jubjub:0000000000000000000000000000000000000000000000000000000000000000",
    "Jubjub:0100000000000000000000000000000000000000000000000000000000000000",
    "Jubjub:ffffffffffffffffffffffffffffffffffffffffffffffffffffffffffffffff",
    "JubjubScalar:",
    "JubjubScalar:01",
    "JubjubScalar:ffffffffffffffffffffffffffffffffffffffffffffffffffffffffffffffff",
    "Bytes:00",
    "\u{0}",
    "é",
];

/// Grammar-aware mutations of a ZKIR JSON program. `huge` selects the parameter values that can
/// make the *compiler* do work proportional to the parameter (kept apart, few, own shard).
fn zkir_grammar_mutations(text: &str, part: u8) -> Vec<String> {
    let huge = part == 2;
    let mut out: Vec<String> = vec![];
    let Ok(root) = serde_json::from_str::<Json>(text) else { return out };
    let Some(instrs) = root.get("instructions").and_then(|x| x.as_array()).cloned() else { return out };
    let rebuild = |ins: Vec<Json>| json!({ "instructions": ins }).to_string();
    let params: Vec<u64> =
        ZKIR_PARAMS.iter().copied().filter(|p| if huge { *p > 8192 } else { *p <= 8192 }).collect();
    // names defined by the program
    let mut names: Vec<String> = vec![];
    for i in &instrs {
        if let Some(o) = i.get("outputs").and_then(|x| x.as_array()) {
            for n in o {
                if let Some(n) = n.as_str() {
                    names.push(n.to_string());
                }
            }
        }
    }
    for (idx, ins) in instrs.iter().enumerate() {
        let with = |f: &dyn Fn(&mut Json)| {
            let mut v = instrs.clone();
            f(&mut v[idx]);
            rebuild(v)
        };
        // parameter sweeps on parametrised operations (and on every operation as replacement)
        let op = ins.get("op").cloned().unwrap_or(Json::Null);
        let mut param_ops: Vec<Json> = vec![];
        for p in &params {
            if op.get("load").is_some() {
                param_ops.push(json!({"load": {"Bytes": p}}));
                param_ops.push(json!({"load": {"BigUint": p}}));
            }
            if op.get("into_bytes").is_some() {
                param_ops.push(json!({"into_bytes": p}));
            }
            if op.get("mod_exp").is_some() {
                param_ops.push(json!({"mod_exp": p}));
            }
            if op.get("from_bytes").is_some() {
                param_ops.push(json!({"from_bytes": {"BigUint": p}}));
                param_ops.push(json!({"from_bytes": {"Bytes": p}}));
            }
        }
        if part != 1 {
            for po in param_ops {
                out.push(with(&|i| i["op"] = po.clone()));
            }
        }
        if part != 1 {
            continue;
        }
        // unknown / ill-typed operations
        for bad in [
            json!("bogus"),
            json!({"bogus": 1}),
            json!({"load": "Nope"}),
            json!({"load": {"Bytes": -1}}),
            json!({"load": {"Bytes": 1.5}}),
            json!({"load": {"Bytes": "3"}}),
            json!({"load": {"BigUint": 4294967296u64}}),
            json!({"into_bytes": 18446744073709551615u64}),
            json!({"into_bytes": -1}),
            json!({"mod_exp": 1e30}),
            json!({"from_bytes": "Bool"}),
            json!({"from_bytes": "JubjubScalar"}),
            json!({"from_bytes": "JubjubPoint"}),
            json!({"load": "JubjubPoint", "publish": 1}),
            Json::Null,
            json!(7),
            json!([]),
            json!("Load"),
            json!("load"),
        ] {
            out.push(with(&|i| i["op"] = bad.clone()));
        }
        // every operation name in place of this one (type / arity confusion)
        for name in [
            "publish", "assert_equal", "assert_not_equal", "is_equal", "add", "sub", "mul", "neg", "inner_product",
            "affine_coordinates", "poseidon", "sha256", "sha512",
        ] {
            out.push(with(&|i| i["op"] = json!(name)));
        }
        for t in ["Bool", "Native", "JubjubPoint", "JubjubScalar"] {
            out.push(with(&|i| i["op"] = json!({"load": t})));
            out.push(with(&|i| i["op"] = json!({"from_bytes": t})));
        }
        for n in [0u64, 1, 31, 32, 33, 64] {
            out.push(with(&|i| i["op"] = json!({"into_bytes": n})));
        }
        // arity
        out.push(with(&|i| {
            i.as_object_mut().map(|o| o.remove("inputs"));
        }));
        out.push(with(&|i| {
            i.as_object_mut().map(|o| o.remove("outputs"));
        }));
        out.push(with(&|i| i["inputs"] = json!([])));
        out.push(with(&|i| i["outputs"] = json!([])));
        out.push(with(&|i| i["inputs"] = json!([1, 2])));
        out.push(with(&|i| i["outputs"] = json!("x")));
        out.push(with(&|i| {
            if let Some(a) = i.get_mut("inputs").and_then(|x| x.as_array_mut()) {
                a.push(json!("zz_undefined"));
            } else {
                i["inputs"] = json!(["zz_undefined"]);
            }
        }));
        out.push(with(&|i| {
            if let Some(a) = i.get_mut("inputs").and_then(|x| x.as_array_mut()) {
                a.pop();
            }
        }));
        out.push(with(&|i| {
            if let Some(a) = i.get_mut("outputs").and_then(|x| x.as_array_mut()) {
                if let Some(f) = a.first().cloned() {
                    a.push(f);
                }
            }
        }));
        // names colliding with constant syntax: as outputs and as inputs, every position
        let n_in = ins.get("inputs").and_then(|x| x.as_array()).map(|a| a.len()).unwrap_or(0);
        let n_out = ins.get("outputs").and_then(|x| x.as_array()).map(|a| a.len()).unwrap_or(0);
        for name in ZKIR_NAMES {
            for k in 0..n_in {
                out.push(with(&|i| i["inputs"][k] = json!(name)));
            }
            for k in 0..n_out.min(1) {
                // rename the definition and all later uses
                let mut v = instrs.clone();
                let old = v[idx]["outputs"][k].as_str().unwrap_or("").to_string();
                v[idx]["outputs"][k] = json!(name);
                for later in v.iter_mut().skip(idx + 1) {
                    if let Some(a) = later.get_mut("inputs").and_then(|x| x.as_array_mut()) {
                        for x in a.iter_mut() {
                            if x.as_str() == Some(&old) {
                                *x = json!(name);
                            }
                        }
                    }
                }
                out.push(rebuild(v));
            }
        }
        // other defined names in input positions (type confusion)
        for k in 0..n_in {
            for other in names.iter().take(12) {
                out.push(with(&|i| i["inputs"][k] = json!(other)));
            }
        }
    }
    if part == 1 {
        // appended instructions: every unary / binary operation applied to every defined name
        for a in names.iter().take(10) {
            let mut unary: Vec<Json> = vec![json!("neg"), json!("sha256"), json!("sha512"), json!("affine_coordinates"), json!("poseidon"), json!("publish")];
            for n in [0u64, 1, 8, 31, 32, 33, 64, 65, 1000] {
                unary.push(json!({"into_bytes": n}));
            }
            for t in ["Bool", "Native", "JubjubPoint", "JubjubScalar"] {
                unary.push(json!({"from_bytes": t}));
            }
            for n in [0u64, 8, 255, 256, 257] {
                unary.push(json!({"from_bytes": {"BigUint": n}}));
            }
            for op in unary {
                let outs: Json = if op == json!("publish") {
                    json!([])
                } else if op == json!("affine_coordinates") {
                    json!(["zz_o1", "zz_o2"])
                } else {
                    json!(["zz_o1"])
                };
                let mut v = instrs.clone();
                v.push(json!({"op": op, "inputs": [a], "outputs": outs}));
                out.push(rebuild(v));
            }
            for b in names.iter().take(6) {
                for op in [json!("add"), json!("sub"), json!("mul"), json!("is_equal"), json!("assert_equal"), json!("assert_not_equal"), json!("inner_product"), json!({"mod_exp": 0}), json!({"mod_exp": 1}), json!({"mod_exp": 65537})] {
                    let outs: Json = if op == json!("assert_equal") || op == json!("assert_not_equal") { json!([]) } else { json!(["zz_o1"]) };
                    let mut v = instrs.clone();
                    v.push(json!({"op": op, "inputs": [a, b], "outputs": outs}));
                    out.push(rebuild(v));
                }
            }
        }
        // structural
        out.push("{}".into());
        out.push("[]".into());
        out.push("null".into());
        out.push("{\"instructions\":null}".into());
        out.push("{\"instructions\":{}}".into());
        out.push("{\"instructions\":[null]}".into());
        out.push("{\"instructions\":[[]]}".into());
        out.push("{\"instructions\":[{}]}".into());
        out.push("{\"instructions\":[{\"op\":\"publish\",\"inputs\":[\"x\"]},".into());
        out.push(format!("{{\"instructions\":{}1{}}}", "[".repeat(200), "]".repeat(200)));
        out.push(format!("{{\"instructions\":{}1{}}}", "[".repeat(100_000), "]".repeat(100_000)));
        out.push(format!("{}", "{\"a\":".repeat(50_000)));
        out.push(format!("{{\"instructions\":[{{\"op\":{{\"load\":\"Native\"}},\"outputs\":[\"{}\"]}}]}}", "n".repeat(200_000)));
        out.push(format!(
            "{{\"instructions\":[{{\"op\":{{\"load\":\"Native\"}},\"outputs\":[{}]}}]}}",
            (0..3000).map(|i| format!("\"v{i}\"")).collect::<Vec<_>>().join(",")
        ));
        out.push("{\"instructions\":[{\"op\":{\"load\":{\"Bytes\":18446744073709551616}},\"outputs\":[\"x\"]}]}".into());
        out.push("{\"instructions\":[{\"op\":{\"load\":{\"Bytes\":1e400}},\"outputs\":[\"x\"]}]}".into());
        out.push("{\"instructions\":[{\"op\":{\"load\":\"Native\"},\"op\":\"publish\",\"outputs\":[\"x\"]}]}".into());
        out.push("{\"instructions\":[],\"instructions\":[]}".into());
        // constants of every type published / compared without any load
        for name in ZKIR_NAMES {
            out.push(json!({"instructions":[{"op":"publish","inputs":[name]}]}).to_string());
            out.push(json!({"instructions":[{"op":"assert_equal","inputs":[name, name]}]}).to_string());
            out.push(json!({"instructions":[{"op":{"into_bytes":32},"inputs":[name],"outputs":["o"]}]}).to_string());
            out.push(json!({"instructions":[{"op":"neg","inputs":[name],"outputs":["o"]}]}).to_string());
        }
    }
    out
}

/// Materialises case `idx` of a unit: the untrusted input bytes and a short description.
fn materialize(c: &Corpus, body: &Json, idx: u64) -> (Vec<u8>, String) {
    let t = body["t"].as_str().unwrap_or("");
    let f = body["f"].as_str().unwrap_or("");
    let s = body["s"].as_u64().unwrap_or(0) as usize;
    // the unchecked reader is fed the RawBytes encoding
    let enc = seed_bytes(c, t, if f == "U" { "R" } else { f }, s);
    match body["m"].as_str().unwrap_or("") {
        "honest" => (enc, "honest".into()),
        "trunc" => {
            let stride = body["stride"].as_u64().unwrap_or(1).max(1);
            let n = ((idx * stride) as usize).min(enc.len());
            (enc[..n].to_vec(), format!("trunc@{n}"))
        }
        "trunc_at" => {
            let n = body["at"].as_array().and_then(|a| a.get(idx as usize)).and_then(|x| x.as_u64()).unwrap_or(0) as usize;
            let n = n.min(enc.len());
            (enc[..n].to_vec(), format!("trunc@{n}"))
        }
        "appendzero" => {
            let mut v = enc;
            v.push(0);
            (v, "append[00]".into())
        }
        "byte" => {
            let pos: Vec<usize> =
                body["pos"].as_array().map(|a| a.iter().filter_map(|x| x.as_u64()).map(|x| x as usize).collect()).unwrap_or_default();
            let vals: Vec<u8> = match body["vals"].as_array() {
                Some(a) => a.iter().filter_map(|x| x.as_u64()).map(|x| x as u8).collect(),
                None => (0..=255u8).collect(),
            };
            let nv = vals.len().max(1) as u64;
            let p = pos.get((idx / nv) as usize).copied().unwrap_or(0);
            let v = vals.get((idx % nv) as usize).copied().unwrap_or(0);
            let mut out = enc;
            if p < out.len() {
                out[p] = v;
            }
            (out, format!("byte@{p}={v}"))
        }
        "bdelta" => {
            let pos: Vec<usize> =
                body["pos"].as_array().map(|a| a.iter().filter_map(|x| x.as_u64()).map(|x| x as usize).collect()).unwrap_or_default();
            let p = pos.get((idx / 4) as usize).copied().unwrap_or(0);
            let mut out = enc;
            if p < out.len() {
                out[p] = match idx % 4 {
                    0 => out[p].wrapping_add(1),
                    1 => out[p].wrapping_sub(1),
                    2 => out[p] ^ 0x80,
                    _ => out[p] ^ 0x01,
                };
            }
            let v = out.get(p).copied().unwrap_or(0);
            (out, format!("byte@{p}={v}"))
        }
        "rand" => {
            let n = n_seeds(c, t).max(1);
            let mut rng = rng_for(c.seed, &format!("c16/rand/{t}/{f}/{s}/{idx}"));
            let ps = (s + 1 + rng.gen_range(0..n.max(2) - 1)) % n;
            let partner = seed_bytes(c, t, if f == "U" { "R" } else { f }, ps);
            let (mut v, mut d) = random_mutation(&mut rng, &enc, &partner);
            // stacked mutations now and then
            if rng.gen_bool(0.25) {
                let (v2, d2) = random_mutation(&mut rng, &v, &partner);
                v = v2;
                d = format!("{d};{d2}");
            }
            (v, d)
        }
        "cb" => {
            let cases = count_bump_cases(&enc, t);
            match cases.get(idx as usize) {
                Some(cs) => (apply_count_bump(&enc, *cs), format!("countbump@{}x{}{:+}{}", cs.0, cs.1, cs.2, if cs.3 { "be" } else { "le" })),
                None => (enc, "countbump-none".into()),
            }
        }
        "gram" | "gramp" | "gramhuge" => {
            let text = String::from_utf8_lossy(&enc).to_string();
            let all = zkir_grammar_mutations(&text, if body["m"] == "gramhuge" { 2 } else if body["m"] == "gramp" { 0 } else { 1 });
            let step = body["step"].as_u64().unwrap_or(1).max(1);
            match all.get((idx * step) as usize) {
                Some(x) => (x.as_bytes().to_vec(), format!("grammar#{}", idx * step)),
                None => (enc, "grammar-none".into()),
            }
        }
        "raw" => {
            let v = body["hex"].as_array().and_then(|a| a.get(idx as usize)).and_then(|x| x.as_str()).map(unhex).unwrap_or_default();
            (v, "raw".into())
        }
        _ => (enc, "?".into()),
    }
}

// =============================================================================================
// 4. Executing one case (child processes, --stage san and --replay share this code)
// =============================================================================================


// ---- independent curve-membership oracle for raw (uncompressed) BLS12-381 encodings ------------
// blst serialisation: big-endian coordinates; G1 = x || y (48 bytes each); G2 = x.c1 || x.c0 ||
// y.c1 || y.c0; the three top bits of the first byte are flags (0x80 compressed, 0x40 infinity).

fn bls_p() -> num_bigint::BigUint {
    num_bigint::BigUint::parse_bytes(
        b"1a0111ea397fe69a4b1ba7b6434bacd764774b84f38512bf6730d2a0f6b0f6241eabfffeb153ffffb9feffffffffaaab",
        16,
    )
    .unwrap()
}

/// `None`: not a plain uncompressed encoding (compressed flag set — handled by the re-encoding
/// oracle); `Some(b)`: b = "canonical coordinates of a point on E(Fp): y^2 = x^3 + 4, or infinity"
fn g1_raw_on_curve(slot: &[u8]) -> Option<bool> {
    use num_bigint::BigUint;
    if slot.len() != 96 || slot[0] & 0x80 != 0 {
        return None;
    }
    if slot[0] & 0x40 != 0 {
        return Some(slot[0] == 0x40 && slot[1..].iter().all(|b| *b == 0));
    }
    if slot[0] & 0x20 != 0 {
        return Some(false);
    }
    let p = bls_p();
    let x = BigUint::from_bytes_be(&slot[..48]);
    let y = BigUint::from_bytes_be(&slot[48..]);
    if x >= p || y >= p {
        return Some(false);
    }
    Some((&y * &y) % &p == (&x * &x * &x + 4u32) % &p)
}

/// same for E'(Fp2): y^2 = x^3 + 4(1+u), Fp2 = Fp[u]/(u^2+1)
fn g2_raw_on_curve(slot: &[u8]) -> Option<bool> {
    use num_bigint::BigUint;
    if slot.len() != 192 || slot[0] & 0x80 != 0 {
        return None;
    }
    if slot[0] & 0x40 != 0 {
        return Some(slot[0] == 0x40 && slot[1..].iter().all(|b| *b == 0));
    }
    if slot[0] & 0x20 != 0 {
        return Some(false);
    }
    let p = bls_p();
    let c = |i: usize| BigUint::from_bytes_be(&slot[48 * i..48 * (i + 1)]);
    let (x1, x0, y1, y0) = (c(0), c(1), c(2), c(3));
    if x0 >= p || x1 >= p || y0 >= p || y1 >= p {
        return Some(false);
    }
    // (a0 + a1 u)(b0 + b1 u) = (a0 b0 - a1 b1) + (a0 b1 + a1 b0) u
    let mul = |a: &(BigUint, BigUint), b: &(BigUint, BigUint)| -> (BigUint, BigUint) {
        let r0 = (&a.0 * &b.0 + &p * &p - &a.1 * &b.1) % &p;
        let r1 = (&a.0 * &b.1 + &a.1 * &b.0) % &p;
        (r0, r1)
    };
    let x = (x0, x1);
    let y = (y0, y1);
    let y2 = mul(&y, &y);
    let x3 = mul(&mul(&x, &x), &x);
    let rhs = ((x3.0 + 4u32) % &p, (x3.1 + 4u32) % &p);
    Some(y2 == rhs)
}

type Agg = midnight_aggregator::light_aggregator::LightAggregator<AGG_N>;

/// largest circuit size for which a loaded ZKIR program is also taken through key generation
const ZKIR_SETUP_MAX_K: u32 = 9;

struct Exec {
    c: Corpus,
    ops: Vec<RelOps>,
    pv: ParamsVerifierKZG<E>,
    vks: Vec<MidnightVK>,
    pis: Vec<Vec<F>>,
    small_srs: Option<ParamsKZG<E>>,
    agg: Option<(Agg, ParamsVerifierKZG<E>, [Vec<F>; AGG_N])>,
    agg_failed: bool,
    baselines: HashMap<String, usize>,
    /// quick tier: expensive follow-up stages run on a deterministic sample of the cases
    thorough: bool,
}

fn panic_ev(stage: &str, p: &PanicInfo) -> Json {
    json!({"k": "panic", "st": stage, "msg": p.message, "loc": p.location, "file": p.file})
}
fn count_ev(name: &str) -> Json {
    json!({"k": "count", "n": name})
}

fn felts(hexes: &[String]) -> Vec<F> {
    hexes
        .iter()
        .filter_map(|h| {
            let b = unhex(h);
            let mut repr = <F as PrimeField>::Repr::default();
            if b.len() != repr.as_ref().len() {
                return None;
            }
            repr.as_mut().copy_from_slice(&b);
            Option::<F>::from(F::from_repr(repr))
        })
        .collect()
}

impl Exec {
    /// deterministic 1-in-n sample keyed by the input (always true in the thorough tier)
    fn sampled(&self, input: &[u8], n: u64) -> bool {
        self.thorough || fnv(input) % n == 0
    }

    fn new(c: Corpus, thorough: bool) -> Result<Exec, String> {
        let ops = all_ops();
        let pv = ParamsVerifierKZG::<E>::read(&mut &unhex(&c.pv_r)[..], SerdeFormat::RawBytes)
            .map_err(|e| format!("honest verifier params do not decode: {e}"))?;
        let mut vks = vec![];
        let mut pis = vec![];
        for r in &c.rels {
            vks.push(
                MidnightVK::read(&mut &unhex(&r.vk_r)[..], SerdeFormat::RawBytes)
                    .map_err(|e| format!("honest vk of {} does not decode: {e}", r.name))?,
            );
            pis.push(felts(&r.pi));
        }
        Ok(Exec { c, ops, pv, vks, pis, small_srs: None, agg: None, agg_failed: false, baselines: HashMap::new(), thorough })
    }

    fn proof_of(&self, s: usize, h: HashKind) -> Vec<u8> {
        match h {
            HashKind::Blake => unhex(&self.c.rels[s].proof_blake),
            HashKind::Poseidon => unhex(&self.c.rels[s].proof_poseidon),
        }
    }

    fn batch(&self, h: HashKind, vks: &[MidnightVK], pis: &[Vec<F>], proofs: &[Vec<u8>]) -> Result<(), Error> {
        match h {
            HashKind::Blake => midnight_zk_stdlib::batch_verify::<Blake>(&self.pv, vks, pis, proofs),
            HashKind::Poseidon => midnight_zk_stdlib::batch_verify::<Pose>(&self.pv, vks, pis, proofs),
        }
    }

    /// verification of the fixed valid proofs of relation `s` under `vk` (both hashes, single and
    /// batched); every panic is an event, every acceptance is counted
    fn verify_with_vk(&self, s: usize, vk: &MidnightVK, changed: bool, full: bool, ev: &mut Vec<Json>, stage: &mut dyn FnMut(&str)) {
        stage("verify");
        for h in [HashKind::Blake, HashKind::Poseidon] {
            if h == HashKind::Poseidon && !full {
                continue;
            }
            let proof = self.proof_of(s, h);
            match catch_any(|| (self.ops[s].verify)(&self.pv, vk, &proof, h)) {
                Err(p) => ev.push(panic_ev("verify", &p)),
                Ok(Ok(())) => ev.push(json!({"k": "accepted", "st": "verify", "changed": changed})),
                Ok(Err(_)) => {}
            }
        }
        stage("batch");
        let pi = self.pis[s].clone();
        let pb = self.proof_of(s, HashKind::Blake);
        match catch_any(|| {
            self.batch(HashKind::Blake, &[vk.clone(), self.vks[s].clone()], &[pi.clone(), pi.clone()], &[pb.clone(), pb.clone()])
        }) {
            Err(p) => ev.push(panic_ev("batch", &p)),
            Ok(Ok(())) => ev.push(json!({"k": "accepted", "st": "batch", "changed": changed})),
            Ok(Err(_)) => {}
        }
        if !full {
            return;
        }
        let pp = self.proof_of(s, HashKind::Poseidon);
        match catch_any(|| self.batch(HashKind::Poseidon, &[vk.clone()], &[pi.clone()], &[pp.clone()])) {
            Err(p) => ev.push(panic_ev("batch", &p)),
            Ok(Ok(())) => ev.push(json!({"k": "accepted", "st": "batch", "changed": changed})),
            Ok(Err(_)) => {}
        }
    }

    fn compile(&mut self, rel: &ZkirRelation, with_setup: bool, ev: &mut Vec<Json>, stage: &mut dyn FnMut(&str)) {
        stage("compile");
        let r = catch_any(|| {
            let circuit = MidnightCircuit::new(rel, Value::unknown(), Value::unknown(), Some(8));
            dummy_synthesize_run(&circuit)
        });
        match r {
            Err(p) => {
                ev.push(panic_ev("compile", &p));
                return;
            }
            Ok(Err(_)) => {
                ev.push(count_ev("compile_err"));
                return;
            }
            Ok(Ok(())) => ev.push(count_ev("compile_ok")),
        }
        if !with_setup {
            return;
        }
        stage("setup");
        let k = match catch_any(|| midnight_zk_stdlib::cost_model(rel).k) {
            Err(p) => {
                ev.push(panic_ev("setup", &p));
                return;
            }
            Ok(k) => k,
        };
        if k > ZKIR_SETUP_MAX_K {
            ev.push(count_ev("setup_skipped_large_k"));
            return;
        }
        if self.small_srs.is_none() {
            self.small_srs = Some(srs_for(self.c.seed, "c16/srs/zkir", ZKIR_SETUP_MAX_K));
        }
        let mut srs = self.small_srs.clone().unwrap();
        match catch_any(|| {
            midnight_zk_stdlib::downsize_srs_for_relation(&mut srs, rel);
            let vk = midnight_zk_stdlib::setup_vk(&srs, rel);
            vk.k()
        }) {
            Err(p) => ev.push(panic_ev("setup", &p)),
            Ok(_) => ev.push(count_ev("setup_ok")),
        }
    }

    fn ensure_agg(&mut self) -> bool {
        if self.agg.is_some() {
            return true;
        }
        if self.agg_failed {
            return false;
        }
        let Some(a) = self.c.agg.clone() else {
            self.agg_failed = true;
            return false;
        };
        let seed = self.c.seed;
        let built = catch_any(|| {
            let mut srs = srs_for(seed, "c16/srs/agg", a.k_srs);
            let pv = srs.verifier_params();
            let mut inner_srs = srs.clone();
            midnight_zk_stdlib::downsize_srs_for_relation(&mut inner_srs, &RelInner);
            let inner_vk = midnight_zk_stdlib::setup_vk(&inner_srs, &RelInner);
            Agg::init(&mut srs, inner_vk.vk()).map(|g| (g, pv))
        });
        match built {
            Ok(Ok((g, pv))) => {
                let pi = felts(&a.inner_pi);
                self.agg = Some((g, pv, core::array::from_fn(|_| pi.clone())));
                true
            }
            _ => {
                self.agg_failed = true;
                false
            }
        }
    }

    /// Runs target `t` (format / hash `f`, seed object `s`) on `input`.
    fn run_input(&mut self, t: &str, f: &str, s: usize, input: &[u8], stage: &mut dyn FnMut(&str)) -> CaseReport {
        let mut ev: Vec<Json> = vec![];
        let mut ok = false;
        let honest_enc = seed_bytes(&self.c, t, if f == "U" { "R" } else { f }, s);
        let honest = || honest_enc.clone();
        match t {
            "vk" => {
                let mut cur = Cursor::new(input);
                match catch_any(|| MidnightVK::read(&mut cur, serde_fmt(f))) {
                    Err(p) => ev.push(panic_ev("decode", &p)),
                    Ok(Err(_)) => {}
                    Ok(Ok(vk)) => {
                        ok = true;
                        let consumed = cur.position() as usize;
                        let mut changed = input[..consumed.min(input.len())] != honest()[..];
                        let wf = if f == "P" { SerdeFormat::Processed } else { SerdeFormat::RawBytes };
                        match catch_any(|| {
                            let mut b = vec![];
                            vk.write(&mut b, wf).map(|_| b)
                        }) {
                            Err(p) => ev.push(panic_ev("reencode", &p)),
                            Ok(Err(_)) => ev.push(count_ev("reencode_err")),
                            Ok(Ok(b)) => {
                                changed = b != honest();
                                if f != "U" && b[..] != input[..consumed.min(input.len())] {
                                    let d = lcp(&b, &input[..consumed.min(input.len())]);
                                    ev.push(json!({"k": "noncanon", "consumed": consumed, "first_diff": d, "reencoded_len": b.len(),
                                        "input_byte": input.get(d), "reencoded_byte": b.get(d)}));
                                }
                            }
                        }
                        // curve membership of every decoded commitment: the repository's own
                        // predicates (C11 checks them) on the decoded points, and an independent
                        // big-integer check of the raw coordinates
                        if f != "U" {
                            use midnight_curves::{CurveAffine, G1Affine};
                            let pts: Vec<G1Projective> = vk
                                .vk()
                                .fixed_commitments()
                                .iter()
                                .chain(vk.vk().permutation().commitments().iter())
                                .copied()
                                .collect();
                            for (i, pt) in pts.iter().enumerate() {
                                let a = G1Affine::from(*pt);
                                let on: bool = a.is_on_curve().into();
                                let tf: bool = a.is_torsion_free().into();
                                // [r-1]P = -P  <=>  [r]P = O   (scalar arithmetic is mod r)
                                let tf2 = *pt * (-F::ONE) == -*pt;
                                if !on {
                                    ev.push(json!({"k": "membership", "what": "off-curve", "point_index": i}));
                                } else if f == "P" && (!tf || !tf2) {
                                    ev.push(json!({"k": "membership", "what": "outside-subgroup", "point_index": i}));
                                }
                            }
                        }
                        if f == "R" {
                            let h = header_len(&self.c, "vk", "R", s);
                            let mut off = h;
                            while off + 96 <= consumed.min(input.len()) {
                                if g1_raw_on_curve(&input[off..off + 96]) == Some(false) {
                                    ev.push(json!({"k": "membership", "what": "off-curve-or-noncanonical-coordinates", "offset": off}));
                                }
                                off += 96;
                            }
                        }
                        if s < self.vks.len() {
                            let full = self.sampled(input, 4);
                            self.verify_with_vk(s, &vk, changed, full, &mut ev, stage);
                        }
                    }
                }
            }
            "pk" => {
                let mut cur = Cursor::new(input);
                match catch_any(|| (self.ops[s].read_pk)(&mut cur, serde_fmt(f))) {
                    Err(p) => ev.push(panic_ev("decode", &p)),
                    Ok(Err(_)) => {}
                    Ok(Ok(())) => ok = true,
                }
            }
            "pv" => {
                let mut cur = Cursor::new(input);
                match catch_any(|| ParamsVerifierKZG::<E>::read(&mut cur, serde_fmt(f))) {
                    Err(p) => ev.push(panic_ev("decode", &p)),
                    Ok(Err(_)) => {}
                    Ok(Ok(pv)) => {
                        ok = true;
                        let consumed = (cur.position() as usize).min(input.len());
                        let wf = if f == "P" { SerdeFormat::Processed } else { SerdeFormat::RawBytes };
                        let mut changed = true;
                        match catch_any(|| {
                            let mut b = vec![];
                            pv.write(&mut b, wf).map(|_| b)
                        }) {
                            Err(p) => ev.push(panic_ev("reencode", &p)),
                            Ok(Err(_)) => ev.push(count_ev("reencode_err")),
                            Ok(Ok(b)) => {
                                changed = b != seed_bytes(&self.c, "pv", if f == "U" { "R" } else { f }, 0);
                                if f != "U" && b[..] != input[..consumed] {
                                    let d = lcp(&b, &input[..consumed]);
                                    ev.push(json!({"k": "noncanon", "consumed": consumed, "first_diff": d, "reencoded_len": b.len(),
                                        "input_byte": input.get(d), "reencoded_byte": b.get(d)}));
                                }
                            }
                        }
                        if f == "R" && consumed >= 192 && g2_raw_on_curve(&input[..192]) == Some(false) {
                            ev.push(json!({"k": "membership", "what": "off-curve-or-noncanonical-coordinates", "offset": 0}));
                        }
                        stage("verify");
                        let proof = self.proof_of(0, HashKind::Blake);
                        match catch_any(|| (self.ops[0].verify)(&pv, &self.vks[0], &proof, HashKind::Blake)) {
                            Err(p) => ev.push(panic_ev("verify", &p)),
                            Ok(Ok(())) => ev.push(json!({"k": "accepted", "st": "verify", "changed": changed})),
                            Ok(Err(_)) => {}
                        }
                    }
                }
            }
            "params" => {
                let mut cur = Cursor::new(input);
                match catch_any(|| ParamsKZG::<E>::read_custom(&mut cur, serde_fmt(f))) {
                    Err(p) => ev.push(panic_ev("decode", &p)),
                    Ok(Err(_)) => {}
                    Ok(Ok(_)) => ok = true,
                }
            }
            "arch" => {
                let mut cur = Cursor::new(input);
                match catch_any(|| ZkStdLibArch::read(&mut cur)) {
                    Err(p) => ev.push(panic_ev("decode", &p)),
                    Ok(Err(_)) => {}
                    Ok(Ok(arch)) => {
                        ok = true;
                        let consumed = (cur.position() as usize).min(input.len());
                        let mut b = vec![];
                        if arch.write(&mut b).is_ok() && b[..] != input[..consumed] {
                            ev.push(count_ev("arch_reencode_differs"));
                        }
                        if let Err(p) = catch_any(|| ZkStdLibArch::read_from_serialized_vk(&mut Cursor::new(input))) {
                            ev.push(panic_ev("decode", &p));
                        }
                        // use of a decoded descriptor outside decode/verify: reported, not a violation
                        stage("nb_points");
                        if let Err(p) = catch_any(|| arch.nb_points()) {
                            ev.push(panic_ev("nb_points", &p));
                        }
                    }
                }
            }
            "proof" => {
                let h = HashKind::parse(f);
                let changed = input != &honest()[..];
                match catch_any(|| (self.ops[s].verify)(&self.pv, &self.vks[s], input, h)) {
                    Err(p) => ev.push(panic_ev("verify", &p)),
                    Ok(Ok(())) => {
                        ok = true;
                        ev.push(json!({"k": "accepted", "st": "verify", "changed": changed}));
                    }
                    Ok(Err(_)) => {}
                }
                stage("batch");
                let pi = self.pis[s].clone();
                let honest_proof = self.proof_of(s, h);
                // two-member batch (accumulation path) on a sample, single-member batch otherwise
                let two = ok || self.sampled(input, 8);
                match catch_any(|| {
                    if two {
                        self.batch(h, &[self.vks[s].clone(), self.vks[s].clone()], &[pi.clone(), pi.clone()], &[input.to_vec(), honest_proof.clone()])
                    } else {
                        self.batch(h, &[self.vks[s].clone()], &[pi.clone()], &[input.to_vec()])
                    }
                }) {
                    Err(p) => ev.push(panic_ev("batch", &p)),
                    Ok(Ok(())) => ev.push(json!({"k": "accepted", "st": "batch", "changed": changed})),
                    Ok(Err(_)) => {}
                }
            }
            "zkir_json" => {
                if std::str::from_utf8(input).is_err() {
                    ev.push(count_ev("non_utf8_lossy"));
                }
                let text = String::from_utf8_lossy(input).to_string();
                match catch_any(|| zkir_read_json(&text)) {
                    Err(p) => ev.push(panic_ev("decode", &p)),
                    Ok(Err(_)) => {}
                    Ok(Ok(rel)) => {
                        ok = true;
                        let ws = input == &honest_enc[..] || (self.thorough && fnv(input) % 3 == 0) || (!self.thorough && fnv(input) % 8 == 0);
                        self.compile(&rel, ws, &mut ev, stage);
                    }
                }
            }
            "zkir_bin" => {
                let mut cur = Cursor::new(input);
                match catch_any(|| ZkirRelation::read_relation(&mut cur)) {
                    Err(p) => ev.push(panic_ev("decode", &p)),
                    Ok(Err(_)) => {}
                    Ok(Ok(rel)) => {
                        ok = true;
                        let consumed = (cur.position() as usize).min(input.len());
                        let mut b = vec![];
                        if rel.write_relation(&mut b).is_ok() && b[..] != input[..consumed] {
                            ev.push(json!({"k": "bin_reencode_differs", "consumed": consumed, "reencoded_len": b.len(), "reencoded_is_honest": b == honest()}));
                        }
                        let ws = input == &honest_enc[..] || (self.thorough && fnv(input) % 3 == 0) || (!self.thorough && fnv(input) % 8 == 0);
                        self.compile(&rel, ws, &mut ev, stage);
                    }
                }
            }
            "agg" => {
                if !self.ensure_agg() {
                    ev.push(count_ev("agg_unavailable"));
                } else {
                    let (agg, pv, pis) = self.agg.as_ref().unwrap();
                    let changed = input != &honest()[..];
                    match catch_any(|| {
                        let mut t = CircuitTranscript::<Blake>::init_from_bytes(input);
                        agg.verify(pv, pis, &mut t)
                    }) {
                        Err(p) => ev.push(panic_ev("verify", &p)),
                        Ok(Ok(())) => {
                            ok = true;
                            ev.push(json!({"k": "accepted", "st": "verify", "changed": changed}));
                        }
                        Ok(Err(_)) => {}
                    }
                }
            }
            _ => ev.push(count_ev("unknown_target")),
        }
        CaseReport { ok, input_len: input.len(), events: ev }
    }

    /// proof of relation `a` against the honest key of relation `b`
    fn run_cross(&mut self, a: usize, b: usize, stage: &mut dyn FnMut(&str)) -> CaseReport {
        let mut ev = vec![];
        let mut ok = false;
        let mut len = 0;
        for h in [HashKind::Blake, HashKind::Poseidon] {
            let proof = self.proof_of(a, h);
            len = proof.len();
            match catch_any(|| (self.ops[a].verify)(&self.pv, &self.vks[b], &proof, h)) {
                Err(p) => ev.push(panic_ev("verify", &p)),
                Ok(Ok(())) => {
                    ok = true;
                    ev.push(json!({"k": "accepted", "st": "verify", "changed": a != b}));
                }
                Ok(Err(_)) => {}
            }
            stage("batch");
            let pi = self.pis[a].clone();
            match catch_any(|| self.batch(h, &[self.vks[b].clone()], &[pi.clone()], &[proof.clone()])) {
                Err(p) => ev.push(panic_ev("batch", &p)),
                Ok(Ok(())) => ev.push(json!({"k": "accepted", "st": "batch", "changed": a != b})),
                Ok(Err(_)) => {}
            }
        }
        CaseReport { ok, input_len: len, events: ev }
    }

    fn run_unit_case(&mut self, body: &Json, idx: u64, stage: &mut dyn FnMut(&str)) -> CaseReport {
        let t = body["t"].as_str().unwrap_or("").to_string();
        let f = body["f"].as_str().unwrap_or("").to_string();
        let s = body["s"].as_u64().unwrap_or(0) as usize;
        if t == "cross" {
            let n = self.c.rels.len().max(1);
            return self.run_cross((idx as usize / n) % n, idx as usize % n, stage);
        }
        let (input, _) = materialize(&self.c, body, idx);
        self.run_input(&t, &f, s, &input, stage)
    }
}

impl ChildRunner for Exec {
    fn baseline(&mut self, unit: &Unit) -> usize {
        let t = unit.body["t"].as_str().unwrap_or("").to_string();
        let f = unit.body["f"].as_str().unwrap_or("").to_string();
        let s = unit.body["s"].as_u64().unwrap_or(0) as usize;
        let key = format!("{t}/{f}/{s}");
        if let Some(b) = self.baselines.get(&key) {
            return *b;
        }
        let peak = if t == "cross" {
            // one warm-up (lazy statics), then the measured honest run
            let _ = self.run_cross(0, 0, &mut |_| {});
            tot::measure(|| self.run_cross(0, 0, &mut |_| {})).1.peak
        } else {
            let enc = seed_bytes(&self.c, &t, if f == "U" { "R" } else { &f }, s);
            let _ = self.run_input(&t, &f, s, &enc, &mut |_| {});
            tot::measure(|| self.run_input(&t, &f, s, &enc, &mut |_| {})).1.peak
        };
        self.baselines.insert(key, peak);
        peak
    }
    fn run(&mut self, unit: &Unit, idx: u64, stage: &mut dyn FnMut(&str)) -> CaseReport {
        self.run_unit_case(&unit.body, idx, stage)
    }
}

// =============================================================================================
// 5. Parent: plan, signatures, aggregation, confirmation, report
// =============================================================================================

fn api_of(t: &str, stage: &str) -> &'static str {
    match (stage, t) {
        ("verify", "agg") => "LightAggregator::verify",
        ("verify", _) => "midnight_zk_stdlib::verify",
        ("batch", _) => "midnight_zk_stdlib::batch_verify",
        ("compile", _) => "MidnightCircuit::synthesize",
        ("setup", _) => "midnight_zk_stdlib::setup_vk",
        ("nb_points", _) => "ZkStdLibArch::nb_points",
        (_, "vk") => "MidnightVK::read",
        (_, "pk") => "MidnightPK::read",
        (_, "pv") => "ParamsVerifierKZG::read",
        (_, "params") => "ParamsKZG::read_custom",
        (_, "arch") => "ZkStdLibArch::read",
        (_, "zkir_json") => "ZkirRelation::read",
        (_, "zkir_bin") => "ZkirRelation::read_relation",
        (_, "agg") => "LightAggregator::verify",
        (_, "proof") | (_, "cross") => "midnight_zk_stdlib::verify",
        _ => "?",
    }
}

/// A stable word per distinct root cause, chosen after reading the panic site; anything not
/// listed falls back to the message with digits masked.
fn shape_of(file: &str, msg: &str) -> String {
    let m = msg;
    let known: &[(&str, &str, &str)] = &[
        // (file suffix, message fragment, shape)
        ("zk_stdlib/src/lib.rs", "out of range for slice of length", "ZkStdLib::configure nr_pow2range_cols>=5"),
        ("zk_stdlib/src/lib.rs", "must enable jubjub", "jubjub constant without jubjub chip"),
        ("circuits/src/field/decomposition/pow2range.rs", "range-check columns", "Pow2RangeChip::configure nr_pow2range_cols>=NB_ARITH_COLS"),
        ("proofs/src/poly/domain.rs", "extended_k <= F::S", "EvaluationDomain::new extended_k>S"),
        ("proofs/src/plonk/verifier.rs", "index out of bounds", "fixed_commitments[column] count != cs"),
        ("aggregator/src/light_aggregator.rs", "out of range for slice of length", "lagrange_commitments[..n] n from proof"),
        ("zkir/src/instructions/operations/into_bytes.rs", "out of range for slice", "IntoBytes(n) on BigUint bytes[n..]"),
        ("zkir/src/instructions/operations/load.rs", "chunk size must be non-zero", "Load Bytes(0) chunks(0)"),
        ("circuits/src/biguint/biguint_gadget.rs", "subtract with overflow", "assign_bounded nb_bits=0"),
        ("circuits/src/biguint/biguint_gadget.rs", "normalize: overflow", "normalize payload_bound>=NUM_BITS"),
        ("circuits/src/field/native/native_gadget.rs", "assigned_to_le_bytes", "IntoBytes(n>32) on Native"),
        ("circuits/src/ecc/curves.rs", "part of the subgroup", "into_subgroup on non-subgroup Jubjub constant"),
        ("circuits/src/field/decomposition/cpu_utils.rs", "cannot be represented with the given limb_sizes", "decompose constant wider than limb_sizes"),
    ];
    for (f, frag, shape) in known {
        if file.ends_with(f) && m.contains(frag) {
            return shape.to_string();
        }
    }
    let mut out = String::new();
    let mut last_hash = false;
    for ch in m.chars() {
        if ch.is_ascii_digit() {
            if !last_hash {
                out.push('#');
            }
            last_hash = true;
        } else {
            last_hash = false;
            out.push(if ch == '\n' { ' ' } else { ch });
        }
        if out.len() >= 56 {
            break;
        }
    }
    out.trim().to_string()
}

fn panic_signature(t: &str, f: &str, stage: &str, file: &str, msg: &str) -> String {
    let object = target_object(t);
    let in_repo = in_repo(file);
    // an allocation sized by an untrusted length that exceeds isize::MAX panics instead of
    // allocating: same root cause as the Alloc verdict
    if !in_repo && msg == "capacity overflow" {
        return format!("C16/{object}/{}/alloc@{} unbounded-allocation", fmt_name(t, f), api_of(t, stage));
    }
    let site = if in_repo {
        repo_file(file)
    } else if msg.contains("Point should be part of the subgroup") {
        // `expect` on a CtOption: the panic location is inside the `subtle` crate
        "circuits/src/ecc/curves.rs".to_string()
    } else {
        api_of(t, stage).to_string()
    };
    let format_specific = site.starts_with("curves/") || site.ends_with("utils/helpers.rs");
    let fmt = if format_specific { fmt_name(t, f) } else { "any".to_string() };
    let kind = match (stage, t) {
        ("verify" | "batch", "vk" | "pv") => "verify-panic",
        ("compile" | "setup", _) => "compile-panic",
        ("reencode", _) => "reencode-panic",
        ("nb_points", _) => "use-panic",
        _ => "panic",
    };
    let fmt = if kind == "compile-panic" { "any".to_string() } else { fmt };
    format!("C16/{object}/{fmt}/{kind}@{site} {}", shape_of(&site, msg))
}

const F8_SIG: &str = "C16/ZkirRelation/bincode/honest-rejected@zkir/src/zkir.rs read_relation decodes (Program,usize)";

#[derive(Clone, Debug)]
struct Cand {
    signature: String,
    what: String,
    witness: Json,
    count: u64,
    reported_only: bool,
    /// (mutator rank, input length): smaller is the better witness
    input_len: usize,
}

fn mutator_rank(m: &str) -> usize {
    match m {
        "honest" | "appendzero" => 0,
        "byte" | "bdelta" => 1,
        "trunc" | "trunc_at" => 2,
        "gram" | "gramp" | "gramhuge" => 3,
        "cb" => 4,
        _ => 5,
    }
}

struct Aggr<'a> {
    c: &'a Corpus,
    units: HashMap<u64, Json>,
    rep: Report,
    matrix: BTreeMap<String, BTreeMap<String, BTreeMap<String, u64>>>,
    cands: BTreeMap<String, Cand>,
    reported: BTreeMap<String, u64>,
    honest_ok: BTreeMap<String, bool>,
    appendzero: BTreeMap<usize, (bool, bool)>,
    max_peak_over_bound: f64,
    max_peak: usize,
    hangs: u64,
    time_us: BTreeMap<String, u64>,
    /// signatures seen per (unit, idx) — used by the confirmation pass
    last_sigs: Vec<String>,
}

impl<'a> Aggr<'a> {
    fn new(c: &'a Corpus, rep: Report) -> Self {
        Aggr {
            c,
            units: HashMap::new(),
            rep,
            matrix: BTreeMap::new(),
            cands: BTreeMap::new(),
            reported: BTreeMap::new(),
            honest_ok: BTreeMap::new(),
            appendzero: BTreeMap::new(),
            max_peak_over_bound: 0.0,
            max_peak: 0,
            hangs: 0,
            time_us: BTreeMap::new(),
            last_sigs: vec![],
        }
    }

    fn witness(&self, body: &Json, idx: u64, extra: Json) -> (Json, usize) {
        let t = body["t"].as_str().unwrap_or("");
        let f = body["f"].as_str().unwrap_or("");
        let s = body["s"].as_u64().unwrap_or(0) as usize;
        if t == "cross" {
            let n = self.c.rels.len().max(1);
            let (a, b) = ((idx as usize / n) % n, idx as usize % n);
            return (
                json!({"target": "cross", "proof_of": self.c.rels[a].name, "vk_of": self.c.rels[b].name, "a": a, "b": b, "idx": idx, "detail": extra}),
                0,
            );
        }
        let (input, desc) = materialize(self.c, body, idx);
        let w = json!({
            "target": t,
            "object": target_object(t),
            "format": fmt_name(t, f),
            "f": f,
            "seed_object": seed_name(self.c, t, s),
            "s": s,
            "mutation": desc,
            "input_len": input.len(),
            "input_hex": if input.len() <= 200_000 { hx(&input) } else { format!("<{} bytes; regenerate from mutation>", input.len()) },
            "input_utf8": if t == "zkir_json" && input.len() <= 4000 { Json::String(String::from_utf8_lossy(&input).to_string()) } else { Json::Null },
            "unit": body,
            "idx": idx,
            "detail": extra,
        });
        (w, mutator_rank(body["m"].as_str().unwrap_or("")) * 100_000_000 + input.len())
    }

    fn candidate(&mut self, sig: String, what: String, body: &Json, idx: u64, extra: Json, reported_only: bool) {
        self.last_sigs.push(sig.clone());
        if reported_only {
            *self.reported.entry(sig).or_insert(0) += 1;
            return;
        }
        if let Some((count, cur_len)) = self.cands.get(&sig).map(|c| (c.count, c.input_len)) {
            // keep the first witness, but prefer a strictly shorter input (looked for among the
            // first occurrences only: materialising a witness is not free)
            if count < 40 {
                let (w, len) = self.witness(body, idx, extra);
                if len < cur_len && len > 0 {
                    self.cands.insert(sig.clone(), Cand { signature: sig.clone(), what, witness: w, count, reported_only, input_len: len });
                }
            }
            if let Some(c) = self.cands.get_mut(&sig) {
                c.count += 1;
            }
            return;
        }
        let (w, len) = self.witness(body, idx, extra);
        self.cands.insert(sig.clone(), Cand { signature: sig, what, witness: w, count: 1, reported_only, input_len: len });
    }

    fn take(&mut self, r: CaseResult) {
        self.last_sigs.clear();
        let Some(body) = self.units.get(&r.unit).cloned() else { return };
        let t = body["t"].as_str().unwrap_or("").to_string();
        let f = body["f"].as_str().unwrap_or("").to_string();
        let s = body["s"].as_u64().unwrap_or(0) as usize;
        let m = body["m"].as_str().unwrap_or("").to_string();
        let ro = reported_only(&t, &f);
        let class = format!("{}/{}{}", target_object(&t), fmt_name(&t, &f), if ro { " (reported-only)" } else { "" });
        self.rep.eval();
        if m != "honest" {
            self.rep.nontrivial_hash(fnv(format!("{t}/{f}/{s}/{m}/{}/{}", r.unit, r.idx).as_bytes()));
        }
        *self.matrix.entry(class.clone()).or_default().entry(m.clone()).or_default().entry(r.verdict.tag().to_string()).or_insert(0) += 1;
        *self.time_us.entry(format!("{class} {m}")).or_insert(0) += r.micros;
        self.max_peak = self.max_peak.max(r.peak);
        if r.input_len > 0 {
            let bound = tot::alloc_bound(r.input_len, r.baseline) as f64;
            let ratio = r.peak as f64 / bound;
            if ratio > self.max_peak_over_bound {
                self.max_peak_over_bound = ratio;
            }
        }
        if m == "honest" {
            self.honest_ok.insert(format!("{t}/{f}/{s}"), matches!(r.verdict, Verdict::Ok));
        }
        if m == "appendzero" {
            let is_honest = r.events.iter().any(|e| e["k"] == "bin_reencode_differs" && e["reencoded_is_honest"] == true);
            self.appendzero.insert(s, (matches!(r.verdict, Verdict::Ok), is_honest));
        }
        let stage_of_death = r.stage.clone();
        match &r.verdict {
            Verdict::Ok | Verdict::Err => {}
            Verdict::Panic(p) => {
                let st = if stage_of_death.is_empty() { "decode" } else { &stage_of_death };
                let sig = panic_signature(&t, &f, st, &p.file, &p.message);
                let what = format!("{} panicked (uncaught stage {st}): {} at {}", api_of(&t, st), p.message, p.location);
                self.candidate(sig, what, &body, r.idx, json!({"panic": {"message": p.message, "location": p.location}, "stage": st}), ro || st == "nb_points");
            }
            Verdict::Abort { signal, stderr_tail } => {
                let st = if stage_of_death.is_empty() { "decode" } else { &stage_of_death };
                let shape = if stderr_tail.contains("overflowed its stack") { "stack-overflow".to_string() } else { format!("signal-{signal}") };
                let kind = if st == "compile" || st == "setup" { "compile-abort" } else { "abort" };
                let sig = format!("C16/{}/{}/{kind}@{} {shape}", target_object(&t), if kind == "compile-abort" { "any".into() } else { fmt_name(&t, &f) }, api_of(&t, st));
                let what = format!("process died in {} (stage {st}, {shape})", api_of(&t, st));
                self.candidate(sig, what, &body, r.idx, json!({"signal": signal, "stage": st, "stderr_tail": stderr_tail}), ro);
            }
            Verdict::Alloc { peak, largest, input_len, bound, aborted } => {
                let st = if stage_of_death.is_empty() { "decode" } else { &stage_of_death };
                // circuit size legitimately grows with declared sizes: compile-stage blow-ups are
                // reported, not violations
                let compile = st == "compile" || st == "setup";
                let sig = format!("C16/{}/{}/alloc@{} unbounded-allocation", target_object(&t), fmt_name(&t, &f), api_of(&t, if compile { st } else { "decode" }));
                let what = format!(
                    "{}: peak live bytes {peak} (largest request {largest}) for an input of {input_len} bytes, bound {bound}{}",
                    api_of(&t, st),
                    if *aborted { "; allocator refused the request and the process aborted" } else { "" }
                );
                self.candidate(sig, what, &body, r.idx, json!({"peak": peak, "largest": largest, "bound": bound, "aborted": aborted, "stage": st, "honest_peak": r.baseline}), ro || compile);
            }
            Verdict::Hang => {
                self.hangs += 1;
                let (_, desc) = if t == "cross" { (vec![], "cross".to_string()) } else { materialize(self.c, &body, r.idx) };
                self.rep.inconclusive(&format!("fence fired: {class} {m} {desc} stage {stage_of_death}"));
            }
        }
        for e in &r.events {
            match e["k"].as_str().unwrap_or("") {
                "panic" => {
                    let st = e["st"].as_str().unwrap_or("decode");
                    let file = e["file"].as_str().unwrap_or("?");
                    let msg = e["msg"].as_str().unwrap_or("");
                    let loc = e["loc"].as_str().unwrap_or("?");
                    let sig = panic_signature(&t, &f, st, file, msg);
                    let what = format!("{} panicked on {}: {msg} at {loc}", api_of(&t, st), if st == "decode" { "untrusted bytes" } else { "a successfully decoded object" });
                    // allocation sized by a *declared* circuit size in the compile stage: reported only
                    let compile_alloc = sig.contains("/alloc@") && (st == "compile" || st == "setup");
                    self.candidate(sig, what, &body, r.idx, json!({"panic": {"message": msg, "location": loc}, "stage": st}), ro || st == "nb_points" || compile_alloc);
                }
                "noncanon" => {
                    let ib = e["input_byte"].as_u64().unwrap_or(0);
                    let rb = e["reencoded_byte"].as_u64().unwrap_or(0);
                    let (site, shape) = if f == "R" && ib & 0x80 != 0 && rb & 0x80 == 0 && (t == "vk" || t == "pv") {
                        (
                            if t == "vk" { "curves/src/bls12_381/g1.rs" } else { "curves/src/bls12_381/g2.rs" }.to_string(),
                            "from_uncompressed accepts compressed-flag encoding",
                        )
                    } else {
                        (api_of(&t, "decode").to_string(), "re-encoding differs from input")
                    };
                    let sig = format!("C16/{}/{}/noncanonical-accepted@{site} {shape}", target_object(&t), fmt_name(&t, &f));
                    let what = format!(
                        "{} accepted bytes that are not the encoding of the decoded object (first difference at offset {}: input byte {ib:#04x}, canonical byte {rb:#04x})",
                        api_of(&t, "decode"),
                        e["first_diff"]
                    );
                    self.candidate(sig, what, &body, r.idx, e.clone(), ro);
                }
                "membership" => {
                    let whatk = e["what"].as_str().unwrap_or("off-curve");
                    let site = if t == "pv" { "curves/src/bls12_381/g2.rs" } else { "curves/src/bls12_381/g1.rs" };
                    let sig = format!("C16/{}/{}/invalid-point-accepted@{site} {whatk}", target_object(&t), fmt_name(&t, &f));
                    let what = format!("{} returned an object containing a point that is {whatk}", api_of(&t, "decode"));
                    self.candidate(sig, what, &body, r.idx, e.clone(), ro);
                }
                "accepted" => {
                    if e["changed"] == true {
                        self.rep.count(&format!("accepted_under_changed_input[{class}]"));
                    } else {
                        self.rep.count(&format!("accepted_unchanged[{class}]"));
                    }
                }
                "bin_reencode_differs" => {
                    self.rep.count("zkir_bincode_reencode_differs");
                    if e["reencoded_is_honest"] == true {
                        self.last_sigs.push(F8_SIG.to_string());
                    }
                }
                "count" => self.rep.count(&format!("{}[{class}]", e["n"].as_str().unwrap_or("?"))),
                _ => {}
            }
        }
        if self.rep.samples.len() < self.rep.max_samples && m != "honest" && (r.idx % 97 == 3 || !matches!(r.verdict, Verdict::Err)) {
            let (_, desc) = if t == "cross" { (vec![], format!("cross#{}", r.idx)) } else { materialize(self.c, &body, r.idx) };
            self.rep.sample(json!({"class": class, "seed_object": seed_name(self.c, &t, s), "mutation": desc, "verdict": r.verdict.tag(), "peak_live_bytes": r.peak, "input_len": r.input_len}));
        }
    }
}

struct Plan {
    units: Vec<Unit>,
    /// shard class of each unit: "main" | "agg" | "huge" | "heavy"
    class: Vec<&'static str>,
}

impl Plan {
    fn push(&mut self, class: &'static str, lo: u64, hi: u64, body: Json) {
        if hi <= lo {
            return;
        }
        let id = self.units.len() as u64;
        self.units.push(Unit { id, lo, hi, body });
        self.class.push(class);
    }
}

#[derive(Clone, Copy, PartialEq)]
enum ByteMode {
    /// every position x all 256 values
    All,
    /// header positions x 256, the remaining positions x boundary values and +-1 / bit deltas
    HeaderAll,
    /// every position x boundary values and deltas
    Boundary,
    /// every position x a handful of small values (reported-only heavy objects)
    Small,
}

const SMALL_VALS: &[u8] = &[0, 1, 2, 3, 4, 5, 8, 16, 0x7f, 0x80, 0xff];

fn push_bytes(p: &mut Plan, c: &Corpus, class: &'static str, t: &str, f: &str, s: usize, mode: ByteMode, thorough: bool) {
    let pos = byte_positions(c, t, f, s, thorough);
    let h = header_len(c, t, f, s);
    let mk = |m: &str, pos: &[usize], vals: Option<&[u8]>| {
        let mut b = json!({"t": t, "f": f, "s": s, "m": m, "pos": pos});
        if let Some(v) = vals {
            b["vals"] = json!(v);
        }
        b
    };
    match mode {
        ByteMode::All => p.push(class, 0, pos.len() as u64 * 256, mk("byte", &pos, None)),
        ByteMode::HeaderAll => {
            let (hd, rest): (Vec<usize>, Vec<usize>) = pos.iter().partition(|x| **x < h);
            p.push(class, 0, hd.len() as u64 * 256, mk("byte", &hd, None));
            p.push(class, 0, (rest.len() * BOUNDARY_VALS.len()) as u64, mk("byte", &rest, Some(BOUNDARY_VALS)));
            p.push(class, 0, rest.len() as u64 * 4, mk("bdelta", &rest, None));
        }
        ByteMode::Boundary => {
            p.push(class, 0, (pos.len() * BOUNDARY_VALS.len()) as u64, mk("byte", &pos, Some(BOUNDARY_VALS)));
            p.push(class, 0, pos.len() as u64 * 4, mk("bdelta", &pos, None));
        }
        ByteMode::Small => {
            p.push(class, 0, (pos.len() * SMALL_VALS.len()) as u64, mk("byte", &pos, Some(SMALL_VALS)));
        }
    }
}

fn make_plan(c: &Corpus, thorough: bool) -> Plan {
    let mut p = Plan { units: vec![], class: vec![] };
    let rand_per_class: u64 = if thorough { 100_000 } else { 2_000 };
    let body = |t: &str, f: &str, s: usize, m: &str| json!({"t": t, "f": f, "s": s, "m": m});
    let strided = |t: &str, f: &str, s: usize, stride: u64| {
        let mut b = json!({"t": t, "f": f, "s": s, "m": "trunc"});
        b["stride"] = json!(stride);
        b
    };
    let nrel = c.rels.len();

    // ---- MidnightVK (checked formats; the unchecked reader is reported-only, small budget) -----
    for f in ["P", "R", "U"] {
        for s in 0..nrel {
            let enc = seed_bytes(c, "vk", if f == "U" { "R" } else { f }, s);
            p.push("main", 0, 1, body("vk", f, s, "honest"));
            if f != "U" {
                let stride = if thorough || s == 0 || s == 1 || s + 1 == nrel { 1 } else { 5 };
                p.push("main", 0, enc.len() as u64 / stride + 1, strided("vk", f, s, stride));
                let mode = if thorough { ByteMode::All } else if s == 0 || s == 3 { ByteMode::HeaderAll } else { ByteMode::Boundary };
                push_bytes(&mut p, c, "main", "vk", f, s, mode, thorough);
                p.push("main", 0, count_bump_cases(&enc, "vk").len() as u64, body("vk", f, s, "cb"));
                p.push("main", 0, (rand_per_class / (2 * nrel as u64)).max(1), body("vk", f, s, "rand"));
            } else {
                let stride = if thorough { 5 } else { 53 };
                p.push("main", 0, enc.len() as u64 / stride, strided("vk", f, s, stride));
                push_bytes(&mut p, c, "main", "vk", f, s, if thorough { ByteMode::Boundary } else { ByteMode::Small }, thorough);
                p.push("main", 0, (rand_per_class / (20 * nrel as u64)).max(1), body("vk", f, s, "rand"));
            }
        }
    }
    // ---- ParamsVerifierKZG --------------------------------------------------------------------
    for f in ["P", "R", "U"] {
        for s in 0..2 {
            let enc = seed_bytes(c, "pv", if f == "U" { "R" } else { f }, s);
            p.push("main", 0, 1, body("pv", f, s, "honest"));
            p.push("main", 0, enc.len() as u64 + 1, body("pv", f, s, "trunc"));
            let mode = if f == "U" { ByteMode::Small } else if thorough { ByteMode::All } else { ByteMode::Boundary };
            push_bytes(&mut p, c, "main", "pv", f, s, mode, thorough);
            let share = if f == "U" { rand_per_class / 20 } else { rand_per_class } / 4;
            p.push("main", 0, share.max(1), body("pv", f, s, "rand"));
        }
    }
    // ---- ZkStdLibArch -------------------------------------------------------------------------
    for s in 0..nrel {
        let enc = seed_bytes(c, "arch", "-", s);
        p.push("main", 0, 1, body("arch", "-", s, "honest"));
        p.push("main", 0, enc.len() as u64 + 1, body("arch", "-", s, "trunc"));
        push_bytes(&mut p, c, "main", "arch", "-", s, if thorough || s == 0 || s == 3 { ByteMode::All } else { ByteMode::Boundary }, thorough);
        p.push("main", 0, (rand_per_class / nrel as u64).max(1), body("arch", "-", s, "rand"));
    }
    // ---- proofs (both transcript hashes) and proofs against keys of other circuits ------------
    for f in ["blake2b", "poseidon"] {
        for s in 0..nrel {
            let enc = seed_bytes(c, "proof", f, s);
            p.push("main", 0, 1, body("proof", f, s, "honest"));
            let favoured = s == 0 || s == 1 || s + 1 == nrel;
            let stride = if thorough {
                1
            } else if f == "blake2b" {
                if favoured { 1 } else { 7 }
            } else if s == 0 {
                1
            } else if favoured {
                5
            } else {
                11
            };
            p.push("main", 0, enc.len() as u64 / stride + 1, strided("proof", f, s, stride));
            // flag bytes of the first elements of each kind: all values in thorough; flag bytes of
            // every element: boundary values
            if thorough {
                push_bytes(&mut p, c, "main", "proof", f, s, ByteMode::All, false);
                push_bytes(&mut p, c, "main", "proof", f, s, ByteMode::Boundary, true);
            } else {
                push_bytes(&mut p, c, "main", "proof", f, s, ByteMode::Boundary, false);
            }
            p.push("main", 0, (rand_per_class / (2 * nrel as u64)).max(1), body("proof", f, s, "rand"));
        }
    }
    p.push("main", 0, (nrel * nrel) as u64, json!({"t": "cross", "f": "blake2b", "s": 0, "m": "cross"}));
    // ---- ZKIR programs ------------------------------------------------------------------------
    for s in 0..c.zkir_json.len() {
        let enc = seed_bytes(c, "zkir_json", "-", s);
        let text = String::from_utf8_lossy(&enc).to_string();
        p.push("main", 0, 1, body("zkir_json", "-", s, "honest"));
        p.push("main", 0, enc.len() as u64 + 1, body("zkir_json", "-", s, "trunc"));
        let n_par = zkir_grammar_mutations(&text, 0).len() as u64;
        p.push("main", 0, n_par, body("zkir_json", "-", s, "gramp"));
        let n_gram = zkir_grammar_mutations(&text, 1).len() as u64;
        let mut b = body("zkir_json", "-", s, "gram");
        let step = if thorough { 1 } else { (n_gram / 450).max(1) };
        b["step"] = json!(step);
        p.push("main", 0, n_gram / step, b);
        let n_huge = zkir_grammar_mutations(&text, 2).len() as u64;
        let mut b = body("zkir_json", "-", s, "gramhuge");
        let step = if thorough { (n_huge / 24).max(1) } else { (n_huge / 6).max(1) };
        b["step"] = json!(step);
        b["fence"] = json!("short");
        p.push("huge", 0, n_huge / step, b);
        p.push("main", 0, (rand_per_class / c.zkir_json.len() as u64).max(1), body("zkir_json", "-", s, "rand"));
    }
    for s in 0..c.zkir_bin.len() {
        let enc = seed_bytes(c, "zkir_bin", "-", s);
        p.push("main", 0, 1, body("zkir_bin", "-", s, "honest"));
        p.push("main", 0, 1, body("zkir_bin", "-", s, "appendzero"));
        p.push("main", 0, enc.len() as u64 + 1, body("zkir_bin", "-", s, "trunc"));
        push_bytes(&mut p, c, "main", "zkir_bin", "-", s, if thorough { ByteMode::All } else { ByteMode::Boundary }, thorough);
        p.push("main", 0, (rand_per_class / c.zkir_bin.len() as u64).max(1), body("zkir_bin", "-", s, "rand"));
    }
    // ---- aggregated proofs --------------------------------------------------------------------
    if c.agg.is_some() {
        let enc = seed_bytes(c, "agg", "blake2b", 0);
        p.push("agg", 0, 1, body("agg", "blake2b", 0, "honest"));
        let stride = if thorough { 1 } else { 24 };
        p.push("agg", 0, enc.len() as u64 / stride + 1, strided("agg", "blake2b", 0, stride));
        push_bytes(&mut p, c, "agg", "agg", "blake2b", 0, if thorough { ByteMode::All } else { ByteMode::Boundary }, thorough);
        p.push("agg", 0, count_bump_cases(&enc, "agg").len() as u64, body("agg", "blake2b", 0, "cb"));
        p.push("agg", 0, if thorough { 6_000 } else { 300 }, body("agg", "blake2b", 0, "rand"));
    }
    // ---- reported-only: proving keys, full prover parameters ----------------------------------
    for f in ["P", "R", "U"] {
        for s in 0..n_seeds(c, "pk") {
            let enc = seed_bytes(c, "pk", if f == "U" { "R" } else { f }, s);
            p.push("heavy", 0, 1, body("pk", f, s, "honest"));
            let mut at: Vec<u64> = (0..40u64.min(enc.len() as u64)).collect();
            for o in count_field_candidates(&enc, 6) {
                for d in 0..6 {
                    at.push((o + d) as u64);
                }
            }
            let steps = if thorough { 100 } else { 12 };
            for i in 0..steps {
                at.push((enc.len() as u64 * i) / steps);
            }
            for d in 0..(if thorough { 100 } else { 12 }) {
                at.push((enc.len() as u64).saturating_sub(d));
            }
            at.sort();
            at.dedup();
            let mut b = body("pk", f, s, "trunc_at");
            b["at"] = json!(at);
            p.push("heavy", 0, at.len() as u64, b);
            push_bytes(&mut p, c, "heavy", "pk", f, s, if thorough { ByteMode::Boundary } else { ByteMode::Small }, thorough);
            let ncb = count_bump_cases(&enc, "pk").len() as u64;
            p.push("heavy", 0, if thorough { ncb } else { ncb.min(40) }, body("pk", f, s, "cb"));
            p.push("heavy", 0, if thorough { 1000 } else { 40 }, body("pk", f, s, "rand"));
        }
        let enc = seed_bytes(c, "params", if f == "U" { "R" } else { f }, 0);
        p.push("heavy", 0, 1, body("params", f, 0, "honest"));
        let stride = if thorough { 1 } else { 29 };
        p.push("heavy", 0, enc.len() as u64 / stride + 1, strided("params", f, 0, stride));
        push_bytes(&mut p, c, "heavy", "params", f, 0, if thorough { ByteMode::All } else { ByteMode::Boundary }, thorough);
        p.push("heavy", 0, if thorough { 3000 } else { 100 }, body("params", f, 0, "rand"));
    }
    p
}

fn planned_cases(p: &Plan) -> u64 {
    p.units.iter().map(|u| u.cases()).sum()
}

/// Splits the plan into shards: aggregated-proof units (expensive start-up) into few shards, the
/// parameter-explosion units into their own shard, everything else interleaved for load balance.
fn shards_of(p: &Plan, children: usize, thorough: bool) -> Vec<Vec<Unit>> {
    let pick = |cl: &str| -> Vec<Unit> {
        p.units.iter().zip(p.class.iter()).filter(|(_, c)| **c == cl).map(|(u, _)| u.clone()).collect()
    };
    let total = |v: &Vec<Unit>| v.iter().map(|u| u.cases()).sum::<u64>();
    let mut shards = vec![];
    let agg = pick("agg");
    if !agg.is_empty() {
        let n = if thorough { 4 } else { 2 };
        shards.extend(tot::shard_units(agg.clone(), total(&agg) / n + 1));
    }
    let huge = pick("huge");
    if !huge.is_empty() {
        let n = if thorough { 8 } else { 4 };
        shards.extend(tot::shard_units(huge.clone(), total(&huge) / n + 1));
    }
    let heavy = pick("heavy");
    if !heavy.is_empty() {
        shards.extend(tot::shard_units(heavy.clone(), total(&heavy) / 6 + 1));
    }
    let main = pick("main");
    // chop into small pieces, then deal them round-robin so that every shard sees every class
    let piece = (total(&main) / (children as u64 * 40) + 1).max(50);
    let pieces = tot::shard_units(main, piece);
    let n_sh = children * 4;
    let mut dealt: Vec<Vec<Unit>> = vec![vec![]; n_sh];
    for (i, pc) in pieces.into_iter().enumerate() {
        dealt[i % n_sh].extend(pc);
    }
    shards.extend(dealt.into_iter().filter(|s| !s.is_empty()));
    shards
}

fn write_corpus(c: &Corpus, dir: &Path) -> Result<std::path::PathBuf, String> {
    let path = dir.join("corpus.json");
    std::fs::write(&path, serde_json::to_vec(c).map_err(|e| e.to_string())?).map_err(|e| e.to_string())?;
    Ok(path)
}

fn parent_cfg(ctx: &Ctx, scratch: &Path, corpus: &Path, children: usize) -> tot::ParentCfg {
    tot::ParentCfg {
        max_children: children,
        rlimit_as: tot::DEFAULT_RLIMIT_AS,
        fence_secs: ctx.tier.pick(60, 300),
        short_fence_secs: ctx.tier.pick(30, 60),
        scratch: scratch.to_path_buf(),
        child_args: vec![
            "--seed".into(),
            ctx.seed.to_string(),
            "--tier".into(),
            ctx.tier.name().into(),
            "--corpus".into(),
            corpus.display().to_string(),
            "--evidence".into(),
            "/dev/null".into(),
        ],
        child_env: vec![("RAYON_NUM_THREADS".into(), "2".into()), ("RUST_BACKTRACE".into(), "0".into())],
        max_restarts_per_shard: 5_000,
    }
}

const RULE: &str = "cases = honest encodings of every verifier-facing object (MidnightVK of 6 relations in Processed/RawBytes, ParamsVerifierKZG, ZkStdLibArch, proofs under Blake2b and Poseidon transcripts, ZKIR programs as JSON and bincode, aggregated proofs) x mutators {every truncation point, header/length/count/flag bytes x values, count-bump with element duplication/removal, random flips/splices/appends/deletes, grammar-aware JSON edits, proofs against keys of other circuits}; each case runs in a child process under RLIMIT_AS with a counting allocator; a case is non-trivial iff its input is a mutated (not the honest) encoding that was executed to a verdict; distinctness by (object, format, seed object, mutator, index)";

/// Runs the confirmation pass: each candidate violation is re-executed alone in a fresh child
/// from its self-contained witness; a candidate that does not reproduce becomes inconclusive.
fn confirm_and_report(ag: &mut Aggr, cfg: &tot::ParentCfg) {
    let cands: Vec<Cand> = ag.cands.values().cloned().collect();
    let base = 1_000_000u64;
    let mut shards = vec![];
    for (i, cd) in cands.iter().enumerate() {
        let w = &cd.witness;
        let body = if w["target"] == "cross" {
            json!({"t": "cross", "f": "blake2b", "s": 0, "m": "cross"})
        } else {
            let hex_in = w["input_hex"].as_str().unwrap_or("");
            if hex_in.starts_with('<') {
                w["unit"].clone()
            } else {
                json!({"t": w["target"], "f": w["f"], "s": w["s"], "m": "raw", "hex": [hex_in]})
            }
        };
        let idx = if body["m"] == "raw" { 0 } else { w["idx"].as_u64().unwrap_or(0) };
        let id = base + i as u64;
        ag.units.insert(id, body.clone());
        shards.push(vec![Unit { id, lo: idx, hi: idx + 1, body }]);
    }
    let mut seen: HashMap<u64, Vec<String>> = HashMap::new();
    {
        let saved = std::mem::take(&mut ag.cands);
        let saved_reported = ag.reported.clone();
        let evals = ag.rep.evaluations;
        let mut sink = |r: CaseResult| {
            let u = r.unit;
            ag.take(r);
            seen.entry(u).or_default().extend(ag.last_sigs.clone());
        };
        let _ = tot::run_shards(cfg, shards, &mut sink);
        ag.cands = saved;
        ag.reported = saved_reported;
        ag.rep.evaluations = evals;
    }
    for (i, cd) in cands.iter().enumerate() {
        let id = base + i as u64;
        let ok = seen.get(&id).map(|v| v.contains(&cd.signature)).unwrap_or(false);
        let mut w = cd.witness.clone();
        w["occurrences_in_run"] = json!(cd.count);
        if ok {
            ag.rep.violation(&cd.signature, &cd.what, w);
        } else {
            ag.rep.inconclusive(&format!("candidate {} did not reproduce when re-executed alone (seen: {:?})", cd.signature, seen.get(&id)));
        }
    }
}

fn finish_report(mut ag: Aggr, planned: u64, stats: &tot::ParentStats, scratch: &Path) -> ! {
    // honest controls
    for (k, ok) in ag.honest_ok.clone() {
        if !ok && !k.starts_with("zkir_bin/") {
            ag.rep.inconclusive(&format!("honest control {k} did not decode/verify"));
        }
    }
    let matrix = json!(ag.matrix);
    ag.rep.set("matrix_object_format__mutator__verdict", matrix);
    ag.rep.set("reported_only", json!(ag.reported));
    ag.rep.set("candidates_by_signature", json!(ag.cands.values().map(|c| (c.signature.clone(), c.count)).collect::<BTreeMap<_, _>>()));
    let mut slowest = stats.shard_secs.clone();
    slowest.sort_by(|a, b| b.2.partial_cmp(&a.2).unwrap_or(std::cmp::Ordering::Equal));
    slowest.truncate(8);
    ag.rep.set(
        "runner",
        json!({
            "children_spawned": stats.children_spawned, "restarts_after_death": stats.restarts,
            "cases_reported": stats.cases_reported, "cases_unreported": stats.cases_unreported,
            "abandoned_shards": stats.abandoned_shards, "rlimit_failures": stats.rlimit_failures,
            "allocator_missing": stats.allocator_missing, "notes": stats.notes, "hangs_inconclusive": ag.hangs,
            "rlimit_as_bytes": tot::DEFAULT_RLIMIT_AS,
            "slowest_shards_no_cases_secs": slowest,
        }),
    );
    ag.rep.set("allocation", json!({"max_peak_live_bytes": ag.max_peak, "max_peak_over_bound": ag.max_peak_over_bound, "bound": "64*len(input) + honest peak + 16 MiB"}));
    ag.rep.set("planned_cases", json!(planned));
    ag.rep.set("child_cpu_seconds_by_class", json!(ag.time_us.iter().map(|(k, v)| (k.clone(), (*v as f64 / 1e6 * 10.0).round() / 10.0)).collect::<BTreeMap<_, _>>()));
    if stats.cases_unreported > 0 || stats.abandoned_shards > 0 {
        ag.rep.inconclusive(&format!("{} planned cases were not executed ({} shards abandoned)", stats.cases_unreported, stats.abandoned_shards));
    }
    if stats.rlimit_failures > 0 {
        ag.rep.inconclusive("setrlimit(RLIMIT_AS) failed in a child");
    }
    if stats.allocator_missing > 0 {
        ag.rep.assume("counting allocator not installed in this build (mzv_no_counting_alloc): the allocation bound was not monitored");
    }
    {
        let (seed_for_family, thorough_for_family) = (ag.rep.ctx.seed, ag.rep.ctx.tier == Tier::Thorough);
        family_vk_headers(&mut ag.rep, seed_for_family, if thorough_for_family { 24 } else { 8 });
    }
    ag.rep.min_nontrivial = planned / 2;
    ag.rep.assume("ParamsKZG::unsafe_setup with a seeded ChaCha stream stands in for the absent SRS files");
    ag.rep.assume("MidnightPK, full ParamsKZG and the RawBytesUnchecked reader are local/trusted artefacts: exercised, counted under reported_only, never violations");
    ag.rep.assume("compile-stage memory/time growth with declared ZKIR sizes is reported, not a violation; compile-stage panics are violations");
    ag.rep.assume("acceptance of a proof under a changed key / of a changed proof is only counted here (C03 decides it)");
    if !ag.rep.ctx.extra.contains_key("keep-scratch") {
        tot::remove_scratch(scratch);
    }
    ag.rep.finish()
}

/// Verifying keys of GENERATED circuits (constraint systems of many degrees, unlike the stdlib
/// architecture whose degree is fixed): every value of every header byte (version, k, commitment
/// count) and every truncation point, in both formats; `VerifyingKey::read` must return a value.
fn family_vk_headers(rep: &mut Report, seed: u64, n_specs: usize) {
    use midnight_curves::Fq;
    use midnight_proofs::{plonk::VerifyingKey, utils::SerdeFormat};
    use mzv::engines::{gen_circuit::*, plonk_util::*};
    let mut rng = rng_for(seed, "c16-family-vk");
    let mut done = 0;
    let mut attempts = 0;
    let mut degrees = std::collections::BTreeSet::new();
    while done < n_specs && attempts < n_specs * 10 {
        attempts += 1;
        let mut knobs = GenKnobs::sample(&mut rng);
        knobs.n_gates = knobs.n_gates.max(1);
        // spread the constraint-system degree
        knobs.max_degree = 2 + (attempts % 6);
        let Some(spec) = gen_spec::<Fq>(&mut rng, &knobs, 6) else { continue };
        let Ok((vk, _)) = keygen_family(&spec) else { continue };
        done += 1;
        degrees.insert(vk.cs().degree());
        for (fname, f) in [("Processed", SerdeFormat::Processed), ("RawBytes", SerdeFormat::RawBytes)] {
            let bytes = vk.to_bytes(f);
            let header = 6.min(bytes.len());
            let mut cases: Vec<(String, Vec<u8>)> = vec![];
            for pos in 0..header {
                for v in 0..=255u8 {
                    if bytes[pos] != v {
                        let mut b = bytes.clone();
                        b[pos] = v;
                        cases.push((format!("byte@{pos}={v}"), b));
                    }
                }
            }
            for cut in 0..bytes.len().min(64) {
                cases.push((format!("truncate@{cut}"), bytes[..cut].to_vec()));
            }
            for (what, b) in cases {
                rep.eval();
                let r = catch_any(|| VerifyingKey::<Fq, CS>::from_bytes::<GenCircuit>(&b, f, spec.clone()).is_ok());
                if let Err(p) = r {
                    rep.violation(
                        &format!("C16/VerifyingKey(generated)/{fname}/panic@{} header", repo_file(&p.file)),
                        &format!("VerifyingKey::read of a generated circuit's key (constraint-system degree {}) panics for {what}: {}", vk.cs().degree(), p.message),
                        json!({"spec": spec, "format": fname, "mutation": what, "bytes_hex": hx(&b)}),
                    );
                }
            }
            rep.nontrivial(&("family-vk", done, fname));
        }
    }
    rep.set("generated_vk_headers", json!({"circuits": done, "constraint_system_degrees": degrees}));
}

fn main() {
    let mut ctx = Ctx::from_args("C16");
    let thorough = ctx.tier == Tier::Thorough;

    // ---- child process ------------------------------------------------------------------------
    if ctx.extra.contains_key("child") {
        let corpus_path = ctx.extra.get("corpus").cloned().unwrap_or_default();
        let c: Corpus = match std::fs::read(&corpus_path).ok().and_then(|b| serde_json::from_slice(&b).ok()) {
            Some(c) => c,
            None => {
                eprintln!("child: cannot read corpus {corpus_path}");
                std::process::exit(3);
            }
        };
        let mut ex = match Exec::new(c, thorough) {
            Ok(e) => e,
            Err(e) => {
                eprintln!("child: {e}");
                std::process::exit(3);
            }
        };
        tot::child_main(&ctx.extra, &mut ex);
    }

    // ---- replay: seed and case come from the witness file --------------------------------------
    let replay = ctx.replay.as_ref().and_then(|p| load_replay(p));
    if let Some(r) = &replay {
        if let Some(s) = r["seed"].as_u64() {
            ctx.seed = s;
        }
    }
    let mut rep = Report::new(&ctx, RULE);
    let san = ctx.extra.get("stage").map(|s| s == "san").unwrap_or(false);
    let need_agg = match &replay {
        Some(r) => r["witness"]["target"] == "agg",
        None => !san,
    };
    let corpus = match catch_any(|| build_corpus(ctx.seed, need_agg)) {
        Ok(Ok(c)) => c,
        Ok(Err(e)) => {
            rep.inconclusive(&format!("seed corpus could not be built: {e}"));
            rep.finish()
        }
        Err(p) => {
            rep.inconclusive(&format!("seed corpus construction panicked: {} at {}", p.message, p.location));
            rep.finish()
        }
    };
    for n in &corpus.notes {
        rep.inconclusive(n);
    }
    rep.set(
        "corpus",
        json!({
            "build_secs": corpus.build_secs,
            "relations": corpus.rels.iter().map(|r| json!({"name": r.name, "k": r.k, "vk_processed": r.vk_p.len()/2, "vk_raw": r.vk_r.len()/2, "proof": r.proof_blake.len()/2, "proof_elements": r.layout.len()})).collect::<Vec<_>>(),
            "zkir_programs": corpus.zkir_json.iter().map(|z| z.0.clone()).collect::<Vec<_>>(),
            "aggregated_proof_bytes": corpus.agg.as_ref().map(|a| a.meta_proof.len()/2),
            "vk_header_len_by_diff": corpus.rels.iter().map(|r| lcp(&unhex(&r.vk_p), &unhex(&r.vk_r))).collect::<Vec<_>>(),
        }),
    );

    // ---- sanitizer stage: small in-process corpus, no children, no rlimit ----------------------
    if san {
        let mut ag = Aggr::new(&corpus, rep);
        let mut ex = match Exec::new(corpus.clone(), thorough) {
            Ok(e) => e,
            Err(e) => {
                ag.rep.inconclusive(&e);
                ag.rep.finish()
            }
        };
        let mut plan = Plan { units: vec![], class: vec![] };
        let b = |t: &str, f: &str, s: usize, m: &str| json!({"t": t, "f": f, "s": s, "m": m});
        for (t, fs, seeds) in [
            ("vk", vec!["P", "R"], vec![0usize, 1]),
            ("pv", vec!["P", "R"], vec![0]),
            ("arch", vec!["-"], vec![0, 3]),
            ("proof", vec!["blake2b", "poseidon"], vec![0]),
            ("zkir_json", vec!["-"], vec![0, 1]),
            ("zkir_bin", vec!["-"], vec![0, 1]),
        ] {
            for f in fs {
                for s in &seeds {
                    let enc = seed_bytes(&corpus, t, f, *s);
                    plan.push("main", 0, 1, b(t, f, *s, "honest"));
                    let mut tb = b(t, f, *s, "trunc");
                    let stride = (enc.len() as u64 / 40).max(1);
                    tb["stride"] = json!(stride);
                    plan.push("main", 0, enc.len() as u64 / stride, tb);
                    if t == "zkir_bin" {
                        // length bytes of the bincode program reach an unbounded allocation (a
                        // finding of the main stage) that would kill an in-process sanitizer run
                        continue;
                    }
                    let pos: Vec<usize> = byte_positions(&corpus, t, f, *s, false).into_iter().take(24).collect();
                    let mut bb = b(t, f, *s, "byte");
                    bb["vals"] = json!([0, 1, 5, 31, 32, 127, 128, 255]);
                    let n = pos.len() as u64 * 8;
                    bb["pos"] = json!(pos);
                    plan.push("main", 0, n, bb);
                    plan.push("main", 0, 60, b(t, f, *s, "rand"));
                }
            }
        }
        let planned = planned_cases(&plan);
        for u in &plan.units {
            ag.units.insert(u.id, u.body.clone());
            for idx in u.lo..u.hi {
                let r = ex.run_unit_case(&u.body, idx, &mut |_| {});
                ag.take(CaseResult { unit: u.id, idx, verdict: if r.ok { Verdict::Ok } else { Verdict::Err }, peak: 0, largest: 0, input_len: r.input_len, baseline: 0, micros: 0, stage: String::new(), events: r.events });
            }
        }
        for cd in ag.cands.values().cloned().collect::<Vec<_>>() {
            let mut w = cd.witness.clone();
            w["occurrences_in_run"] = json!(cd.count);
            ag.rep.violation(&cd.signature, &cd.what, w);
        }
        ag.rep.set("stage", json!("san (in-process, no children, no RLIMIT_AS, allocation bound not monitored)"));
        let stats = tot::ParentStats::default();
        let scratch = tot::scratch_dir("c16-san");
        finish_report(ag, planned, &stats, &scratch);
    }

    let scratch = tot::scratch_dir("c16");
    let corpus_path = match write_corpus(&corpus, &scratch) {
        Ok(p) => p,
        Err(e) => {
            rep.inconclusive(&format!("cannot write corpus to scratch: {e}"));
            tot::remove_scratch(&scratch);
            rep.finish()
        }
    };
    let children = std::thread::available_parallelism().map(|n| n.get()).unwrap_or(8).clamp(2, 16);
    let cfg = parent_cfg(&ctx, &scratch, &corpus_path, children);
    let mut ag = Aggr::new(&corpus, rep);

    // ---- replay of one witness -----------------------------------------------------------------
    if let Some(r) = replay {
        let w = &r["witness"];
        let sig = r["signature"].as_str().unwrap_or("").to_string();
        ag.cands.insert(
            sig.clone(),
            Cand { signature: sig, what: r["what"].as_str().unwrap_or("").to_string(), witness: w.clone(), count: 1, reported_only: false, input_len: 0 },
        );
        confirm_and_report(&mut ag, &cfg);
        ag.rep.nontrivial(&1u8);
        ag.rep.nontrivial(&2u8);
        ag.rep.evals(1);
        let stats = tot::ParentStats::default();
        finish_report_replay(ag, &stats, &scratch);
    }

    // ---- the run -------------------------------------------------------------------------------
    let plan = make_plan(&corpus, thorough);
    let planned = planned_cases(&plan);
    for u in &plan.units {
        ag.units.insert(u.id, u.body.clone());
    }
    if ctx.extra.contains_key("plan-only") {
        let mut by: BTreeMap<String, u64> = BTreeMap::new();
        for u in &plan.units {
            let t = u.body["t"].as_str().unwrap_or("");
            let f = u.body["f"].as_str().unwrap_or("");
            *by.entry(format!("{}/{} {}", target_object(t), fmt_name(t, f), u.body["m"].as_str().unwrap_or(""))).or_insert(0) += u.cases();
        }
        for (k, v) in &by {
            println!("{v:9} {k}");
        }
        println!("{planned:9} total");
        tot::remove_scratch(&scratch);
        std::process::exit(0);
    }
    // control of the independent membership oracle: honest raw points pass, a perturbed one fails
    {
        let mut good = true;
        for r in &corpus.rels {
            let enc = unhex(&r.vk_r);
            let h = lcp(&unhex(&r.vk_p), &enc).min(64);
            let mut off = h;
            let mut first = true;
            while off + 96 <= enc.len() {
                let slot = &enc[off..off + 96];
                good &= g1_raw_on_curve(slot) == Some(true);
                if first && slot[0] & 0xc0 == 0 {
                    let mut bad = slot.to_vec();
                    bad[95] ^= 1;
                    good &= g1_raw_on_curve(&bad) == Some(false);
                    first = false;
                }
                off += 96;
            }
        }
        let pvr = unhex(&corpus.pv_r);
        good &= g2_raw_on_curve(&pvr) == Some(true);
        let mut bad = pvr.clone();
        if let Some(b) = bad.last_mut() {
            *b ^= 1;
        }
        good &= g2_raw_on_curve(&bad) == Some(false);
        if !good {
            ag.rep.inconclusive("control of the raw-point membership oracle failed (honest point rejected or perturbed point accepted by the harness oracle)");
        } else {
            ag.rep.count("membership_oracle_control_ok");
        }
    }
    let shards = shards_of(&plan, children, thorough);
    eprintln!("[c16] corpus {:.1}s, {} planned cases in {} shards", corpus.build_secs, planned, shards.len());
    let t_run = std::time::Instant::now();
    let stats = {
        let mut sink = |r: CaseResult| ag.take(r);
        tot::run_shards(&cfg, shards, &mut sink)
    };

    // F8-shaped finding: the honest bincode encoding is rejected while honest ++ [00] is accepted
    for s in 0..corpus.zkir_bin.len() {
        let honest_ok = ag.honest_ok.get(&format!("zkir_bin/-/{s}")).copied().unwrap_or(false);
        match (honest_ok, ag.appendzero.get(&s).copied()) {
            (true, _) => {}
            (false, Some((true, true))) => {
                let body = json!({"t": "zkir_bin", "f": "-", "s": s, "m": "appendzero"});
                ag.candidate(
                    F8_SIG.into(),
                    "ZkirRelation::read_relation rejects write_relation's own output but accepts it with one extra byte appended (and re-encodes to the honest bytes): the reader consumes a trailing varint that the writer never emits".into(),
                    &body,
                    0,
                    json!({"honest_decodes": false, "honest_plus_00_decodes": true, "reencoding_equals_honest": true}),
                    false,
                );
            }
            (false, other) => ag.rep.inconclusive(&format!("honest bincode ZKIR seed {s} does not decode ({other:?})")),
        }
    }
    eprintln!("[c16] main run {:.1}s, {} candidates to confirm", t_run.elapsed().as_secs_f64(), ag.cands.len());
    let t_conf = std::time::Instant::now();
    confirm_and_report(&mut ag, &cfg);
    eprintln!("[c16] confirmation {:.1}s", t_conf.elapsed().as_secs_f64());
    finish_report(ag, planned, &stats, &scratch);
}

fn finish_report_replay(mut ag: Aggr, stats: &tot::ParentStats, scratch: &Path) -> ! {
    ag.rep.set("mode", json!("replay"));
    ag.rep.set("reported_only", json!(ag.reported));
    ag.rep.set("runner_notes", json!(stats.notes));
    tot::remove_scratch(scratch);
    ag.rep.finish()
}
