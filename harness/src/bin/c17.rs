//! C17 — key generation is deterministic and keys survive serialization unchanged.
//!
//! (a) keygen under rayon pools of different sizes, repeated, and in separate child processes
//!     (fresh hash-map seeds): vk bytes, transcript identity and pk bytes must be identical;
//! (b) write → read → write of vk / pk in every format is the identity on bytes and keeps the
//!     transcript identity;
//! (c) 2×2 interchange: proofs made with {original, reloaded} pk verify under {original,
//!     reloaded} vk, and mutated proofs are rejected by both;
//! (d) ParamsKZG: write_custom / read_custom round trip; downsize(k') equals unsafe_setup(k') from
//!     the same seeded secret; commitments agree;
//! (e) MidnightVK / MidnightPK wrappers of stdlib relations;
//! (f) a parsing circuit over a LIBRARY of several automata (AutomatonChip from public
//!     constructors): repeated configuration + synthesis + key generation give the same fixed
//!     tables and the same verifying key (collections with per-instance hash seeds must not leak
//!     into the layout).

use std::{collections::BTreeMap, io::Cursor, process::Command};

use ff::{Field, PrimeField};
use midnight_curves::{Bls12, Fq, G1Projective};
use midnight_proofs::{
    plonk::{keygen_pk, keygen_vk_with_k, ProvingKey, VerifyingKey},
    poly::{
        commitment::PolynomialCommitmentScheme,
        kzg::{params::ParamsKZG, KZGCommitmentScheme},
        EvaluationDomain,
    },
    utils::SerdeFormat,
};
use midnight_zk_stdlib::{MidnightCircuit, MidnightPK, MidnightVK, Relation};
use mzv::{
    common::*,
    engines::{gen_circuit::*, plonk_util::*, relations::*},
};
use rand::{Rng, SeedableRng};
use rand_chacha::ChaCha8Rng;
use serde_json::json;

type PS = blake2b_simd::State;

#[derive(Clone, Debug, PartialEq, Eq, serde::Serialize, serde::Deserialize)]
struct KeyDigest {
    vk_raw: String,
    vk_processed: String,
    transcript_repr: String,
    pk_raw: String,
}

fn h(bytes: &[u8]) -> String {
    hex::encode(&blake2b_simd::blake2b(bytes).as_bytes()[..16])
}

fn keygen_digest(spec: &GenSpec) -> Result<KeyDigest, String> {
    let c = GenCircuit {
        spec: spec.clone(),
        witness_seed: None,
        faults: vec![],
    };
    let params = params_for(spec.k);
    catch_any(|| {
        let vk = keygen_vk_with_k::<Fq, CS, _>(params, &c, spec.k).map_err(|e| format!("{e:?}"))?;
        let pk = keygen_pk::<Fq, CS, _>(vk.clone(), &c).map_err(|e| format!("{e:?}"))?;
        Ok(KeyDigest {
            vk_raw: h(&vk.to_bytes(SerdeFormat::RawBytes)),
            vk_processed: h(&vk.to_bytes(SerdeFormat::Processed)),
            transcript_repr: hex::encode(vk.transcript_repr().to_repr().as_ref()),
            pk_raw: h(&pk.to_bytes(SerdeFormat::RawBytes)),
        })
    })
    .map_err(|p| format!("panic: {p:?}"))?
}

fn relation_digest<R: Relation>(rel: &R) -> Result<KeyDigest, String> {
    let k = MidnightCircuit::from_relation(rel).min_k();
    let params = params_for(k);
    catch_any(|| {
        let vk = midnight_zk_stdlib::setup_vk(params, rel);
        let pk = midnight_zk_stdlib::setup_pk(rel, &vk);
        let mut vraw = vec![];
        vk.write(&mut vraw, SerdeFormat::RawBytes).unwrap();
        let mut vproc = vec![];
        vk.write(&mut vproc, SerdeFormat::Processed).unwrap();
        let mut praw = vec![];
        pk.write(&mut praw, SerdeFormat::RawBytes).unwrap();
        KeyDigest {
            vk_raw: h(&vraw),
            vk_processed: h(&vproc),
            transcript_repr: hex::encode(vk.vk().transcript_repr().to_repr().as_ref()),
            pk_raw: h(&praw),
        }
    })
    .map_err(|p| format!("panic: {p:?}"))
}

fn all_relation_digests() -> BTreeMap<String, Result<KeyDigest, String>> {
    let mut m = BTreeMap::new();
    m.insert("ArithRel".to_string(), relation_digest(&ArithRel));
    m.insert("PoseidonRel".to_string(), relation_digest(&PoseidonRel));
    m.insert("EccRel".to_string(), relation_digest(&EccRel));
    m
}

fn sample_specs(seed: u64, n: usize) -> Vec<GenSpec> {
    let mut rng = rng_for(seed, "c17-specs");
    let mut v = vec![];
    let mut attempts = 0;
    while v.len() < n && attempts < n * 10 {
        attempts += 1;
        let mut knobs = GenKnobs::sample(&mut rng);
        knobs.copies = true;
        knobs.n_gates = knobs.n_gates.max(1);
        if v.len() % 2 == 0 {
            knobs.n_lookups = knobs.n_lookups.max(1);
        }
        if let Some(s) = gen_spec::<Fq>(&mut rng, &knobs, 8) {
            v.push(s);
        }
    }
    v
}

fn child_main(ctx: &Ctx) -> ! {
    // prints one JSON object: digests of every spec and relation, computed in this process
    let n: usize = ctx.extra.get("child-n").and_then(|x| x.parse().ok()).unwrap_or(4);
    let specs = sample_specs(ctx.seed, n);
    let fam: Vec<Result<KeyDigest, String>> = specs.iter().map(keygen_digest).collect();
    let rel = all_relation_digests();
    println!("{}", json!({"family": fam, "relations": rel}));
    std::process::exit(0)
}

fn roundtrip_family(spec: &GenSpec, rep: &mut Report, rng: &mut ChaCha8Rng) {
    let Ok((vk, pk)) = keygen_family(spec) else {
        rep.inconclusive("keygen failed in round-trip stage");
        return;
    };
    let tr = vk.transcript_repr();
    let formats = [
        ("Processed", SerdeFormat::Processed),
        ("RawBytes", SerdeFormat::RawBytes),
        ("RawBytesUnchecked", SerdeFormat::RawBytesUnchecked),
    ];
    let mut reloaded: Vec<(String, VerifyingKey<Fq, CS>, ProvingKey<Fq, CS>)> = vec![];
    for (wname, wf) in formats {
        for (rname, rf) in formats {
            // compatible pairs: same format, or the unchecked reader on raw bytes (and vice versa:
            // both raw formats share one encoding)
            let compatible = wname == rname || (wname.starts_with("Raw") && rname.starts_with("Raw"));
            if !compatible {
                continue;
            }
            rep.eval();
            let bytes = vk.to_bytes(wf);
            // read from a stream that continues after the key: the reader must stop exactly at
            // the end of the key
            let mut stream = bytes.clone();
            stream.extend_from_slice(b"SENTINEL-AFTER-KEY");
            let mut cur = Cursor::new(&stream);
            let r = catch_any(|| VerifyingKey::<Fq, CS>::read::<_, GenCircuit>(&mut cur, rf, spec.clone()));
            if matches!(r, Ok(Ok(_))) && cur.position() as usize != bytes.len() {
                rep.violation(
                    &format!("C17/vk-roundtrip/reader-position write={wname} read={rname}"),
                    &format!("VerifyingKey::read consumed {} bytes of a {}-byte encoding: whatever follows the key on the stream is lost", cur.position(), bytes.len()),
                    json!({"spec": spec, "write": wname, "read": rname}),
                );
            }
            let wit = json!({"spec": spec, "write": wname, "read": rname});
            match r {
                Err(p) => rep.violation(
                    &format!("C17/vk-roundtrip/panic@{}", repo_file(&p.file)),
                    &format!("reading back a verifying key panics: {}", p.message),
                    wit,
                ),
                Ok(Err(e)) => rep.violation(
                    &format!("C17/vk-roundtrip/read-error write={wname} read={rname}"),
                    &format!("a verifying key written with {wname} cannot be read with {rname}: {e}"),
                    wit,
                ),
                Ok(Ok(vk2)) => {
                    rep.nontrivial(&(fnv(json!(spec).to_string().as_bytes()), "vk", wname, rname));
                    if vk2.to_bytes(wf) != bytes {
                        rep.violation(
                            &format!("C17/vk-roundtrip/bytes-differ write={wname} read={rname}"),
                            "verifying key re-serialises to different bytes after a round trip",
                            wit.clone(),
                        );
                    }
                    if vk2.transcript_repr() != tr {
                        rep.violation(
                            &format!("C17/vk-roundtrip/transcript-identity-differs write={wname} read={rname}"),
                            "transcript identity changes after a round trip",
                            wit,
                        );
                    }
                }
            }
            // proving key
            rep.eval();
            let pbytes = pk.to_bytes(wf);
            let mut stream = pbytes.clone();
            stream.extend_from_slice(b"SENTINEL-AFTER-KEY");
            let mut cur = Cursor::new(&stream);
            let r = catch_any(|| ProvingKey::<Fq, CS>::read::<_, GenCircuit>(&mut cur, rf, spec.clone()));
            if matches!(r, Ok(Ok(_))) && cur.position() as usize != pbytes.len() {
                rep.violation(
                    &format!("C17/pk-roundtrip/reader-position write={wname} read={rname}"),
                    &format!("ProvingKey::read consumed {} bytes of a {}-byte encoding", cur.position(), pbytes.len()),
                    json!({"spec": spec, "write": wname, "read": rname}),
                );
            }
            let wit = json!({"spec": spec, "write": wname, "read": rname, "object": "pk"});
            match r {
                Err(p) => rep.violation(
                    &format!("C17/pk-roundtrip/panic@{}", repo_file(&p.file)),
                    &format!("reading back a proving key panics: {}", p.message),
                    wit,
                ),
                Ok(Err(e)) => rep.violation(
                    &format!("C17/pk-roundtrip/read-error write={wname} read={rname}"),
                    &format!("a proving key written with {wname} cannot be read with {rname}: {e}"),
                    wit,
                ),
                Ok(Ok(pk2)) => {
                    rep.nontrivial(&(fnv(json!(spec).to_string().as_bytes()), "pk", wname, rname));
                    if pk2.to_bytes(wf) != pbytes {
                        rep.violation(
                            &format!("C17/pk-roundtrip/bytes-differ write={wname} read={rname}"),
                            "proving key re-serialises to different bytes after a round trip",
                            wit,
                        );
                    }
                    if wname == rname {
                        reloaded.push((wname.to_string(), pk2.get_vk().clone(), pk2));
                    }
                }
            }
        }
    }
    // (c) 2x2 interchange with the Processed and RawBytes reloaded keys
    let case = FamCase {
        spec: spec.clone(),
        np: 1,
        nc: 0,
        poseidon: false,
        wseeds: vec![rng.gen()],
    };
    let instances = instances_of(&case);
    for (fname, vk2, pk2) in reloaded.iter().take(2) {
        let provers: [(&str, &PK); 2] = [("original", &pk), ("reloaded", pk2)];
        let verifiers: [(&str, &VK); 2] = [("original", &vk), ("reloaded", vk2)];
        for (pn, p) in provers {
            let proof = match prove_family::<PS>(&case, p) {
                Ok(x) => x,
                Err(e) => {
                    rep.violation(
                        &format!("C17/interchange/prover-fails pk={pn}"),
                        &format!("proving with the {pn} proving key ({fname}) fails: {e}"),
                        json!({"case": case, "format": fname}),
                    );
                    continue;
                }
            };
            let mut verdicts = vec![];
            for (vn, v) in verifiers {
                rep.eval();
                let (c, pl) = split_for_verifier(v, &case, &instances);
                let ok = verify_family::<PS>(v, spec.k, &c, &pl, &proof);
                verdicts.push(ok.is_ok());
                if let Err(e) = ok {
                    rep.violation(
                        &format!("C17/interchange/rejected pk={pn} vk={vn}"),
                        &format!("a proof made with the {pn} pk is rejected by the {vn} vk ({fname}): {e}"),
                        json!({"case": case, "format": fname}),
                    );
                }
                // mutated proofs must be rejected by both
                for m in 0..3 {
                    let mut bad = proof.clone();
                    let pos = rng.gen_range(0..bad.len());
                    bad[pos] ^= 1 << (m % 8);
                    rep.eval();
                    if verify_family::<PS>(v, spec.k, &c, &pl, &bad).is_ok() {
                        rep.violation(
                            &format!("C17/interchange/mutated-proof-accepted vk={vn}"),
                            "a mutated proof is accepted",
                            json!({"case": case, "format": fname, "byte": pos}),
                        );
                    }
                }
            }
            rep.nontrivial(&(fnv(json!(case).to_string().as_bytes()), fname.clone(), pn));
        }
    }
}

fn relation_roundtrip<R: Relation>(name: &str, rel: &R, sample: (R::Instance, R::Witness), rep: &mut Report, rng: &mut ChaCha8Rng) {
    let k = MidnightCircuit::from_relation(rel).min_k();
    let params = params_for(k);
    let Ok((vk, pk)) = catch_any(|| {
        let vk = midnight_zk_stdlib::setup_vk(params, rel);
        let pk = midnight_zk_stdlib::setup_pk(rel, &vk);
        (vk, pk)
    }) else {
        rep.inconclusive(&format!("{name}: setup panicked"));
        return;
    };
    for (fname, f) in [("Processed", SerdeFormat::Processed), ("RawBytes", SerdeFormat::RawBytes)] {
        rep.eval();
        let mut b = vec![];
        vk.write(&mut b, f).unwrap();
        let wit = json!({"relation": name, "format": fname});
        {
            let mut stream = b.clone();
            stream.extend_from_slice(b"SENTINEL");
            let mut cur = Cursor::new(&stream);
            if matches!(catch_any(|| MidnightVK::read(&mut cur, f)), Ok(Ok(_))) && cur.position() as usize != b.len() {
                rep.violation(
                    &format!("C17/MidnightVK-roundtrip/reader-position {fname}"),
                    &format!("MidnightVK::read consumed {} bytes of a {}-byte encoding", cur.position(), b.len()),
                    wit.clone(),
                );
            }
        }
        let vk2 = match catch_any(|| MidnightVK::read(&mut Cursor::new(&b), f)) {
            Ok(Ok(v)) => v,
            other => {
                rep.violation(
                    &format!("C17/MidnightVK-roundtrip/read-fails {fname}"),
                    &format!("MidnightVK::read(write(vk)) fails: {:?}", other.map(|r| r.map(|_| ()))),
                    wit,
                );
                continue;
            }
        };
        let mut b2 = vec![];
        vk2.write(&mut b2, f).unwrap();
        if b2 != b {
            rep.violation(&format!("C17/MidnightVK-roundtrip/bytes-differ {fname}"), "MidnightVK re-serialises differently", wit.clone());
        }
        rep.nontrivial(&(name.to_string(), "mvk", fname));
        rep.eval();
        let mut pb = vec![];
        pk.write(&mut pb, f).unwrap();
        let pk2 = match catch_any(|| MidnightPK::<R>::read(&mut Cursor::new(&pb), f)) {
            Ok(Ok(v)) => v,
            other => {
                rep.violation(
                    &format!("C17/MidnightPK-roundtrip/read-fails {fname}"),
                    &format!("MidnightPK::read(write(pk)) fails: {:?}", other.map(|r| r.map(|_| ()))),
                    wit,
                );
                continue;
            }
        };
        let mut pb2 = vec![];
        pk2.write(&mut pb2, f).unwrap();
        if pb2 != pb {
            rep.violation(&format!("C17/MidnightPK-roundtrip/bytes-differ {fname}"), "MidnightPK re-serialises differently", wit.clone());
        }
        rep.nontrivial(&(name.to_string(), "mpk", fname));
        // interchange through the façade
        let (inst, w) = sample.clone();
        for (pn, p) in [("original", &pk), ("reloaded", &pk2)] {
            let proof = catch_any(|| {
                midnight_zk_stdlib::prove::<R, PS>(params, p, rel, &inst, w.clone(), ChaCha8Rng::seed_from_u64(rng.gen()))
            });
            let Ok(Ok(proof)) = proof else {
                rep.violation(&format!("C17/facade-interchange/prover-fails pk={pn}"), "proving fails", wit.clone());
                continue;
            };
            for (vn, v) in [("original", &vk), ("reloaded", &vk2)] {
                rep.eval();
                if midnight_zk_stdlib::verify::<R, PS>(&params.verifier_params(), v, &inst, None, &proof).is_err() {
                    rep.violation(
                        &format!("C17/facade-interchange/rejected pk={pn} vk={vn}"),
                        &format!("proof made with {pn} pk rejected by {vn} vk ({fname})"),
                        wit.clone(),
                    );
                }
            }
        }
    }
}

fn params_checks(rep: &mut Report, kmax: u32) {
    let seed = 0xD0_5E;
    let big = ParamsKZG::<Bls12>::unsafe_setup(kmax, ChaCha8Rng::seed_from_u64(seed));
    // round trip
    for (fname, f) in [
        ("Processed", SerdeFormat::Processed),
        ("RawBytes", SerdeFormat::RawBytes),
        ("RawBytesUnchecked", SerdeFormat::RawBytesUnchecked),
    ] {
        rep.eval();
        let mut b = vec![];
        big.write_custom(&mut b, f).unwrap();
        let mut stream = b.clone();
        stream.extend_from_slice(b"SENTINEL-AFTER-PARAMS");
        let mut cur = Cursor::new(&stream);
        let read = catch_any(|| ParamsKZG::<Bls12>::read_custom(&mut cur, f));
        if matches!(read, Ok(Ok(_))) && cur.position() as usize != b.len() {
            rep.violation(
                &format!("C17/params-roundtrip/reader-position {fname}"),
                &format!("ParamsKZG::read_custom consumed {} bytes of a {}-byte encoding: objects that follow the parameters on the same stream cannot be read", cur.position(), b.len()),
                json!({"k": kmax, "format": fname}),
            );
        }
        match read {
            Ok(Ok(p2)) => {
                let mut b2 = vec![];
                p2.write_custom(&mut b2, f).unwrap();
                if b2 != b {
                    rep.violation(&format!("C17/params-roundtrip/bytes-differ {fname}"), "ParamsKZG re-serialises differently", json!({"k": kmax, "format": fname}));
                }
                rep.nontrivial(&("params-rt", fname));
            }
            other => rep.violation(
                &format!("C17/params-roundtrip/read-fails {fname}"),
                &format!("ParamsKZG::read_custom(write_custom(p)) fails: {:?}", other.map(|r| r.map(|_| ()))),
                json!({"k": kmax, "format": fname}),
            ),
        }
    }
    // downsize
    for k2 in 1..=kmax {
        rep.eval();
        let mut d = big.clone();
        if catch_any(|| d.downsize(k2)).is_err() {
            rep.violation("C17/downsize/panic", "downsize panics for k' <= k", json!({"k": kmax, "k2": k2}));
            continue;
        }
        let fresh = ParamsKZG::<Bls12>::unsafe_setup(k2, ChaCha8Rng::seed_from_u64(seed));
        let mut a = vec![];
        d.write_custom(&mut a, SerdeFormat::RawBytes).unwrap();
        let mut b = vec![];
        fresh.write_custom(&mut b, SerdeFormat::RawBytes).unwrap();
        if a != b {
            let what = if d.g_lagrange() != fresh.g_lagrange() {
                "lagrange-basis"
            } else if d.g2() != fresh.g2() || d.s_g2() != fresh.s_g2() {
                "g2-elements"
            } else {
                "monomial-basis"
            };
            rep.violation(
                &format!("C17/downsize/differs-from-fresh-setup {what}"),
                &format!("parameters downsized from k={kmax} to k'={k2} differ from unsafe_setup(k') with the same secret ({what})"),
                json!({"k": kmax, "k2": k2}),
            );
        }
        // commitments agree (monomial vs Lagrange, downsized vs fresh)
        let domain = EvaluationDomain::<Fq>::new(1, k2);
        let mut r = ChaCha8Rng::seed_from_u64(k2 as u64);
        let mut lag = domain.empty_lagrange();
        for v in lag.iter_mut() {
            *v = Fq::random(&mut r);
        }
        let coeff = domain.lagrange_to_coeff(lag.clone());
        let c1: G1Projective = KZGCommitmentScheme::<Bls12>::commit(&d, &coeff);
        let c2: G1Projective = KZGCommitmentScheme::<Bls12>::commit_lagrange(&d, &lag);
        let c3: G1Projective = KZGCommitmentScheme::<Bls12>::commit(&fresh, &coeff);
        if c1 != c2 || c1 != c3 {
            rep.violation(
                "C17/downsize/commitments-disagree",
                "commit / commit_lagrange / fresh-parameters commitments of one polynomial disagree after downsize",
                json!({"k": kmax, "k2": k2}),
            );
        }
        rep.nontrivial(&("downsize", k2));
    }
}

/// (f) AutomatonChip over a library of several automata.
mod chip_library {
    use ff::Field;
    use midnight_circuits::{
        field::{
            decomposition::{
                chip::{P2RDecompositionChip, P2RDecompositionConfig},
                pow2range::Pow2RangeChip,
            },
            native::{NB_ARITH_COLS, NB_ARITH_FIXED_COLS},
            NativeChip, NativeGadget,
        },
        instructions::AssignmentInstructions,
        parsing::{
            automaton_chip::{AutomatonChip, AutomatonConfig, NB_AUTOMATA_COLS},
            regex::{Regex, RegexInstructions},
        },
        testing_utils::FromScratch,
        types::{AssignedByte, AssignedNative},
        ComposableChip,
    };
    use midnight_curves::Fq;
    use midnight_proofs::{
        circuit::{Layouter, SimpleFloorPlanner, Value},
        plonk::{keygen_vk_with_k, Advice, Circuit, Column, ConstraintSystem, Error},
        utils::SerdeFormat,
    };
    use mzv::{
        common::*,
        engines::{
            plonk_util::{params_for, CS},
            ref_eval::{collect, CollectOpts},
        },
    };
    use serde_json::json;

    pub trait Second {
        type B;
    }
    impl<A, B> Second for (A, B) {
        type B = B;
    }
    pub type AutoMap = <<AutomatonChip<usize, Fq> as ComposableChip<Fq>>::SharedResources as Second>::B;
    type NG = NativeGadget<Fq, P2RDecompositionChip<Fq>, NativeChip<Fq>>;

    #[derive(Clone)]
    pub struct LibCircuit {
        pub automata: AutoMap,
        pub index: usize,
        pub input: Vec<u8>,
    }

    impl Circuit<Fq> for LibCircuit {
        type Config = (P2RDecompositionConfig, AutomatonConfig<usize, Fq>);
        type FloorPlanner = SimpleFloorPlanner;
        type Params = AutoMap;

        fn without_witnesses(&self) -> Self {
            self.clone()
        }
        fn params(&self) -> Self::Params {
            self.automata.clone()
        }
        fn configure_with_params(meta: &mut ConstraintSystem<Fq>, params: AutoMap) -> Self::Config {
            let committed = meta.instance_column();
            let inst = meta.instance_column();
            let advice: [Column<Advice>; NB_ARITH_COLS] = core::array::from_fn(|_| meta.advice_column());
            let fixed: [_; NB_ARITH_FIXED_COLS] = core::array::from_fn(|_| meta.fixed_column());
            let native_config = NativeChip::<Fq>::configure(meta, &(advice, fixed, [committed, inst]));
            let pow2 = Pow2RangeChip::<Fq>::configure(meta, &advice[1..=4]);
            let p2r = P2RDecompositionConfig::new(&native_config, &pow2);
            let cols: [Column<Advice>; NB_AUTOMATA_COLS] = advice[..NB_AUTOMATA_COLS].try_into().unwrap();
            let ac = AutomatonChip::<usize, Fq>::configure(meta, &(cols, params));
            (p2r, ac)
        }
        fn configure(_meta: &mut ConstraintSystem<Fq>) -> Self::Config {
            unreachable!("configured through configure_with_params")
        }
        fn synthesize(&self, config: Self::Config, mut layouter: impl Layouter<Fq>) -> Result<(), Error> {
            let ng = <NG as FromScratch<Fq>>::new_from_scratch(&config.0);
            let chip = <AutomatonChip<usize, Fq> as ComposableChip<Fq>>::new(&config.1, &ng);
            let vals: Vec<Value<u8>> = self.input.iter().map(|b| Value::known(*b)).collect();
            let input: Vec<AssignedByte<Fq>> = ng.assign_many(&mut layouter, &vals)?;
            let _outs: Vec<AssignedNative<Fq>> = chip.parse(&mut layouter, &self.index, &input)?;
            ng.load_from_scratch(&mut layouter)?;
            chip.load(&mut layouter)
        }
    }

    pub fn run(ctx: &Ctx, rep: &mut Report) {
        // a library of five small automata
        let regexes: Vec<(Regex, &[u8])> = vec![
            (Regex::word("hello"), b"hello"),
            (Regex::digit().non_empty_list(), b"2026"),
            (Regex::word("a").terminated(Regex::lowercase_letter().list()).terminated(Regex::word("z")), b"abcz"),
            (Regex::word("yes").or(Regex::word("no")), b"no"),
            (Regex::uppercase_letter().terminated(Regex::digit().repeat(2)), b"Q42"),
        ];
        let built = catch_any(|| {
            let mut m = AutoMap::default();
            for (i, (r, _)) in regexes.iter().enumerate() {
                m.insert(i, r.to_automaton());
            }
            m
        });
        let automata = match built {
            Ok(m) => m,
            Err(p) => {
                rep.inconclusive(&format!("chip library: the automata could not be compiled: {} at {}", p.message, p.location));
                return;
            }
        };
        let k = 10u32;
        let reps = ctx.tier.pick(6usize, 16usize);
        let mut first: Option<(u64, Vec<u8>)> = None;
        for r in 0..reps {
            let index = r % regexes.len();
            // the witness (index and word) does not matter for the fixed tables; keep it fixed so
            // that the whole synthesis is comparable
            let circuit = LibCircuit {
                automata: automata.clone(),
                index: 0,
                input: regexes[0].1.to_vec(),
            };
            let _ = index;
            rep.eval();
            let got = catch_any(|| -> Result<(u64, Vec<u8>), String> {
                let t = collect::<Fq, _>(k, &circuit, &[vec![], vec![]], CollectOpts::default())?;
                if !t.violations(2).is_empty() {
                    return Err(format!("honest parse is unsatisfied: {:?}", t.violations(2)));
                }
                let vk = keygen_vk_with_k::<Fq, CS, _>(params_for(k), &circuit, k).map_err(|e| format!("{e:?}"))?;
                Ok((t.structure_digest(), vk.to_bytes(SerdeFormat::RawBytes)))
            });
            match got {
                Err(p) => {
                    rep.inconclusive(&format!("chip library: panic {} at {}", p.message, p.location));
                    return;
                }
                Ok(Err(e)) => {
                    rep.inconclusive(&format!("chip library: {e}"));
                    return;
                }
                Ok(Ok(d)) => {
                    rep.nontrivial(&("chip-library", r));
                    match &first {
                        None => first = Some(d),
                        Some(f) if *f != d => {
                            let what = if f.0 != d.0 { "fixed tables / selectors / copies" } else { "verifying-key bytes" };
                            rep.violation(
                                &format!("C17/keygen-automaton-library/nondeterministic {what}"),
                                &format!("configuring and synthesising the SAME parsing circuit over a library of {} automata twice gives different {what} (repetition {r})", regexes.len()),
                                json!({"automata": regexes.len(), "repetition": r, "k": k}),
                            );
                            return;
                        }
                        _ => rep.count("chip-library.repetitions_equal"),
                    }
                }
            }
        }
        let _ = Fq::ZERO;
    }
}

fn main() {
    let ctx = Ctx::from_args("C17");
    if ctx.extra.contains_key("child") {
        child_main(&ctx);
    }
    let mut rep = Report::new(
        &ctx,
        "cases: (circuit, pool size, repetition) keygen digests; (circuit, write format, read format) round trips; (circuit, prover key, verifier key) interchange; \
         (k, k') downsize. Non-trivial = the compared objects were produced and compared; distinct = distinct (circuit, configuration).",
    );
    rep.assume("SRS from ParamsKZG::unsafe_setup with a seeded RNG");
    let n_specs = ctx.tier.pick(4usize, 10usize);
    let pools: Vec<usize> = ctx.tier.pick(vec![1, 3, 16], vec![1, 2, 3, 8, 16]);
    let reps = ctx.tier.pick(2usize, 3usize);
    let n_children = ctx.tier.pick(2usize, 4usize);
    let specs = sample_specs(ctx.seed, n_specs);
    for k in 4..=8 {
        let _ = params_for(k);
    }

    // ---- (a) determinism across pools / repetitions ---------------------------------------------
    let mut reference: Vec<Option<KeyDigest>> = vec![None; specs.len()];
    let mut rel_reference: BTreeMap<String, KeyDigest> = BTreeMap::new();
    let mut pool_obs = 0u64;
    for &threads in &pools {
        for r in 0..reps {
            let (fam, rel) = with_pool(threads, || {
                (specs.iter().map(keygen_digest).collect::<Vec<_>>(), all_relation_digests())
            });
            for (i, d) in fam.into_iter().enumerate() {
                rep.eval();
                pool_obs += 1;
                match d {
                    Err(e) => rep.violation("C17/keygen/fails", &format!("keygen fails: {e}"), json!({"spec": specs[i], "threads": threads})),
                    Ok(d) => {
                        rep.nontrivial(&(i, threads, r));
                        match &reference[i] {
                            None => reference[i] = Some(d),
                            Some(r0) if *r0 != d => {
                                let what = if r0.vk_raw != d.vk_raw { "vk-bytes" } else if r0.transcript_repr != d.transcript_repr { "transcript-repr" } else { "pk-bytes" };
                                rep.violation(
                                    &format!("C17/keygen/nondeterministic {what}"),
                                    &format!("key generation gives different {what} under a pool of {threads} threads (repetition {r})"),
                                    json!({"spec": specs[i], "threads": threads, "first": r0, "now": d}),
                                );
                            }
                            _ => {}
                        }
                    }
                }
            }
            for (name, d) in rel {
                rep.eval();
                match d {
                    Err(e) => rep.violation("C17/keygen-relation/fails", &format!("setup fails: {e}"), json!({"relation": name})),
                    Ok(d) => {
                        rep.nontrivial(&(name.clone(), threads, r));
                        match rel_reference.get(&name) {
                            None => {
                                rel_reference.insert(name, d);
                            }
                            Some(r0) if *r0 != d => rep.violation(
                                "C17/keygen-relation/nondeterministic",
                                &format!("setup_vk/setup_pk of {name} differ under a pool of {threads} threads"),
                                json!({"relation": name, "first": r0, "now": d}),
                            ),
                            _ => {}
                        }
                    }
                }
            }
        }
    }
    rep.set("pools", json!(pools));
    rep.set("repetitions_per_pool", json!(reps));
    rep.set("keygen_observations", json!(pool_obs));

    // ---- (a') separate processes -----------------------------------------------------------------
    let exe = std::env::current_exe().expect("current exe");
    let mut child_ok = 0;
    for c in 0..n_children {
        let out = Command::new(&exe)
            .args(["--child", "1", "--seed", &ctx.seed.to_string(), "--child-n", &n_specs.to_string()])
            .env("RAYON_NUM_THREADS", ["2", "5", "16", "7"][c % 4])
            .output();
        let Ok(out) = out else {
            rep.inconclusive("child process could not be started");
            continue;
        };
        let line = String::from_utf8_lossy(&out.stdout);
        let Some(j) = line.lines().rev().find_map(|l| serde_json::from_str::<serde_json::Value>(l).ok()) else {
            rep.inconclusive(&format!("child {c} produced no digest (status {:?})", out.status));
            continue;
        };
        child_ok += 1;
        let fam: Vec<Result<KeyDigest, String>> = serde_json::from_value(j["family"].clone()).unwrap_or_default();
        for (i, d) in fam.into_iter().enumerate() {
            rep.eval();
            if let (Ok(d), Some(r0)) = (d, reference.get(i).and_then(|x| x.as_ref())) {
                rep.nontrivial(&("child", c, i));
                if *r0 != d {
                    rep.violation(
                        "C17/keygen/nondeterministic across-processes",
                        "key generation gives different keys in a fresh process",
                        json!({"spec": specs[i], "parent": r0, "child": d}),
                    );
                }
            }
        }
        let rel: BTreeMap<String, Result<KeyDigest, String>> = serde_json::from_value(j["relations"].clone()).unwrap_or_default();
        for (name, d) in rel {
            rep.eval();
            if let (Ok(d), Some(r0)) = (d, rel_reference.get(&name)) {
                rep.nontrivial(&("child-rel", c, name.clone()));
                if *r0 != d {
                    rep.violation(
                        "C17/keygen-relation/nondeterministic across-processes",
                        &format!("setup of {name} differs in a fresh process"),
                        json!({"relation": name, "parent": r0, "child": d}),
                    );
                }
            }
        }
    }
    rep.set("child_processes_compared", json!(child_ok));

    // ---- (b)(c) round trips and interchange ------------------------------------------------------
    let mut rng = ctx.rng("c17-rt");
    for spec in &specs {
        roundtrip_family(spec, &mut rep, &mut rng);
    }
    rep.sample(json!({"spec_features": specs.iter().map(|s| s.features()).collect::<Vec<_>>(), "reference_digest": reference.first()}));

    // ---- (e) façade wrappers ---------------------------------------------------------------------
    relation_roundtrip("ArithRel", &ArithRel, ArithRel::sample(&mut rng), &mut rep, &mut rng);
    relation_roundtrip("PoseidonRel", &PoseidonRel, PoseidonRel::sample(&mut rng), &mut rep, &mut rng);
    if ctx.tier == Tier::Thorough {
        relation_roundtrip("EccRel", &EccRel, EccRel::sample(&mut rng), &mut rep, &mut rng);
    }

    // ---- (d) parameters --------------------------------------------------------------------------
    params_checks(&mut rep, ctx.tier.pick(7, 10));

    rep.min_nontrivial = 30;
    chip_library::run(&ctx, &mut rep);
    rep.finish();
}
