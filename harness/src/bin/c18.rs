//! C18 — ZKIR: off-circuit evaluation and the compiled circuit agree on every program.
//!
//! Workload: (1) a fixed family of single-operation "leaf" programs over boundary operands,
//! (2) seeded random typed straight-line programs (17 operations, 6 value types, constants in
//! every documented syntax, dataflow reuse), (3) ill-formed variants derived from both.
//! Oracles: D = `public_inputs` vs the compiled circuit (harness constraint evaluator AND the
//! repository's mock checker; `Ok(P)` => accepted with `format_instance(P)` and rejected with any
//! position incremented; `Err` => synthesis error or unsatisfied with the instance the circuit
//! binds itself); R = harness reference interpreter written from the documentation (BigUint
//! arithmetic, `sha2`, documented byte orders; Poseidon values are C07's subject); T = panic
//! capture around every call; round trips through `read` / `write_relation` / `read_relation`.
//! Every finding is minimised (greedy instruction removal) before its signature is derived.

#[path = "c18_gen/model.rs"]
mod model;
#[path = "c18_gen/gen.rs"]
mod gen;
#[path = "c18_gen/oracle.rs"]
mod oracle;

use std::collections::BTreeMap;

use mzv::common::*;
use rand::Rng;
use rayon::prelude::*;
use serde_json::json;

use gen::*;
use model::*;
use oracle::*;

fn mbl_for(rng: &mut rand_chacha::ChaCha8Rng) -> Option<u8> {
    match rng.gen_range(0..10) {
        0..=5 => None,
        6 => Some(8),
        7 => Some(9),
        8 => Some(10),
        _ => Some(12),
    }
}

fn coverage(rep: &mut Report, case: &Case, st: &Stats) {
    let (_, mem) = reference(&case.prog, &case.wit);
    for ins in &case.prog {
        let op = op_name(&ins.operation);
        let ty = match &ins.operation {
            midnight_zkir::Operation::Load(t) | midnight_zkir::Operation::FromBytes(t) => ty_name(t).to_string(),
            _ => ins
                .inputs
                .iter()
                .rev()
                .find_map(|n| mem.get(n).cloned().or_else(|| parse_const(n)))
                .map(|v| ty_name(&v.ty()).to_string())
                .unwrap_or("?".into()),
        };
        rep.count(&format!("op[{op}:{ty}]"));
        for n in &ins.inputs {
            if !mem.contains_key(n) {
                if let Some(v) = parse_const(n) {
                    rep.count(&format!("constant[{}]", ty_name(&v.ty())));
                }
            }
        }
    }
    rep.count(&format!("outcome[expected={} off={} circuit={}]", st.expected, st.off, st.circuit));
    if let Some(k) = st.k {
        rep.count(&format!("k[{k:02}]"));
    }
    rep.count_n("instance_edits", st.edits as u64);
    rep.count_n("roundtrip_checks", st.roundtrips as u64);
    rep.count_n("program_length_total", case.prog.len() as u64);
    if st.ref_mock_disagree {
        rep.count("reference_vs_mock_disagree");
    }
}

fn main() {
    let ctx = Ctx::from_args("C18");
    let thorough = ctx.tier == Tier::Thorough;
    let mut rep = Report::new(
        &ctx,
        "cases = fixed single-operation leaf programs on boundary operands + seeded random typed straight-line ZKIR programs \
         (length 1..25, 17 operations, 6 types, constants in every syntax) + ill-formed variants of both; a case is non-trivial \
         when the off-circuit interpreter returned a value/error (no harness failure) and, for programs that compile, a circuit \
         verdict (accept / reject / synthesis error) was obtained from the harness evaluator and the mock checker",
    );
    rep.assume("constraint satisfaction = harness row-by-row evaluator AND MockProver (no real proofs in this check; C01/C02 tie them to the verifier)");
    rep.assume("Poseidon values are taken from the repository's CPU implementation (subject of C07); curve and field arithmetic of midnight-curves is trusted here (C10/C11)");
    rep.assume("unsatisfiability of a failing execution is checked for the honest witness only (synthesis error or rejected honest run), no adversarial search");
    if let Err(e) = self_test() {
        rep.inconclusive(&e);
        rep.finish();
    }

    // ---- replay ------------------------------------------------------------------------------
    if let Some(path) = ctx.replay.clone() {
        let Some(j) = load_replay(&path) else {
            rep.inconclusive("cannot read replay file");
            rep.finish();
        };
        let w = j.get("witness").cloned().unwrap_or(j.clone());
        for key in ["minimal", "original"] {
            if let Some(case) = w.get(key).and_then(Case::from_json) {
                let (fs, st) = run_case(&case, &Opts { deep: true, max_edits: 64 });
                rep.eval();
                rep.nontrivial(&case.to_json().to_string());
                rep.nontrivial(&format!("{key}-replay"));
                coverage(&mut rep, &case, &st);
                for f in fs {
                    let sig = signature(&f, &case);
                    rep.violation(&sig, &f.what, json!({ "minimal": case.to_json(), "detail": f.detail }));
                }
                if key == "minimal" {
                    break;
                }
            }
        }
        rep.finish();
    }

    // ---- workload ----------------------------------------------------------------------------
    let n_random = ctx.tier.pick(80usize, 3000usize);
    let variants_per_program = ctx.tier.pick(3usize, 2usize);
    let max_edits = ctx.tier.pick(6usize, 10usize);
    let mut cases: Vec<Case> = vec![];
    let mut rng_v = ctx.rng("c18-variants");
    for l in leaves() {
        cases.push(Case { label: format!("leaf/{}", l.label), prog: l.prog, wit: l.wit, mbl: None });
    }
    let n_leaves = cases.len();
    // ill-formed variants of leaves: every kind on a few fixed leaves (seed independent sites are
    // not required; the kinds are)
    for (i, kind) in VARIANT_KINDS.iter().enumerate() {
        for j in 0..ctx.tier.pick(3usize, 12usize) {
            let base = &cases[(i * 37 + j * 101 + 7) % n_leaves].clone();
            if let Some(v) = variant(kind, &base.prog, &base.wit, &mut rng_v) {
                cases.push(Case { label: format!("variant/{}/{}", v.kind, base.label), prog: v.prog, wit: v.wit, mbl: Some(8) });
            }
        }
    }
    for l in illtyped_fixed() {
        cases.push(Case { label: format!("variant/{}", l.label), prog: l.prog, wit: l.wit, mbl: Some(8) });
    }
    // every malformed constant, published
    for (i, c) in malformed_constants().into_iter().enumerate() {
        let mut prog = vec![ins(midnight_zkir::Operation::Load(midnight_zkir::IrType::JubjubPoint), &[], &["q"])];
        let mut wit = Wit::new();
        wit.insert("q".into(), Val::Point(point_generator()));
        prog.push(ins(midnight_zkir::Operation::Publish, &[c.as_str()], &[]));
        cases.push(Case { label: format!("variant/malformed-constant/{i}"), prog, wit, mbl: Some(8) });
    }
    let mut rng_p = ctx.rng("c18-programs");
    for i in 0..n_random {
        let g = random_program(&mut rng_p);
        let mbl = mbl_for(&mut rng_p);
        let label = format!("random/{i}/{:?}{}", g.theme, if g.risky { "/risky" } else { "" });
        for _ in 0..variants_per_program {
            let kind = VARIANT_KINDS[rng_v.gen_range(0..VARIANT_KINDS.len())];
            if let Some(v) = variant(kind, &g.prog, &g.wit, &mut rng_v) {
                cases.push(Case { label: format!("variant/{}/{label}", v.kind), prog: v.prog, wit: v.wit, mbl: Some(8) });
            }
        }
        cases.push(Case { label, prog: g.prog, wit: g.wit, mbl });
    }
    if let Ok(only) = std::env::var("C18_ONLY") {
        cases.retain(|c| c.label.contains(&only));
    }
    rep.set("workload", json!({ "leaves": n_leaves, "random_programs": n_random, "cases": cases.len() }));

    // ---- phase 1: run everything -------------------------------------------------------------
    let results: Vec<(Vec<Finding>, Stats)> = cases.par_iter().map(|c| run_case(c, &Opts { deep: true, max_edits })).collect();

    // ---- phase 2: choose what to minimise (deterministic order) ------------------------------
    let mut per_class: BTreeMap<String, u32> = BTreeMap::new();
    let mut todo: Vec<(usize, Finding)> = vec![];
    for (i, (fs, st)) in results.iter().enumerate() {
        let case = &cases[i];
        rep.eval();
        coverage(&mut rep, case, st);
        let harness_ok = st.off != "-" || st.expected == "ill";
        if harness_ok {
            rep.nontrivial(&(prog_json_text(&case.prog, false), wit_to_json(&case.wit).to_string()));
        }
        if i % 97 == 0 {
            rep.sample(json!({ "label": case.label, "program": case.prog, "expected": st.expected, "off_circuit": st.off, "circuit": st.circuit, "k": st.k }));
        }
        if std::env::var("C18_DEBUG").is_ok() {
            for f in fs {
                eprintln!("DEBUG {} :: {} :: {}", case.label, f.class, f.what.chars().take(150).collect::<String>().replace('\n', " "));
            }
        }
        let group = case.label.split('/').next().unwrap_or("?").to_string();
        rep.count(&format!("group[{group}] expected={} off={} circuit={}", st.expected, st.off, st.circuit));
        let mut seen = vec![];
        for f in fs {
            if seen.contains(&f.class) {
                continue;
            }
            seen.push(f.class.clone());
            // pre-shrink key: class + the operation the reference blames (or the last one)
            let (exp, _) = reference(&case.prog, &case.wit);
            let at = exp.at().unwrap_or(case.prog.len().saturating_sub(1));
            let key = format!("{}|{}", f.class, case.prog.get(at).map(|i| op_name(&i.operation)).unwrap_or("-"));
            let n = per_class.entry(key.clone()).or_insert(0);
            *n += 1;
            // round-trip findings do not depend on the program; panics with the same site, message
            // and blamed operation are minimised a few times; every other finding always is
            let limit = if f.class.contains("read_relation") || f.class.contains("roundtrip") {
                2
            } else if f.kind == "panic" {
                6
            } else {
                300
            };
            if *n <= limit {
                todo.push((i, f.clone()));
            } else {
                rep.count(&format!("finding_not_minimised_dup[{}]", f.class.chars().take(90).collect::<String>()));
            }
        }
    }

    // ---- phase 3: minimise, confirm, report --------------------------------------------------
    let shrunk: Vec<(usize, Finding, Case, Option<Finding>)> = todo
        .into_par_iter()
        .map(|(i, f)| {
            let min = shrink(&cases[i], &f.class);
            // re-execute the minimised case once
            let again = run_case(&min, &Opts { deep: true, max_edits: 64 }).0.into_iter().find(|g| g.class == f.class);
            (i, f, min, again)
        })
        .collect();
    for (i, f, min, again) in shrunk {
        match again {
            None => rep.inconclusive(&format!("finding {} on case {} did not reproduce after minimisation", f.class, cases[i].label)),
            Some(g) => {
                let sig = signature(&g, &min);
                rep.violation(
                    &sig,
                    &g.what,
                    json!({
                        "minimal": min.to_json(),
                        "original": cases[i].to_json(),
                        "detail": g.detail,
                    }),
                );
            }
        }
    }

    // ---- planned classes must have been exercised --------------------------------------------
    let keys: Vec<String> = rep.counters.keys().cloned().collect();
    let have = |prefix: &str| keys.iter().any(|k| k.starts_with(prefix));
    for op in ALL_OPS {
        if !have(&format!("op[{op}:")) {
            rep.inconclusive(&format!("operation {op} never generated"));
        }
    }
    for t in ["Bool", "Bytes", "Native", "BigUint", "JubjubPoint", "JubjubScalar"] {
        if !have(&format!("op[publish:{t}]")) || !have(&format!("constant[{t}]")) {
            rep.inconclusive(&format!("type {t} never published / never used as a constant"));
        }
    }
    if !have("outcome[expected=ok off=ok circuit=accept]") || !have("outcome[expected=fail") || !have("outcome[expected=ill") {
        rep.inconclusive("an outcome class (succeeding / failing / ill-formed) was never observed");
    }
    // operation x operand-type matrix (measured)
    let mut matrix: BTreeMap<String, BTreeMap<String, u64>> = BTreeMap::new();
    for (k, v) in &rep.counters {
        if let Some(rest) = k.strip_prefix("op[") {
            if let Some((op, ty)) = rest.trim_end_matches(']').split_once(':') {
                *matrix.entry(op.to_string()).or_default().entry(ty.to_string()).or_insert(0) += v;
            }
        }
    }
    rep.set("op_type_matrix", json!(matrix));
    rep.min_nontrivial = ctx.tier.pick(300, 3000);
    let _ = thorough;
    rep.finish();
}
