//! C18 generators: typed random straight-line programs with witnesses, the fixed (seed
//! independent) family of single-operation "leaf" programs over boundary operands, and ill-formed
//! variants derived from a well-formed program.

use midnight_zkir::{Instruction, IrType, Operation};
use num_bigint::{BigUint, RandBigInt};
use num_traits::{One, Zero};
use rand::{seq::SliceRandom, Rng};
use rand_chacha::ChaCha8Rng;

use super::model::*;

#[derive(Clone, Copy, Debug, PartialEq, Eq)]
pub enum K {
    Bool,
    Bytes,
    Native,
    Big,
    Point,
    Scalar,
}

pub fn kind_of(t: &IrType) -> K {
    match t {
        IrType::Bool => K::Bool,
        IrType::Bytes(_) => K::Bytes,
        IrType::Native => K::Native,
        IrType::BigUint(_) => K::Big,
        IrType::JubjubPoint => K::Point,
        IrType::JubjubScalar => K::Scalar,
    }
}

#[derive(Clone, Debug)]
struct Var {
    name: String,
    /// for BigUint the size is the harness' estimate of the in-circuit bound
    ty: IrType,
    val: Option<Val>,
}

#[derive(Clone, Debug)]
enum Opnd {
    Var(usize),
    Const(Val, u32),
}

#[derive(Clone, Copy, Debug, PartialEq, Eq)]
pub enum Theme {
    Native,
    Big,
    Bytes,
    Jubjub,
    Hash,
    Mixed,
}

pub struct Generated {
    pub prog: Prog,
    pub wit: Wit,
    pub theme: Theme,
    pub risky: bool,
}

// ---------------------------------------------------------------------------------------------
// value classes
// ---------------------------------------------------------------------------------------------

pub fn pow2(n: u32) -> BigUint {
    BigUint::one() << n
}

pub fn rand_native(rng: &mut ChaCha8Rng) -> BigUint {
    let p = p_mod();
    match rng.gen_range(0..12) {
        0 => BigUint::zero(),
        1 => BigUint::one(),
        2 => p - 1u32,
        3 => BigUint::from(rng.gen_range(0u32..256)),
        4 => pow2([8, 16, 64, 128, 248, 254][rng.gen_range(0..6)]) - 1u32,
        5 => pow2([8, 64, 248][rng.gen_range(0..3)]),
        _ => rng.gen_biguint_below(&p),
    }
}

pub fn rand_big(rng: &mut ChaCha8Rng, bits: u32) -> BigUint {
    if bits == 0 {
        return BigUint::zero();
    }
    match rng.gen_range(0..10) {
        0 => BigUint::zero(),
        1 => BigUint::one(),
        2 | 3 => pow2(bits) - 1u32,
        4 => pow2(bits - 1),
        5 => {
            let b = rng.gen_range(1..=bits) as u64;
            rng.gen_biguint(b)
        }
        _ => rng.gen_biguint(bits as u64),
    }
}

pub fn rand_scalar(rng: &mut ChaCha8Rng) -> BigUint {
    let r = r_mod();
    match rng.gen_range(0..8) {
        0 => BigUint::zero(),
        1 => BigUint::one(),
        2 => r - 1u32,
        3 => BigUint::from(rng.gen_range(2u32..1000)),
        _ => rng.gen_biguint_below(&r),
    }
}

pub fn rand_point(rng: &mut ChaCha8Rng) -> [u8; 32] {
    match rng.gen_range(0..7) {
        0 => point_identity(),
        1 => point_generator(),
        _ => {
            let s = rand_scalar(rng);
            match eval_op(&Operation::Mul, &[Val::Scalar(s), Val::Point(point_generator())]) {
                Ev::Ok(v) => match &v[0] {
                    Val::Point(b) => *b,
                    _ => point_generator(),
                },
                _ => point_generator(),
            }
        }
    }
}

pub fn rand_bytes(rng: &mut ChaCha8Rng, n: usize) -> Vec<u8> {
    match rng.gen_range(0..6) {
        0 => vec![0; n],
        1 => vec![0xff; n],
        _ => (0..n).map(|_| rng.gen()).collect(),
    }
}

fn bytes_len_class(rng: &mut ChaCha8Rng) -> usize {
    match rng.gen_range(0..10) {
        0 => 0,
        1 => 1,
        2 => 32,
        3 => [12, 13, 24, 31, 33][rng.gen_range(0..5)],
        4 => [55, 56, 63, 64, 65, 70][rng.gen_range(0..6)],
        _ => rng.gen_range(0..=70),
    }
}

fn big_width_class(rng: &mut ChaCha8Rng) -> u32 {
    match rng.gen_range(0..40) {
        0 => 0,
        1 | 2 => 1,
        3..=6 => 8,
        7..=12 => 64,
        13..=15 => 95,
        16..=19 => 96,
        20..=22 => 97,
        23..=26 => 128,
        27..=29 => 192,
        30..=32 => 256,
        33 | 34 => 384,
        35 | 36 => 512,
        37 => 1024,
        _ => rng.gen_range(2..300),
    }
}

pub fn rand_val(rng: &mut ChaCha8Rng, t: &IrType) -> Val {
    match t {
        IrType::Bool => Val::Bool(rng.gen()),
        IrType::Bytes(n) => Val::Bytes(rand_bytes(rng, *n)),
        IrType::Native => Val::Native(rand_native(rng)),
        IrType::BigUint(n) => Val::Big(rand_big(rng, *n)),
        IrType::JubjubPoint => Val::Point(rand_point(rng)),
        IrType::JubjubScalar => Val::Scalar(rand_scalar(rng)),
    }
}

fn big_bound(t: &IrType) -> u32 {
    match t {
        IrType::BigUint(n) => *n,
        _ => 0,
    }
}

// ---------------------------------------------------------------------------------------------
// the random program generator
// ---------------------------------------------------------------------------------------------

struct G<'a> {
    rng: &'a mut ChaCha8Rng,
    prog: Prog,
    wit: Wit,
    env: Vec<Var>,
    next: usize,
    failed: bool,
    after_fail: usize,
    theme: Theme,
    risky: bool,
    pfail: f64,
    heavy: i32,
}

pub fn ins(op: Operation, inputs: &[&str], outputs: &[&str]) -> Instruction {
    Instruction {
        operation: op,
        inputs: inputs.iter().map(|s| s.to_string()).collect(),
        outputs: outputs.iter().map(|s| s.to_string()).collect(),
    }
}

impl G<'_> {
    fn fresh(&mut self) -> String {
        let n = format!("v{}", self.next);
        self.next += 1;
        n
    }

    fn jj_enabled(&self) -> bool {
        self.prog.iter().any(|i| {
            matches!(
                i.operation,
                Operation::Load(IrType::JubjubPoint | IrType::JubjubScalar) | Operation::FromBytes(IrType::JubjubPoint | IrType::JubjubScalar)
            )
        })
    }

    fn load(&mut self, t: IrType, n_out: usize) -> Vec<usize> {
        let mut names = vec![];
        let mut idx = vec![];
        for _ in 0..n_out {
            let name = self.fresh();
            let mut v = rand_val(self.rng, &t);
            // witness one bit wider than declared: ill-typed witness (rare)
            let mut bad = false;
            if let IrType::BigUint(n) = t {
                if self.risky && self.rng.gen_bool(0.05) {
                    v = Val::Big(pow2(n) + self.rng.gen_biguint(n as u64));
                    bad = true;
                }
            }
            self.wit.insert(name.clone(), v.clone());
            let val = if self.failed || bad { None } else { Some(v) };
            if bad {
                self.failed = true;
            }
            self.env.push(Var { name: name.clone(), ty: t, val });
            idx.push(self.env.len() - 1);
            names.push(name);
        }
        self.prog.push(Instruction { operation: Operation::Load(t), inputs: vec![], outputs: names });
        idx
    }

    fn vars_of(&self, k: K) -> Vec<usize> {
        (0..self.env.len()).filter(|i| kind_of(&self.env[*i].ty) == k).collect()
    }

    fn default_type(&mut self, k: K) -> IrType {
        match k {
            K::Bool => IrType::Bool,
            K::Bytes => {
                let n = bytes_len_class(self.rng);
                // Bytes(0) / BigUint(0) loads are known panics: leaves and `risky` programs only
                IrType::Bytes(if n == 0 && !self.risky { 2 } else { n })
            }
            K::Native => IrType::Native,
            K::Big => {
                let w = big_width_class(self.rng).min(if self.theme == Theme::Big { 1024 } else { 256 });
                IrType::BigUint(if w == 0 && !self.risky { 3 } else { w })
            }
            K::Point => IrType::JubjubPoint,
            K::Scalar => IrType::JubjubScalar,
        }
    }

    /// A variable of kind `k`, loading one when none exists (or sometimes anyway).
    fn var(&mut self, k: K) -> usize {
        let c = self.vars_of(k);
        if c.is_empty() || self.rng.gen_bool(0.12) {
            let t = self.default_type(k);
            return self.load(t, 1)[0];
        }
        // bias to recent results
        if self.rng.gen_bool(0.5) {
            c[c.len() - 1 - self.rng.gen_range(0..c.len().min(3))]
        } else {
            c[self.rng.gen_range(0..c.len())]
        }
    }

    /// Operand of kind `k`: a variable, or (sometimes) a constant in a random syntax.
    fn opnd(&mut self, k: K) -> Opnd {
        if self.rng.gen_bool(0.18) {
            let t = self.default_type(k);
            let t = match t {
                IrType::BigUint(n) => IrType::BigUint(n.min(256)),
                IrType::Bytes(n) => IrType::Bytes(n.min(40)),
                t => t,
            };
            let v = rand_val(self.rng, &t);
            return self.constant(v);
        }
        Opnd::Var(self.var(k))
    }

    fn constant(&mut self, v: Val) -> Opnd {
        if matches!(v, Val::Point(_) | Val::Scalar(_)) && !self.risky && !self.jj_enabled() {
            // documented as valid anywhere; kept for the `risky` programs and the leaves because a
            // Jubjub constant without a Jubjub load is a known panic (would mask everything else)
            self.load(IrType::JubjubPoint, 1);
        }
        Opnd::Const(v, self.rng.gen_range(0..16))
    }

    fn name_of(&self, o: &Opnd) -> String {
        match o {
            Opnd::Var(i) => self.env[*i].name.clone(),
            Opnd::Const(v, style) => const_str(v, *style),
        }
    }
    fn val_of(&self, o: &Opnd) -> Option<Val> {
        match o {
            Opnd::Var(i) => self.env[*i].val.clone(),
            Opnd::Const(v, _) => Some(v.clone()),
        }
    }
    fn ty_of(&self, o: &Opnd) -> IrType {
        match o {
            Opnd::Var(i) => self.env[*i].ty,
            Opnd::Const(Val::Big(b), _) => IrType::BigUint((b.bits() as u32).max(1)),
            Opnd::Const(v, _) => v.ty(),
        }
    }

    fn out_types(&self, op: &Operation, tys: &[IrType]) -> Vec<IrType> {
        use Operation::*;
        let b = |i: usize| big_bound(&tys[i]);
        match op {
            Load(_) | Publish | AssertEqual | AssertNotEqual => vec![],
            IsEqual => vec![IrType::Bool],
            Add => vec![match tys[0] {
                IrType::BigUint(_) => IrType::BigUint(b(0).max(b(1)) + 1),
                t => t,
            }],
            Sub | Neg => vec![tys[0]],
            Mul => vec![match tys[0] {
                IrType::BigUint(_) => IrType::BigUint(b(0) + b(1)),
                IrType::JubjubScalar => IrType::JubjubPoint,
                t => t,
            }],
            ModExp(0) => vec![IrType::BigUint(1)],
            ModExp(1) => vec![tys[0]],
            ModExp(_) => vec![tys[1]],
            InnerProduct => {
                let h = tys.len() / 2;
                vec![match tys[0] {
                    IrType::BigUint(_) => IrType::BigUint((0..h).map(|i| b(i) + b(h + i)).max().unwrap_or(1) + 3),
                    IrType::JubjubScalar => IrType::JubjubPoint,
                    t => t,
                }]
            }
            AffineCoordinates => vec![IrType::Native, IrType::Native],
            IntoBytes(n) => vec![IrType::Bytes(*n)],
            FromBytes(t) => vec![match (t, tys[0]) {
                (IrType::BigUint(_), IrType::Bytes(n)) => IrType::BigUint((8 * n as u32).max(1)),
                _ => *t,
            }],
            Poseidon => vec![IrType::Native],
            Sha256 => vec![IrType::Bytes(32)],
            Sha512 => vec![IrType::Bytes(64)],
        }
    }

    /// Appends an instruction on well-typed operands; returns the indices of its results.
    fn emit(&mut self, op: Operation, ops: &[Opnd]) -> Vec<usize> {
        let tys: Vec<IrType> = ops.iter().map(|o| self.ty_of(o)).collect();
        let out_tys = self.out_types(&op, &tys);
        let vals: Option<Vec<Val>> = if self.failed { None } else { ops.iter().map(|o| self.val_of(o)).collect() };
        let mut out_vals: Vec<Option<Val>> = vec![None; out_tys.len()];
        if let Some(vals) = vals {
            if !matches!(op, Operation::Publish) {
                match eval_op(&op, &vals) {
                    Ev::Ok(v) => out_vals = v.into_iter().map(Some).collect(),
                    Ev::Fail(_) | Ev::Ill(_) => self.failed = true,
                }
            }
        }
        let names: Vec<String> = out_tys.iter().map(|_| self.fresh()).collect();
        let mut idx = vec![];
        for ((n, t), v) in names.iter().zip(out_tys).zip(out_vals) {
            let t = match (&t, &v) {
                // keep the estimate at least as large as the value
                (IrType::BigUint(b), Some(Val::Big(x))) => IrType::BigUint((*b).max(x.bits() as u32)),
                _ => t,
            };
            self.env.push(Var { name: n.clone(), ty: t, val: v });
            idx.push(self.env.len() - 1);
        }
        self.prog.push(Instruction { operation: op, inputs: ops.iter().map(|o| self.name_of(o)).collect(), outputs: names });
        idx
    }

    fn want_fail(&mut self) -> bool {
        !self.failed && self.rng.gen_bool(self.pfail)
    }

    fn step(&mut self) {
        use Theme::*;
        // (weight per theme: Native, Big, Bytes, Jubjub, Hash, Mixed)
        const W: [(&str, [u32; 6]); 17] = [
            ("load", [6, 6, 6, 6, 4, 6]),
            ("publish", [10, 10, 10, 10, 8, 10]),
            ("assert_equal", [5, 5, 4, 4, 2, 4]),
            ("assert_not_equal", [5, 5, 4, 4, 2, 4]),
            ("is_equal", [6, 6, 5, 5, 2, 5]),
            ("add", [12, 12, 2, 6, 1, 6]),
            ("sub", [10, 12, 2, 5, 1, 6]),
            ("mul", [12, 10, 2, 3, 1, 5]),
            ("neg", [6, 0, 1, 4, 0, 3]),
            ("mod_exp", [0, 8, 0, 0, 0, 2]),
            ("inner_product", [6, 5, 0, 2, 0, 3]),
            ("affine_coordinates", [0, 0, 0, 6, 0, 2]),
            ("into_bytes", [5, 6, 12, 5, 3, 6]),
            ("from_bytes", [4, 5, 12, 5, 2, 6]),
            ("poseidon", [3, 0, 0, 1, 6, 2]),
            ("sha256", [0, 0, 1, 0, 8, 1]),
            ("sha512", [0, 0, 1, 0, 5, 1]),
        ];
        let ti = match self.theme {
            Native => 0,
            Big => 1,
            Bytes => 2,
            Jubjub => 3,
            Hash => 4,
            Mixed => 5,
        };
        let total: u32 = W.iter().map(|w| w.1[ti]).sum();
        let mut r = self.rng.gen_range(0..total);
        let mut choice = "publish";
        for (n, w) in W.iter() {
            if r < w[ti] {
                choice = n;
                break;
            }
            r -= w[ti];
        }
        let arith_kind = |g: &mut Self| -> K {
            match g.theme {
                Native => K::Native,
                Big => {
                    if g.rng.gen_bool(0.85) {
                        K::Big
                    } else {
                        K::Native
                    }
                }
                Jubjub => [K::Point, K::Point, K::Native][g.rng.gen_range(0..3)],
                Bytes | Hash => [K::Native, K::Big][g.rng.gen_range(0..2)],
                Mixed => [K::Native, K::Native, K::Big, K::Big, K::Point][g.rng.gen_range(0..5)],
            }
        };
        let any_kind = |g: &mut Self| -> K {
            let all = match g.theme {
                Jubjub | Mixed => vec![K::Bool, K::Bytes, K::Native, K::Big, K::Point, K::Scalar],
                _ => vec![K::Bool, K::Bytes, K::Native, K::Big],
            };
            // prefer kinds already present
            let present: Vec<K> = all.iter().copied().filter(|k| !g.vars_of(*k).is_empty()).collect();
            if !present.is_empty() && g.rng.gen_bool(0.8) {
                present[g.rng.gen_range(0..present.len())]
            } else {
                all[g.rng.gen_range(0..all.len())]
            }
        };
        match choice {
            "load" => {
                let k = any_kind(self);
                let t = self.default_type(k);
                let n = self.rng.gen_range(1..=3);
                self.load(t, n);
            }
            "publish" => {
                let n = [1, 1, 1, 2, 2, 3, 4][self.rng.gen_range(0..7)];
                let mut ops: Vec<Opnd> = vec![];
                for _ in 0..n {
                    if !ops.is_empty() && self.rng.gen_bool(0.15) {
                        // the same value again
                        let o: Opnd = ops[self.rng.gen_range(0..ops.len())].clone();
                        ops.push(o);
                        continue;
                    }
                    let k = any_kind(self);
                    let o = if self.rng.gen_bool(0.1) {
                        let t = self.default_type(k);
                        let t = match t {
                            IrType::BigUint(n) => IrType::BigUint(n.min(256)),
                            IrType::Bytes(n) => IrType::Bytes(n.min(40)),
                            t => t,
                        };
                        {
                            let v = rand_val(self.rng, &t);
                            self.constant(v)
                        }
                    } else {
                        Opnd::Var(self.var(k))
                    };
                    ops.push(o);
                }
                self.emit(Operation::Publish, &ops);
            }
            "assert_equal" | "assert_not_equal" | "is_equal" => {
                let mut k = any_kind(self);
                if k == K::Scalar {
                    k = K::Point;
                }
                let a = self.var(k);
                let av = self.env[a].val.clone();
                let aty = self.env[a].ty;
                let want_eq = match choice {
                    "assert_equal" => !self.want_fail(),
                    "assert_not_equal" => self.want_fail(),
                    _ => self.rng.gen_bool(0.5),
                };
                let b: Opnd = if want_eq {
                    match (&av, self.rng.gen_range(0..3)) {
                        (Some(v), 0) => self.constant(v.clone()),
                        (Some(v), 1) => {
                            // another variable with the same value, if there is one
                            let same: Vec<usize> = self.vars_of(k).into_iter().filter(|i| *i != a && self.env[*i].val.as_ref() == Some(v)).collect();
                            Opnd::Var(same.first().copied().unwrap_or(a))
                        }
                        _ => Opnd::Var(a),
                    }
                } else {
                    // something of the same type (same length for bytes) with, most likely, another value
                    let others: Vec<usize> = self.vars_of(k).into_iter().filter(|i| *i != a && (k != K::Bytes || self.env[*i].ty == aty)).collect();
                    if !others.is_empty() && self.rng.gen_bool(0.6) {
                        Opnd::Var(others[self.rng.gen_range(0..others.len())])
                    } else if k == K::Bytes {
                        let v = rand_val(self.rng, &aty);
                        if let IrType::Bytes(n) = aty {
                            if n > 40 {
                                Opnd::Var(self.load(aty, 1)[0])
                            } else {
                                self.constant(v)
                            }
                        } else {
                            self.constant(v)
                        }
                    } else {
                        let t = match aty {
                            IrType::BigUint(n) => IrType::BigUint(n.min(256)),
                            t => t,
                        };
                        let mut v = rand_val(self.rng, &t);
                        // near miss: value +- 1
                        if let (Some(Val::Native(x)), true) = (&av, self.rng.gen_bool(0.4)) {
                            v = Val::Native((x + 1u32) % p_mod());
                        }
                        if let (Some(Val::Big(x)), true) = (&av, self.rng.gen_bool(0.4)) {
                            v = Val::Big(x + 1u32);
                        }
                        self.constant(v)
                    }
                };
                let op = match choice {
                    "assert_equal" => Operation::AssertEqual,
                    "assert_not_equal" => Operation::AssertNotEqual,
                    _ => Operation::IsEqual,
                };
                let ops = if self.rng.gen_bool(0.5) { vec![Opnd::Var(a), b] } else { vec![b, Opnd::Var(a)] };
                self.emit(op, &ops);
            }
            "add" | "sub" | "mul" => {
                let k = arith_kind(self);
                let op = match choice {
                    "add" => Operation::Add,
                    "sub" => Operation::Sub,
                    _ => Operation::Mul,
                };
                if k == K::Point && choice == "mul" {
                    if self.heavy <= 0 {
                        return self.step_cheap();
                    }
                    self.heavy -= 1;
                    let s = self.opnd(K::Scalar);
                    let q = self.opnd(K::Point);
                    self.emit(op, &[s, q]);
                    return;
                }
                let mut a = self.opnd(k);
                let mut b = self.opnd(k);
                if k == K::Big {
                    let (ba, bb) = (big_bound(&self.ty_of(&a)), big_bound(&self.ty_of(&b)));
                    if choice == "mul" && ba + bb > 1536 {
                        return self.step_cheap();
                    }
                    if choice == "sub" {
                        if let (Some(Val::Big(x)), Some(Val::Big(y))) = (self.val_of(&a), self.val_of(&b)) {
                            let underflow = x < y;
                            if underflow != self.want_fail() {
                                std::mem::swap(&mut a, &mut b);
                            }
                            // equal operands: the boundary x - x
                            if self.rng.gen_bool(0.1) {
                                b = a.clone();
                            }
                        }
                    }
                }
                self.emit(op, &[a, b]);
            }
            "neg" => {
                let k = if self.theme == Theme::Jubjub && self.rng.gen_bool(0.6) { K::Point } else { K::Native };
                let a = self.opnd(k);
                self.emit(Operation::Neg, &[a]);
            }
            "mod_exp" => {
                let e = [0u64, 1, 2, 2, 3, 65537][self.rng.gen_range(0..6)];
                let mut x = self.opnd(K::Big);
                let mut m = self.opnd(K::Big);
                let (bx, bm) = (big_bound(&self.ty_of(&x)), big_bound(&self.ty_of(&m)));
                let limit = if e > 3 { 200 } else { 600 };
                if bx > limit || bm > limit {
                    let w = [8u32, 64, 96, 128, 192][self.rng.gen_range(0..5)];
                    x = Opnd::Var(self.load(IrType::BigUint(w), 1)[0]);
                    m = Opnd::Var(self.load(IrType::BigUint(w), 1)[0]);
                }
                if e > 3 {
                    if self.heavy <= 0 {
                        return self.step_cheap();
                    }
                    self.heavy -= 1;
                }
                if let (Some(Val::Big(xv)), Some(Val::Big(mv))) = (self.val_of(&x), self.val_of(&m)) {
                    if !self.risky {
                        // boundary moduli 0 / 1 and x >= m with exponent 1 are exercised by the leaves
                        // and by `risky` programs (see the findings they produce)
                        if mv <= BigUint::one() || (e == 1 && xv >= mv) {
                            if xv > BigUint::one() && xv > mv {
                                std::mem::swap(&mut x, &mut m);
                            } else {
                                return self.step_cheap();
                            }
                        }
                    }
                }
                self.emit(Operation::ModExp(e), &[x, m]);
            }
            "inner_product" => {
                let mut k = arith_kind(self);
                let n = [1usize, 1, 2, 2, 3, 3, 4, 5, 6, 8][self.rng.gen_range(0..10)];
                if k == K::Point {
                    if self.heavy <= 0 {
                        k = K::Native;
                    } else {
                        self.heavy -= 1;
                    }
                }
                let n = if k == K::Point { n.min(3) } else { n };
                let (ka, kb) = if k == K::Point { (K::Scalar, K::Point) } else { (k, k) };
                let mut a = vec![];
                let mut b = vec![];
                for _ in 0..n {
                    a.push(self.opnd(ka));
                    b.push(self.opnd(kb));
                }
                if k == K::Big {
                    let tot: u32 = a.iter().chain(b.iter()).map(|o| big_bound(&self.ty_of(o))).max().unwrap_or(0);
                    if tot > 520 {
                        return self.step_cheap();
                    }
                }
                a.extend(b);
                self.emit(Operation::InnerProduct, &a);
            }
            "affine_coordinates" => {
                let a = self.opnd(K::Point);
                self.emit(Operation::AffineCoordinates, &[a]);
            }
            "into_bytes" => {
                let k = match self.theme {
                    Native => K::Native,
                    Big => K::Big,
                    Jubjub => [K::Point, K::Point, K::Native][self.rng.gen_range(0..3)],
                    _ => [K::Native, K::Big, K::Big][self.rng.gen_range(0..3)],
                };
                let a = self.opnd(k);
                let n = match k {
                    K::Point => 32,
                    K::Native => {
                        let need = match self.val_of(&a) {
                            Some(Val::Native(x)) => x.bits().div_ceil(8) as usize,
                            _ => 32,
                        };
                        if need > 0 && self.want_fail() {
                            need - 1
                        } else {
                            let c = [need, need + 1, 31, 32, 32, need.max(1), if self.risky { 33 } else { 32 }, if self.risky { 0 } else { need }];
                            c[self.rng.gen_range(0..c.len())].max(need).max(if self.risky { 0 } else { 1 }).min(if self.risky { 40 } else { 32 })
                        }
                    }
                    _ => {
                        let bound = big_bound(&self.ty_of(&a)).max(1);
                        let need = match self.val_of(&a) {
                            Some(Val::Big(x)) => x.bits().div_ceil(8) as usize,
                            _ => bound.div_ceil(8) as usize,
                        };
                        let limb_bytes = 12 * bound.div_ceil(96) as usize;
                        if need > 0 && self.want_fail() {
                            need - 1
                        } else if self.risky && self.rng.gen_bool(0.5) {
                            // wider than the limbs hold (documented valid: "for any n")
                            [limb_bytes + 1, limb_bytes + 12, limb_bytes + 13, 70][self.rng.gen_range(0..4)].max(need)
                        } else {
                            let c = [need.max(1), need + 1, bound.div_ceil(8) as usize, limb_bytes, limb_bytes.saturating_sub(1)];
                            c[self.rng.gen_range(0..c.len())].max(need).max(1).min(limb_bytes.max(need))
                        }
                    }
                };
                self.emit(Operation::IntoBytes(n), &[a]);
            }
            "from_bytes" => {
                let t = match self.theme {
                    Native => IrType::Native,
                    Big => IrType::BigUint(0),
                    Jubjub => [IrType::JubjubPoint, IrType::JubjubScalar, IrType::JubjubScalar][self.rng.gen_range(0..3)],
                    Mixed => [IrType::Native, IrType::BigUint(0), IrType::JubjubPoint, IrType::JubjubScalar][self.rng.gen_range(0..4)],
                    _ => [IrType::Native, IrType::BigUint(0), IrType::BigUint(0)][self.rng.gen_range(0..3)],
                };
                let src: Opnd = match t {
                    IrType::JubjubPoint => {
                        // a valid encoding most of the time
                        if self.rng.gen_bool(0.8) {
                            let q = Val::Point(rand_point(self.rng));
                            let enc = match &q {
                                Val::Point(b) => b.to_vec(),
                                _ => unreachable!(),
                            };
                            match self.rng.gen_range(0..3) {
                                0 => self.constant(Val::Bytes(enc)),
                                1 => {
                                    let name = self.load(IrType::Bytes(32), 1)[0];
                                    let nm = self.env[name].name.clone();
                                    self.wit.insert(nm, Val::Bytes(enc.clone()));
                                    if self.env[name].val.is_some() {
                                        self.env[name].val = Some(Val::Bytes(enc));
                                    }
                                    Opnd::Var(name)
                                }
                                _ => {
                                    let pv = self.opnd(K::Point);
                                    Opnd::Var(self.emit(Operation::IntoBytes(32), &[pv])[0])
                                }
                            }
                        } else {
                            Opnd::Var(self.load(IrType::Bytes(32), 1)[0])
                        }
                    }
                    _ => {
                        let c: Vec<usize> = self.vars_of(K::Bytes);
                        if !c.is_empty() && self.rng.gen_bool(0.6) {
                            Opnd::Var(c[self.rng.gen_range(0..c.len())])
                        } else {
                            self.opnd(K::Bytes)
                        }
                    }
                };
                let len = match self.ty_of(&src) {
                    IrType::Bytes(n) => n,
                    _ => 0,
                };
                let t = match t {
                    IrType::BigUint(_) => IrType::BigUint(8 * len as u32 + [0, 0, 1, 8, 100][self.rng.gen_range(0..5)]),
                    t => t,
                };
                if matches!(t, IrType::Native) && len > 32 && !self.risky {
                    return self.step_cheap();
                }
                self.emit(Operation::FromBytes(t), &[src]);
            }
            "poseidon" => {
                let n = self.rng.gen_range(1..=5);
                let ops: Vec<Opnd> = (0..n).map(|_| self.opnd(K::Native)).collect();
                self.emit(Operation::Poseidon, &ops);
            }
            "sha256" | "sha512" => {
                if self.heavy <= 0 {
                    return self.step_cheap();
                }
                self.heavy -= 2;
                let c: Vec<usize> = self.vars_of(K::Bytes);
                let a = if !c.is_empty() && self.rng.gen_bool(0.5) { Opnd::Var(c[self.rng.gen_range(0..c.len())]) } else { self.opnd(K::Bytes) };
                self.emit(if choice == "sha256" { Operation::Sha256 } else { Operation::Sha512 }, &[a]);
            }
            _ => unreachable!(),
        }
    }

    fn step_cheap(&mut self) {
        let k = [K::Native, K::Bool, K::Big][self.rng.gen_range(0..3)];
        let a = self.var(k);
        self.emit(Operation::Publish, &[Opnd::Var(a)]);
    }
}

/// One random well-typed program with its witness. `index` only selects the theme mix.
pub fn random_program(rng: &mut ChaCha8Rng) -> Generated {
    let theme = match rng.gen_range(0..100) {
        0..=27 => Theme::Native,
        28..=55 => Theme::Big,
        56..=70 => Theme::Bytes,
        71..=82 => Theme::Jubjub,
        83..=90 => Theme::Hash,
        _ => Theme::Mixed,
    };
    let risky = rng.gen_bool(0.2);
    let want_fail = rng.gen_bool(0.3);
    // lengths 1..25, skewed to short programs
    let len = 1 + (rng.gen_range(0..25usize) * rng.gen_range(5..25usize)) / 24;
    let heavy = match theme {
        Theme::Hash => rng.gen_range(2..=4),
        Theme::Jubjub => rng.gen_range(1..=3),
        Theme::Mixed => rng.gen_range(0..=2),
        _ => rng.gen_range(0..=1),
    };
    let mut g = G {
        rng,
        prog: vec![],
        wit: Wit::new(),
        env: vec![],
        next: 0,
        failed: false,
        after_fail: 0,
        theme,
        risky,
        pfail: if want_fail { 0.25 } else { 0.0 },
        heavy,
    };
    while g.prog.len() < len {
        g.step();
        if g.failed {
            g.after_fail += 1;
            if g.after_fail > 3 {
                break;
            }
        }
    }
    // most programs end by publishing something they computed
    if !g.failed && !g.env.is_empty() && g.rng.gen_bool(0.7) {
        let i = g.env.len() - 1;
        g.emit(Operation::Publish, &[Opnd::Var(i)]);
    }
    Generated { prog: g.prog, wit: g.wit, theme, risky }
}

// ---------------------------------------------------------------------------------------------
// leaves: one operation on boundary operands, results published (seed independent)
// ---------------------------------------------------------------------------------------------

pub struct Leaf {
    pub label: String,
    pub prog: Prog,
    pub wit: Wit,
}

/// `operands`: Some((declared type, value)) = loaded witness, or a constant.
pub enum LeafIn {
    W(IrType, Val),
    C(Val),
}

pub fn leaf(label: &str, op: Operation, inputs: Vec<LeafIn>, n_out: usize) -> Leaf {
    let mut prog = vec![];
    let mut wit = Wit::new();
    let mut names = vec![];
    for (i, x) in inputs.into_iter().enumerate() {
        match x {
            LeafIn::W(t, v) => {
                let n = format!("w{i}");
                prog.push(Instruction { operation: Operation::Load(t), inputs: vec![], outputs: vec![n.clone()] });
                wit.insert(n.clone(), v);
                names.push(n);
            }
            LeafIn::C(v) => names.push(const_str(&v, (i as u32 * 7 + label.len() as u32) % 16)),
        }
    }
    let outs: Vec<String> = (0..n_out).map(|i| format!("r{i}")).collect();
    match op {
        Operation::Publish => prog.push(Instruction { operation: op, inputs: names, outputs: vec![] }),
        _ => {
            prog.push(Instruction { operation: op, inputs: names, outputs: outs.clone() });
            if !outs.is_empty() {
                prog.push(Instruction { operation: Operation::Publish, inputs: outs, outputs: vec![] });
            }
        }
    }
    Leaf { label: label.to_string(), prog, wit }
}

pub fn leaves() -> Vec<Leaf> {
    use LeafIn::*;
    use Operation::*;
    let mut out = vec![];
    let p = p_mod();
    let r = r_mod();
    let nat = |x: BigUint| W(IrType::Native, Val::Native(x));
    let big = |w: u32, x: BigUint| W(IrType::BigUint(w), Val::Big(x));
    let byt = |b: Vec<u8>| W(IrType::Bytes(b.len()), Val::Bytes(b));
    let pnt = |b: [u8; 32]| W(IrType::JubjubPoint, Val::Point(b));
    let scl = |x: BigUint| W(IrType::JubjubScalar, Val::Scalar(x));
    let g = point_generator();
    let id = point_identity();
    let g5 = match eval_op(&Mul, &[Val::Scalar(5u32.into()), Val::Point(g)]) {
        Ev::Ok(v) => match v[0] {
            Val::Point(b) => b,
            _ => g,
        },
        _ => g,
    };
    let n0 = BigUint::zero();
    let n1 = BigUint::one();
    let pat = |n: usize, seed: u8| -> Vec<u8> { (0..n).map(|i| (i as u8).wrapping_mul(37).wrapping_add(seed)).collect() };

    // load + publish of every type, boundary values
    for (l, x) in [
        ("bool-0", W(IrType::Bool, Val::Bool(false))),
        ("bool-1", W(IrType::Bool, Val::Bool(true))),
        ("bytes-0", byt(vec![])),
        ("bytes-1", byt(vec![0xff])),
        ("bytes-70", byt(pat(70, 3))),
        ("native-0", nat(n0.clone())),
        ("native-p-1", nat(&p - 1u32)),
        ("big0-0", big(0, n0.clone())),
        ("big1-1", big(1, n1.clone())),
        ("big96-max", big(96, pow2(96) - 1u32)),
        ("big97-max", big(97, pow2(97) - 1u32)),
        ("big97-0", big(97, n0.clone())),
        ("big256-max", big(256, pow2(256) - 1u32)),
        ("big64-65bits", big(64, pow2(64))),
        ("point-id", pnt(id)),
        ("point-g", pnt(g)),
        ("scalar-0", scl(n0.clone())),
        ("scalar-r-1", scl(&r - 1u32)),
        ("const-bool", C(Val::Bool(true))),
        ("const-bytes", C(Val::Bytes(vec![1, 2, 3]))),
        ("const-bytes-empty", C(Val::Bytes(vec![]))),
        ("const-native", C(Val::Native(&p - 1u32))),
        ("const-big", C(Val::Big(pow2(100)))),
        ("const-big-0", C(Val::Big(n0.clone()))),
        ("const-point", C(Val::Point(g))),
        ("const-point-id", C(Val::Point(id))),
        ("const-scalar", C(Val::Scalar(&r - 1u32))),
    ] {
        out.push(leaf(&format!("publish/{l}"), Publish, vec![x], 0));
    }
    out.push(leaf("publish/repeated", Publish, vec![nat(n1.clone()), C(Val::Bool(true)), big(97, pow2(96))], 0));

    // equality family: each type, equal and unequal
    let eq_cases: Vec<(&str, Box<dyn Fn() -> (LeafIn, LeafIn)>)> = vec![
        ("bool-eq", Box::new(|| (W(IrType::Bool, Val::Bool(true)), W(IrType::Bool, Val::Bool(true))))),
        ("bool-ne", Box::new(|| (W(IrType::Bool, Val::Bool(true)), W(IrType::Bool, Val::Bool(false))))),
        ("bytes-eq", Box::new(move || (W(IrType::Bytes(5), Val::Bytes(pat(5, 1))), W(IrType::Bytes(5), Val::Bytes(pat(5, 1)))))),
        ("bytes-ne-last", Box::new(move || {
            let mut b = pat(5, 1);
            b[4] ^= 1;
            (W(IrType::Bytes(5), Val::Bytes(pat(5, 1))), W(IrType::Bytes(5), Val::Bytes(b)))
        })),
        ("bytes0-eq", Box::new(|| (W(IrType::Bytes(0), Val::Bytes(vec![])), W(IrType::Bytes(0), Val::Bytes(vec![]))))),
        ("native-eq", Box::new(|| (W(IrType::Native, Val::Native(p_mod() - 1u32)), C(Val::Native(p_mod() - 1u32))))),
        ("native-ne", Box::new(|| (W(IrType::Native, Val::Native(BigUint::zero())), W(IrType::Native, Val::Native(p_mod() - 1u32))))),
        ("big-eq-widths", Box::new(|| (W(IrType::BigUint(64), Val::Big(7u32.into())), W(IrType::BigUint(300), Val::Big(7u32.into()))))),
        ("big-ne-high-limb", Box::new(|| (W(IrType::BigUint(200), Val::Big(pow2(150) + 7u32)), W(IrType::BigUint(200), Val::Big(7u32.into()))))),
        ("big-ne-widths", Box::new(|| (W(IrType::BigUint(64), Val::Big(7u32.into())), W(IrType::BigUint(300), Val::Big(pow2(96) + 7u32))))),
        ("big-eq-const", Box::new(|| (W(IrType::BigUint(128), Val::Big(pow2(100))), C(Val::Big(pow2(100)))))),
        ("point-eq", Box::new(|| (W(IrType::JubjubPoint, Val::Point(point_generator())), C(Val::Point(point_generator()))))),
        ("point-ne", Box::new(|| (W(IrType::JubjubPoint, Val::Point(point_generator())), W(IrType::JubjubPoint, Val::Point(point_identity()))))),
        ("point-ne-neg", Box::new(|| {
            let ng = match eval_op(&Operation::Neg, &[Val::Point(point_generator())]) {
                Ev::Ok(v) => v[0].clone(),
                _ => Val::Point(point_identity()),
            };
            (W(IrType::JubjubPoint, Val::Point(point_generator())), W(IrType::JubjubPoint, ng))
        })),
    ];
    for (l, mk) in &eq_cases {
        for (opn, op, no) in [("is_equal", IsEqual, 1), ("assert_equal", AssertEqual, 0), ("assert_not_equal", AssertNotEqual, 0)] {
            let (a, b) = mk();
            out.push(leaf(&format!("{opn}/{l}"), op, vec![a, b], no));
        }
    }

    // empty byte arrays through constants (no Load(Bytes(0)) involved)
    {
        let e = || C(Val::Bytes(vec![]));
        out.push(leaf("is_equal/bytes0-const", IsEqual, vec![e(), e()], 1));
        out.push(leaf("assert_equal/bytes0-const", AssertEqual, vec![e(), e()], 0));
        out.push(leaf("assert_not_equal/bytes0-const", AssertNotEqual, vec![e(), e()], 0));
        out.push(leaf("sha256/const-0", Sha256, vec![e()], 1));
        out.push(leaf("sha512/const-0", Sha512, vec![e()], 1));
        out.push(leaf("from_bytes/native/const-0", FromBytes(IrType::Native), vec![e()], 1));
        out.push(leaf("from_bytes/big/const-0", FromBytes(IrType::BigUint(0)), vec![e()], 1));
        out.push(leaf("from_bytes/big1/const-0", FromBytes(IrType::BigUint(1)), vec![e()], 1));
        let mut l = leaf("from_bytes/scalar/const-0", FromBytes(IrType::JubjubScalar), vec![e()], 1);
        l.prog.insert(0, ins(Load(IrType::JubjubScalar), &[], &["s"]));
        l.wit.insert("s".into(), Val::Scalar(1u32.into()));
        out.push(l);
    }

    // add / sub / mul / neg
    for (l, a, b) in [
        ("native-wrap", nat(&p - 1u32), nat(n1.clone())),
        ("native-0", nat(n0.clone()), nat(n0.clone())),
        ("native-rand", nat(pow2(200) + 12345u32), nat(pow2(254) - 3u32)),
        ("big-carry", big(96, pow2(96) - 1u32), big(96, n1.clone())),
        ("big-widths", big(300, pow2(300) - 1u32), big(8, 255u32.into())),
        ("big-0", big(64, n0.clone()), big(64, n0.clone())),
        ("big-equal", big(128, pow2(100)), big(128, pow2(100))),
        ("big-underflow", big(128, pow2(100)), big(128, pow2(100) + 1u32)),
        ("big-underflow-wide", big(8, 5u32.into()), big(300, pow2(299))),
        ("point-g-g", pnt(g), pnt(g)),
        ("point-g-id", pnt(g), pnt(id)),
        ("point-id-id", pnt(id), pnt(id)),
        ("point-g-g5", pnt(g), pnt(g5)),
    ] {
        for (opn, op) in [("add", Add), ("sub", Sub), ("mul", Mul)] {
            if opn == "mul" && l.starts_with("point") {
                continue;
            }
            let cl = |x: &LeafIn| match x {
                W(t, v) => W(*t, v.clone()),
                C(v) => C(v.clone()),
            };
            out.push(leaf(&format!("{opn}/{l}"), op, vec![cl(&a), cl(&b)], 1));
        }
    }
    for (l, s, q) in [
        ("0-g", scl(n0.clone()), pnt(g)),
        ("1-g", scl(n1.clone()), pnt(g)),
        ("r-1-g", scl(&r - 1u32), pnt(g)),
        ("rand-g5", scl(pow2(250) + 99u32), pnt(g5)),
        ("rand-id", scl(pow2(200) + 1u32), pnt(id)),
        ("const-const", C(Val::Scalar(12345u32.into())), pnt(g)),
    ] {
        out.push(leaf(&format!("mul/scalar-{l}"), Mul, vec![s, q], 1));
    }
    for (l, a) in [("native-0", nat(n0.clone())), ("native-1", nat(n1.clone())), ("native-p-1", nat(&p - 1u32)), ("point-g", pnt(g)), ("point-id", pnt(id))] {
        out.push(leaf(&format!("neg/{l}"), Neg, vec![a], 1));
    }

    // mod_exp
    for e in [0u64, 1, 2, 65537] {
        for (l, x, m) in [
            ("x<m", big(64, 123456789u32.into()), big(64, pow2(63) + 11u32)),
            ("x>=m", big(128, pow2(100) + 5u32), big(64, 1000003u32.into())),
            ("x=0", big(64, n0.clone()), big(64, 97u32.into())),
            ("m=1", big(64, 12345u32.into()), big(64, n1.clone())),
            ("m=0", big(64, 12345u32.into()), big(64, n0.clone())),
            ("m-const", big(128, pow2(127) + 1u32), C(Val::Big(pow2(89) - 1u32))),
            ("two-limbs", big(192, pow2(191) + 77u32), big(192, pow2(190) + 12345u32)),
        ] {
            out.push(leaf(&format!("mod_exp/e={e}/{l}"), ModExp(e), vec![x, m], 1));
        }
    }

    // inner products of 2..8 terms
    for n in 1..=4usize {
        let a: Vec<LeafIn> = (0..n).map(|i| nat(pow2(250) + (i as u32))).chain((0..n).map(|i| nat(&p - (1u32 + i as u32)))).collect();
        out.push(leaf(&format!("inner_product/native-{n}"), InnerProduct, a, 1));
        let a: Vec<LeafIn> = (0..n).map(|i| big(100, pow2(99) + (i as u32))).chain((0..n).map(|i| big(64, pow2(64) - (1u32 + i as u32)))).collect();
        out.push(leaf(&format!("inner_product/big-{n}"), InnerProduct, a, 1));
    }
    for n in 1..=3usize {
        let a: Vec<LeafIn> = (0..n)
            .map(|i| scl(if i == 0 { &r - 1u32 } else { BigUint::from(i as u32) }))
            .chain((0..n).map(|i| pnt(if i == 1 { id } else if i == 2 { g5 } else { g })))
            .collect();
        out.push(leaf(&format!("inner_product/jubjub-{n}"), InnerProduct, a, 1));
    }

    for (l, q) in [("id", id), ("g", g), ("g5", g5)] {
        out.push(leaf(&format!("affine_coordinates/{l}"), AffineCoordinates, vec![pnt(q)], 2));
    }
    out.push(leaf("affine_coordinates/const-g", AffineCoordinates, vec![C(Val::Point(g))], 2));

    // into_bytes: n around and beyond the natural width
    for (l, x) in [("0", n0.clone()), ("255", 255u32.into()), ("2^248-1", pow2(248) - 1u32), ("p-1", &p - 1u32)] {
        for n in [0usize, 1, 31, 32, 33, 40] {
            out.push(leaf(&format!("into_bytes/native-{l}/n={n}"), IntoBytes(n), vec![nat(x.clone())], 1));
        }
    }
    for (w, x) in [(64u32, pow2(64) - 1u32), (96, pow2(96) - 1u32), (97, pow2(96)), (200, pow2(199) + 1u32), (200, 5u32.into()), (8, n0.clone())] {
        let need = x.bits().div_ceil(8) as usize;
        let limb = 12 * w.div_ceil(96) as usize;
        let mut ns = vec![0, need.saturating_sub(1), need, need + 1, limb, limb + 1, limb + 12, limb + 13, 70];
        ns.sort();
        ns.dedup();
        for n in ns {
            out.push(leaf(&format!("into_bytes/big{w}-{}bits/n={n}", x.bits()), IntoBytes(n), vec![big(w, x.clone())], 1));
        }
    }
    out.push(leaf("into_bytes/big-const/n=40", IntoBytes(40), vec![C(Val::Big(pow2(100)))], 1));
    for (l, q) in [("id", id), ("g", g), ("g5", g5)] {
        out.push(leaf(&format!("into_bytes/point-{l}/n=32"), IntoBytes(32), vec![pnt(q)], 1));
    }

    // from_bytes of every type
    for n in [0usize, 1, 12, 13, 31, 32, 33, 40, 64, 70] {
        for (l, b) in [("zeros", vec![0u8; n]), ("ff", vec![0xffu8; n]), ("pat", pat(n, 9))] {
            if n == 0 && l != "zeros" {
                continue;
            }
            out.push(leaf(&format!("from_bytes/native/{n}-{l}"), FromBytes(IrType::Native), vec![byt(b.clone())], 1));
            out.push(leaf(&format!("from_bytes/scalar/{n}-{l}"), FromBytes(IrType::JubjubScalar), vec![byt(b.clone())], 1));
            out.push(leaf(&format!("from_bytes/big-exact/{n}-{l}"), FromBytes(IrType::BigUint(8 * n as u32)), vec![byt(b.clone())], 1));
            if l == "pat" {
                out.push(leaf(&format!("from_bytes/big-wider/{n}-{l}"), FromBytes(IrType::BigUint(8 * n as u32 + 5)), vec![byt(b.clone())], 1));
            }
        }
    }
    {
        let mut le_r = r.to_bytes_le();
        le_r.resize(32, 0);
        out.push(leaf("from_bytes/scalar/32-order", FromBytes(IrType::JubjubScalar), vec![byt(le_r)], 1));
        let mut le_r1 = (&r - 1u32).to_bytes_le();
        le_r1.resize(32, 0);
        out.push(leaf("from_bytes/scalar/32-order-1", FromBytes(IrType::JubjubScalar), vec![byt(le_r1.clone())], 1));
        // a scalar >= group order through bytes, then used
        let mut l2 = leaf("from_bytes/scalar/32-ff-mul", FromBytes(IrType::JubjubScalar), vec![byt(vec![0xff; 32])], 1);
        l2.prog.pop();
        l2.prog.push(ins(Load(IrType::JubjubPoint), &[], &["q"]));
        l2.wit.insert("q".into(), Val::Point(g5));
        l2.prog.push(ins(Mul, &["r0", "q"], &["m"]));
        l2.prog.push(ins(Publish, &["m"], &[]));
        out.push(l2);
        // long byte strings reduced modulo the group order, observed through a published point
        // (publishing the scalar itself is the known from_bytes/len>=32 finding)
        for n in [33usize, 40, 63, 64, 65, 66, 70] {
            let mut top = vec![0u8; n];
            top[0] = 3;
            top[n - 1] = 1;
            for (l, b) in [("ff", vec![0xffu8; n]), ("pat", pat(n, 11)), ("top", top)] {
                let mut lm = leaf(&format!("from_bytes/scalar/{n}-{l}-mul"), FromBytes(IrType::JubjubScalar), vec![byt(b)], 1);
                lm.prog.pop();
                lm.prog.push(ins(Load(IrType::JubjubPoint), &[], &["q"]));
                lm.wit.insert("q".into(), Val::Point(if n % 2 == 0 { g5 } else { g }));
                lm.prog.push(ins(Mul, &["r0", "q"], &["m"]));
                lm.prog.push(ins(Publish, &["m"], &[]));
                out.push(lm);
            }
        }
        let mut le_p = p.to_bytes_le();
        le_p.resize(32, 0);
        out.push(leaf("from_bytes/native/32-modulus", FromBytes(IrType::Native), vec![byt(le_p)], 1));
        let mut le_p1 = (&p - 1u32).to_bytes_le();
        le_p1.resize(32, 0);
        out.push(leaf("from_bytes/native/32-modulus-1", FromBytes(IrType::Native), vec![byt(le_p1)], 1));
    }
    for (l, b) in [("id", id.to_vec()), ("g", g.to_vec()), ("g5", g5.to_vec()), ("zeros", vec![0u8; 32]), ("ff", vec![0xff; 32]), ("small-order", point_small_order().to_vec())] {
        out.push(leaf(&format!("from_bytes/point/{l}"), FromBytes(IrType::JubjubPoint), vec![byt(b.clone())], 1));
        if l == "g5" {
            out.push(leaf("from_bytes/point/g5-const", FromBytes(IrType::JubjubPoint), vec![C(Val::Bytes(b))], 1));
        }
    }
    {
        // non-canonical encoding of the identity: u = 0 with the sign bit set
        let mut b = id.to_vec();
        b[31] |= 0x80;
        out.push(leaf("from_bytes/point/id-sign-bit", FromBytes(IrType::JubjubPoint), vec![byt(b)], 1));
    }

    // hashes
    for n in [0usize, 1, 55, 56, 63, 64, 65, 70] {
        out.push(leaf(&format!("sha256/{n}"), Sha256, vec![byt(pat(n, 1))], 1));
    }
    for n in [0usize, 1, 64, 70] {
        out.push(leaf(&format!("sha512/{n}"), Sha512, vec![byt(pat(n, 2))], 1));
    }
    out.push(leaf("sha256/const-3", Sha256, vec![C(Val::Bytes(b"abc".to_vec()))], 1));
    for n in 1..=5usize {
        let a: Vec<LeafIn> = (0..n).map(|i| nat(if i == 0 { &p - 1u32 } else { BigUint::from(i as u32) })).collect();
        out.push(leaf(&format!("poseidon/{n}"), Poseidon, a, 1));
    }
    out
}

// ---------------------------------------------------------------------------------------------
// ill-formed variants
// ---------------------------------------------------------------------------------------------

pub struct Variant {
    pub kind: &'static str,
    pub prog: Prog,
    pub wit: Wit,
}

pub const VARIANT_KINDS: [&str; 11] = [
    "swap-load-type",
    "swap-operand-type",
    "arity-input",
    "arity-output",
    "duplicate-name",
    "missing-name",
    "missing-witness",
    "wrong-witness-type",
    "jubjub-constant-no-chip",
    "malformed-constant",
    "unsupported-type-op",
];

const OTHER_TYPES: [IrType; 7] =
    [IrType::Bool, IrType::Bytes(3), IrType::Native, IrType::BigUint(64), IrType::JubjubPoint, IrType::JubjubScalar, IrType::Bytes(33)];

pub const N_UNSUPPORTED: usize = 16;

/// An operation applied to a type its documentation excludes: (declared type, witness, operation,
/// second operand: "same" = the same variable, otherwise a constant).
pub fn unsupported_shape(i: usize) -> (IrType, Val, Operation, Option<&'static str>) {
    use Operation::*;
    match i {
        0 => (IrType::JubjubScalar, Val::Scalar(5u32.into()), IsEqual, Some("same")),
        1 => (IrType::JubjubScalar, Val::Scalar(5u32.into()), AssertEqual, Some("same")),
        2 => (IrType::JubjubScalar, Val::Scalar(5u32.into()), AssertNotEqual, Some("JubjubScalar:06")),
        3 => (IrType::Bool, Val::Bool(true), Add, Some("same")),
        4 => (IrType::JubjubScalar, Val::Scalar(5u32.into()), IntoBytes(32), None),
        5 => (IrType::JubjubPoint, Val::Point(point_generator()), IntoBytes(33), None),
        6 => (IrType::Bytes(4), Val::Bytes(vec![1, 2, 3, 4]), FromBytes(IrType::Bool), None),
        7 => (IrType::Bytes(5), Val::Bytes(vec![1, 2, 3, 4, 5]), FromBytes(IrType::BigUint(39)), None),
        8 => (IrType::Bytes(31), Val::Bytes(vec![1; 31]), FromBytes(IrType::JubjubPoint), None),
        9 => (IrType::BigUint(64), Val::Big(5u32.into()), Neg, None),
        10 => (IrType::Bytes(2), Val::Bytes(vec![1, 2]), IsEqual, Some("0x010203")),
        11 => (IrType::Native, Val::Native(5u32.into()), Sha256, None),
        12 => (IrType::Bytes(2), Val::Bytes(vec![1, 2]), AssertNotEqual, Some("0x010203")),
        13 => (IrType::Native, Val::Native(5u32.into()), AssertNotEqual, Some("BigUint:06")),
        14 => (IrType::JubjubPoint, Val::Point(point_generator()), Mul, Some("JubjubScalar:02")),
        _ => (IrType::BigUint(64), Val::Big(5u32.into()), Poseidon, None),
    }
}

/// Fixed ill-typed programs: every unsupported shape, alone and after a `Publish` (the latter
/// makes `public_inputs` derive the public-input types through the circuit).
pub fn illtyped_fixed() -> Vec<Leaf> {
    use Operation::*;
    let mut out = vec![];
    for i in 0..N_UNSUPPORTED {
        for with_publish in [false, true] {
            let (t, v, op, extra) = unsupported_shape(i);
            let mut prog = vec![];
            let mut wit = Wit::new();
            if with_publish {
                prog.push(ins(Load(IrType::Native), &[], &["x"]));
                wit.insert("x".into(), Val::Native(7u32.into()));
                prog.push(ins(Publish, &["x"], &[]));
            }
            prog.push(ins(Load(t), &[], &["a"]));
            wit.insert("a".into(), v);
            let mut inputs = vec!["a".to_string()];
            match extra {
                Some("same") => inputs.push("a".into()),
                Some(c) => inputs.push(c.to_string()),
                None => {}
            }
            let n_out = match op {
                AssertEqual | AssertNotEqual => 0,
                _ => 1,
            };
            prog.push(Instruction { operation: op, inputs, outputs: (0..n_out).map(|k| format!("o{k}")).collect() });
            out.push(Leaf { label: format!("unsupported/{i}-{}{}", op_name(&op), if with_publish { "/after-publish" } else { "" }), prog, wit });
        }
    }
    out
}

pub fn malformed_constants() -> Vec<String> {
    let p = p_mod();
    let r = r_mod();
    vec![
        format!("Native:{}", p.to_str_radix(16)),
        format!("Native:-{}", p.to_str_radix(16)),
        format!("Native:{}", "ff".repeat(33)),
        "Native:xyz".into(),
        "Native:abc".into(),
        "BigUint:".into(),
        "BigUint:xyz".into(),
        "BigUint:-5".into(),
        format!("Jubjub:{}", "00".repeat(32)),
        format!("Jubjub:{}", "ff".repeat(32)),
        format!("Jubjub:{}", hex::encode(point_small_order())),
        "Jubjub:abcd".into(),
        "Jubjub:generator".into(),
        format!("JubjubScalar:{}", r.to_str_radix(16)),
        format!("JubjubScalar:{}", "ff".repeat(33)),
        "JubjubScalar:zz".into(),
        "Foo:12".into(),
        "Native:12:34".into(),
        "0xabc".into(),
        "7".into(),
        "::".into(),
        "".into(),
    ]
}

/// Derives one ill-formed variant of the given kind; None when the program offers no site.
pub fn variant(kind: &'static str, prog: &Prog, wit: &Wit, rng: &mut ChaCha8Rng) -> Option<Variant> {
    let mut p = prog.clone();
    let mut w = wit.clone();
    let sites = |pred: &dyn Fn(&Instruction) -> bool| -> Vec<usize> { (0..prog.len()).filter(|i| pred(&prog[*i])).collect() };
    let (_, mem) = reference(prog, wit);
    match kind {
        "swap-load-type" => {
            let s = sites(&|i| matches!(i.operation, Operation::Load(_)));
            let i = *s.choose(rng)?;
            let Operation::Load(t) = p[i].operation else { return None };
            let cands: Vec<IrType> = OTHER_TYPES.iter().copied().filter(|o| kind_of(o) != kind_of(&t) || (kind_of(o) == K::Bytes && *o != t)).collect();
            p[i].operation = Operation::Load(*cands.choose(rng)?);
        }
        "swap-operand-type" => {
            // replace one variable operand by a variable / constant of another kind
            let s = sites(&|i| !i.inputs.is_empty() && !matches!(i.operation, Operation::Publish));
            let i = *s.choose(rng)?;
            let j = rng.gen_range(0..p[i].inputs.len());
            let cur = mem.get(&p[i].inputs[j]).cloned().or_else(|| parse_const(&p[i].inputs[j]))?;
            let mut pool: Vec<String> = vec![];
            for k in 0..i {
                for o in &prog[k].outputs {
                    if let Some(v) = mem.get(o) {
                        if kind_of(&v.ty()) != kind_of(&cur.ty()) {
                            pool.push(o.clone());
                        }
                    }
                }
            }
            for c in [Val::Bool(true), Val::Bytes(vec![1, 2]), Val::Native(5u32.into()), Val::Big(5u32.into())] {
                if kind_of(&c.ty()) != kind_of(&cur.ty()) {
                    pool.push(const_str(&c, rng.gen_range(0..16)));
                }
            }
            p[i].inputs[j] = pool.choose(rng)?.clone();
        }
        "arity-input" => {
            let i = rng.gen_range(0..p.len());
            use Operation::*;
            match p[i].operation {
                Load(_) => p[i].inputs.push("1".into()),
                Publish | Poseidon => p[i].inputs.clear(),
                InnerProduct => {
                    if rng.gen_bool(0.5) {
                        p[i].inputs.pop();
                    } else {
                        p[i].inputs.clear();
                    }
                }
                _ => {
                    if rng.gen_bool(0.5) || p[i].inputs.is_empty() {
                        let extra = p[i].inputs.first().cloned().unwrap_or("1".into());
                        p[i].inputs.push(extra);
                    } else {
                        p[i].inputs.pop();
                    }
                }
            }
        }
        "arity-output" => {
            let i = rng.gen_range(0..p.len());
            use Operation::*;
            match p[i].operation {
                Load(_) => p[i].outputs.clear(),
                Publish | AssertEqual | AssertNotEqual => p[i].outputs.push("zz_extra".into()),
                _ => {
                    if rng.gen_bool(0.5) {
                        p[i].outputs.push("zz_extra".into());
                    } else {
                        p[i].outputs.pop();
                    }
                }
            }
        }
        "duplicate-name" => {
            let s = sites(&|i| !i.outputs.is_empty());
            if s.is_empty() {
                return None;
            }
            let i = *s.choose(rng)?;
            let earlier: Vec<String> = prog[..i].iter().flat_map(|x| x.outputs.clone()).collect();
            if p[i].outputs.len() >= 2 && (earlier.is_empty() || rng.gen_bool(0.3)) {
                let n = p[i].outputs[0].clone();
                let last = p[i].outputs.len() - 1;
                p[i].outputs[last] = n;
            } else {
                let n = earlier.choose(rng)?.clone();
                p[i].outputs[0] = n;
            }
        }
        "missing-name" => {
            let s = sites(&|i| !i.inputs.is_empty());
            let i = *s.choose(rng)?;
            let j = rng.gen_range(0..p[i].inputs.len());
            p[i].inputs[j] = ["zz_undefined", "v9999", "q", "Native", "x:y"].choose(rng)?.to_string();
        }
        "missing-witness" => {
            let keys: Vec<String> = w.keys().cloned().collect();
            let k = keys.choose(rng)?;
            w.remove(k);
        }
        "wrong-witness-type" => {
            let keys: Vec<String> = w.keys().cloned().collect();
            let k = keys.choose(rng)?.clone();
            let cur = w.get(&k)?.clone();
            let new = match rng.gen_range(0..4) {
                0 => match &cur {
                    Val::Bytes(b) => {
                        let mut b = b.clone();
                        b.push(0);
                        Val::Bytes(b)
                    }
                    Val::Big(_) => Val::Native(1u32.into()),
                    _ => Val::Big(1u32.into()),
                },
                1 => match &cur {
                    // one bit wider than the declared width
                    Val::Big(_) => {
                        let decl = prog.iter().find_map(|i| match (&i.operation, i.outputs.contains(&k)) {
                            (Operation::Load(IrType::BigUint(n)), true) => Some(*n),
                            _ => None,
                        })?;
                        Val::Big(pow2(decl))
                    }
                    Val::Bytes(b) if !b.is_empty() => Val::Bytes(b[1..].to_vec()),
                    Val::Bool(_) => Val::Native(1u32.into()),
                    _ => Val::Bool(true),
                },
                2 => match &cur {
                    Val::Scalar(x) => Val::Native(x.clone()),
                    Val::Native(x) => Val::Scalar(x % r_mod()),
                    Val::Point(b) => Val::Bytes(b.to_vec()),
                    _ => Val::Point(point_generator()),
                },
                _ => match &cur {
                    Val::Bool(_) => Val::Bytes(vec![1]),
                    _ => Val::Bool(true),
                },
            };
            w.insert(k, new);
        }
        "jubjub-constant-no-chip" => {
            let uses_jj = prog.iter().any(|i| {
                matches!(
                    i.operation,
                    Operation::Load(IrType::JubjubPoint | IrType::JubjubScalar) | Operation::FromBytes(IrType::JubjubPoint | IrType::JubjubScalar)
                )
            });
            if uses_jj {
                return None;
            }
            let c = match rng.gen_range(0..4) {
                0 => "Jubjub:GENERATOR".to_string(),
                1 => "Jubjub:IDENTITY".to_string(),
                2 => const_str(&Val::Point(rand_point(rng)), rng.gen_range(0..4)),
                _ => const_str(&Val::Scalar(rand_scalar(rng)), rng.gen_range(0..16)),
            };
            // (this variant is well-formed by the documentation: constants may be published)
            let s = sites(&|i| matches!(i.operation, Operation::Publish));
            match s.choose(rng) {
                Some(i) => p[*i].inputs.push(c),
                None => p.push(Instruction { operation: Operation::Publish, inputs: vec![c], outputs: vec![] }),
            }
        }
        "malformed-constant" => {
            let s = sites(&|i| !i.inputs.is_empty());
            let i = *s.choose(rng)?;
            let j = rng.gen_range(0..p[i].inputs.len());
            p[i].inputs[j] = malformed_constants().choose(rng)?.clone();
        }
        "unsupported-type-op" => {
            // an operation applied to a type its documentation excludes
            use Operation::*;
            let n = format!("zz{}", rng.gen_range(0..1000));
            let (t, v, op, extra) = unsupported_shape(rng.gen_range(0..N_UNSUPPORTED));
            p.push(Instruction { operation: Load(t), inputs: vec![], outputs: vec![n.clone()] });
            w.insert(n.clone(), v);
            let mut inputs = vec![n.clone()];
            match extra {
                Some("same") => inputs.push(n.clone()),
                Some(c) => inputs.push(c.to_string()),
                None => {}
            }
            let n_out = match op {
                AssertEqual | AssertNotEqual => 0,
                _ => 1,
            };
            p.push(Instruction { operation: op, inputs, outputs: (0..n_out).map(|i| format!("{n}_o{i}")).collect() });
        }
        _ => return None,
    }
    Some(Variant { kind, prog: p, wit: w })
}
