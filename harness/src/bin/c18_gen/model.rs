//! C18 model: harness-side value type, constant syntax, hand-written JSON emitter and the
//! reference interpreter of ZKIR programs (written from the documentation of `Operation`,
//! `IrType`, `utils/constants.rs`, `into_bytes`/`from_bytes`; shares no code with zkir's parsers).

use std::collections::{BTreeMap, HashMap};

use ff::PrimeField;
use group::{Group, GroupEncoding};
use midnight_circuits::{hash::poseidon::PoseidonChip, instructions::hash::HashCPU};
use midnight_curves::{Fq as F, Fr as JFr, JubjubAffine, JubjubExtended, JubjubSubgroup};
use midnight_zkir::{Instruction, IrType, IrValue, Operation};
use num_bigint::BigUint;
use num_traits::{Num, One, Zero};
use serde_json::{json, Value as Json};
use sha2::Digest;

pub type Prog = Vec<Instruction>;
pub type Wit = BTreeMap<String, Val>;

pub const P_HEX: &str = "73eda753299d7d483339d80809a1d80553bda402fffe5bfeffffffff00000001";
pub const R_HEX: &str = "0e7db4ea6533afa906673b0101343b00a6682093ccc81082d0970e5ed6f72cb7";

pub fn p_mod() -> BigUint {
    BigUint::from_str_radix(P_HEX, 16).unwrap()
}
pub fn r_mod() -> BigUint {
    BigUint::from_str_radix(R_HEX, 16).unwrap()
}

/// Harness-side value. `Native` < p, `Scalar` < r (canonical integers); `Point` = repr_J bytes of
/// a point of the prime-order subgroup.
#[derive(Clone, Debug, PartialEq, Eq, Hash)]
pub enum Val {
    Bool(bool),
    Bytes(Vec<u8>),
    Native(BigUint),
    Big(BigUint),
    Point([u8; 32]),
    Scalar(BigUint),
}

fn le32(x: &BigUint) -> [u8; 32] {
    let mut b = x.to_bytes_le();
    b.resize(32, 0);
    b[..32].try_into().unwrap()
}
pub fn f_of_big(x: &BigUint) -> F {
    F::from_bytes_le(&le32(&(x % p_mod()))).unwrap()
}
pub fn big_of_f(x: &F) -> BigUint {
    BigUint::from_bytes_le(&x.to_bytes_le())
}
pub fn fr_of_big(x: &BigUint) -> JFr {
    JFr::from_bytes(&le32(&(x % r_mod()))).unwrap()
}
pub fn big_of_fr(x: &JFr) -> BigUint {
    BigUint::from_bytes_le(&x.to_bytes())
}
pub fn point_dec(b: &[u8; 32]) -> Option<JubjubSubgroup> {
    <JubjubSubgroup as GroupEncoding>::from_bytes(b).into_option()
}
pub fn point_enc(p: &JubjubSubgroup) -> [u8; 32] {
    <JubjubSubgroup as GroupEncoding>::to_bytes(p)
}
pub fn point_identity() -> [u8; 32] {
    point_enc(&JubjubSubgroup::identity())
}
pub fn point_generator() -> [u8; 32] {
    point_enc(&JubjubSubgroup::generator())
}
/// Encoding of (0, -1): on the curve, order 2, not in the prime-order subgroup.
pub fn point_small_order() -> [u8; 32] {
    le32(&(p_mod() - BigUint::one()))
}

impl Val {
    pub fn ty(&self) -> IrType {
        match self {
            Val::Bool(_) => IrType::Bool,
            Val::Bytes(v) => IrType::Bytes(v.len()),
            Val::Native(_) => IrType::Native,
            Val::Big(b) => IrType::BigUint(b.bits() as u32),
            Val::Point(_) => IrType::JubjubPoint,
            Val::Scalar(_) => IrType::JubjubScalar,
        }
    }
    pub fn to_ir(&self) -> IrValue {
        match self {
            Val::Bool(b) => IrValue::Bool(*b),
            Val::Bytes(v) => IrValue::Bytes(v.clone()),
            Val::Native(x) => IrValue::Native(f_of_big(x)),
            Val::Big(x) => IrValue::BigUint(x.clone()),
            Val::Point(b) => IrValue::JubjubPoint(point_dec(b).expect("harness: invalid point in Val")),
            Val::Scalar(x) => IrValue::JubjubScalar(fr_of_big(x)),
        }
    }
    pub fn from_ir(v: &IrValue) -> Val {
        match v {
            IrValue::Bool(b) => Val::Bool(*b),
            IrValue::Bytes(v) => Val::Bytes(v.clone()),
            IrValue::Native(x) => Val::Native(big_of_f(x)),
            IrValue::BigUint(x) => Val::Big(x.clone()),
            IrValue::JubjubPoint(p) => Val::Point(point_enc(p)),
            IrValue::JubjubScalar(s) => Val::Scalar(big_of_fr(s)),
        }
    }
    pub fn to_json(&self) -> Json {
        match self {
            Val::Bool(b) => json!({ "Bool": b }),
            Val::Bytes(v) => json!({ "Bytes": hex::encode(v) }),
            Val::Native(x) => json!({ "Native": x.to_str_radix(16) }),
            Val::Big(x) => json!({ "BigUint": x.to_str_radix(16) }),
            Val::Point(b) => json!({ "JubjubPoint": hex::encode(b) }),
            Val::Scalar(x) => json!({ "JubjubScalar": x.to_str_radix(16) }),
        }
    }
    pub fn from_json(j: &Json) -> Option<Val> {
        let o = j.as_object()?;
        let (k, v) = o.iter().next()?;
        let big = |v: &Json| BigUint::from_str_radix(v.as_str()?, 16).ok();
        Some(match k.as_str() {
            "Bool" => Val::Bool(v.as_bool()?),
            "Bytes" => Val::Bytes(hex::decode(v.as_str()?).ok()?),
            "Native" => Val::Native(big(v)?),
            "BigUint" => Val::Big(big(v)?),
            "JubjubPoint" => Val::Point(hex::decode(v.as_str()?).ok()?.try_into().ok()?),
            "JubjubScalar" => Val::Scalar(big(v)?),
            _ => return None,
        })
    }
}

pub fn wit_to_json(w: &Wit) -> Json {
    Json::Object(w.iter().map(|(k, v)| (k.clone(), v.to_json())).collect())
}
pub fn wit_from_json(j: &Json) -> Option<Wit> {
    j.as_object()?.iter().map(|(k, v)| Some((k.clone(), Val::from_json(v)?))).collect()
}

// ---------------------------------------------------------------------------------------------
// Names of operations / types
// ---------------------------------------------------------------------------------------------

pub fn op_name(op: &Operation) -> &'static str {
    use Operation::*;
    match op {
        Load(_) => "load",
        Publish => "publish",
        AssertEqual => "assert_equal",
        AssertNotEqual => "assert_not_equal",
        IsEqual => "is_equal",
        Add => "add",
        Sub => "sub",
        Mul => "mul",
        Neg => "neg",
        ModExp(_) => "mod_exp",
        InnerProduct => "inner_product",
        AffineCoordinates => "affine_coordinates",
        IntoBytes(_) => "into_bytes",
        FromBytes(_) => "from_bytes",
        Poseidon => "poseidon",
        Sha256 => "sha256",
        Sha512 => "sha512",
    }
}

pub const ALL_OPS: [&str; 17] = [
    "load",
    "publish",
    "assert_equal",
    "assert_not_equal",
    "is_equal",
    "add",
    "sub",
    "mul",
    "neg",
    "mod_exp",
    "inner_product",
    "affine_coordinates",
    "into_bytes",
    "from_bytes",
    "poseidon",
    "sha256",
    "sha512",
];

/// Type name without sizes (used in signatures and coverage tables).
pub fn ty_name(t: &IrType) -> &'static str {
    match t {
        IrType::Bool => "Bool",
        IrType::Bytes(_) => "Bytes",
        IrType::Native => "Native",
        IrType::BigUint(_) => "BigUint",
        IrType::JubjubPoint => "JubjubPoint",
        IrType::JubjubScalar => "JubjubScalar",
    }
}

fn ty_json(t: &IrType) -> String {
    match t {
        IrType::Bool => "\"Bool\"".into(),
        IrType::Bytes(n) => format!("{{\"Bytes\": {n}}}"),
        IrType::Native => "\"Native\"".into(),
        IrType::BigUint(n) => format!("{{ \"BigUint\" : {n} }}"),
        IrType::JubjubPoint => "\"JubjubPoint\"".into(),
        IrType::JubjubScalar => "\"JubjubScalar\"".into(),
    }
}

/// Hand-written JSON text of a program in the format of the repository's examples (independent
/// of the `Serialize` impl of `Instruction`). Empty input/output lists are omitted when
/// `omit_empty` (the format declares them optional).
pub fn prog_json_text(p: &Prog, omit_empty: bool) -> String {
    let mut s = String::from("{\n  \"version\": { \"major\": 3, \"minor\": 0 },\n  \"instructions\": [\n");
    for (i, ins) in p.iter().enumerate() {
        use Operation::*;
        let op = match &ins.operation {
            Load(t) => format!("{{\"load\": {}}}", ty_json(t)),
            ModExp(n) => format!("{{\"mod_exp\": {n}}}"),
            IntoBytes(n) => format!("{{\"into_bytes\": {n}}}"),
            FromBytes(t) => format!("{{\"from_bytes\": {}}}", ty_json(t)),
            o => format!("\"{}\"", op_name(o)),
        };
        let list = |v: &Vec<String>| {
            format!("[{}]", v.iter().map(|x| serde_json::to_string(x).unwrap()).collect::<Vec<_>>().join(", "))
        };
        s.push_str(&format!("    {{ \"op\": {op}"));
        if !(omit_empty && ins.inputs.is_empty()) {
            s.push_str(&format!(", \"inputs\": {}", list(&ins.inputs)));
        }
        if !(omit_empty && ins.outputs.is_empty()) {
            s.push_str(&format!(", \"outputs\": {}", list(&ins.outputs)));
        }
        s.push_str(" }");
        if i + 1 < p.len() {
            s.push(',');
        }
        s.push('\n');
    }
    s.push_str("  ]\n}\n");
    s
}

/// JSON through the public `Serialize` impl of `Instruction`.
pub fn prog_json_serde(p: &Prog) -> String {
    json!({ "instructions": p }).to_string()
}

// ---------------------------------------------------------------------------------------------
// Constants (documented syntax of utils/constants.rs)
// ---------------------------------------------------------------------------------------------

fn hex_payload(s: &str) -> Option<Vec<u8>> {
    let s = s.strip_prefix("0x").unwrap_or(s);
    if s.len() % 2 != 0 {
        return None;
    }
    hex::decode(s).ok()
}

/// Reference parser of a constant name. `None` = not a constant.
pub fn parse_const(s: &str) -> Option<Val> {
    let parts: Vec<&str> = s.split(':').collect();
    match parts.as_slice() {
        [b] if b.chars().count() == 1 => match *b {
            "0" => Some(Val::Bool(false)),
            "1" => Some(Val::Bool(true)),
            _ => None,
        },
        [h] => hex_payload(h).map(Val::Bytes),
        ["Native", payload] => {
            let (neg, body) = match payload.strip_prefix('-') {
                Some(r) => (true, r),
                None => (false, *payload),
            };
            let bytes = hex_payload(body)?;
            if bytes.len() > 32 {
                return None;
            }
            let x = BigUint::from_bytes_be(&bytes);
            let p = p_mod();
            if x >= p {
                return None;
            }
            Some(Val::Native(if neg && !x.is_zero() { p - x } else { x }))
        }
        ["BigUint", payload] => {
            let body = payload.strip_prefix("0x").unwrap_or(payload);
            if body.is_empty() || !body.chars().all(|c| c.is_ascii_hexdigit()) {
                return None;
            }
            BigUint::from_str_radix(body, 16).ok().map(Val::Big)
        }
        ["Jubjub", "GENERATOR"] => Some(Val::Point(point_generator())),
        ["Jubjub", "IDENTITY"] => Some(Val::Point(point_identity())),
        ["Jubjub", payload] => {
            let bytes: [u8; 32] = hex_payload(payload)?.try_into().ok()?;
            point_dec(&bytes).map(|_| Val::Point(bytes))
        }
        ["JubjubScalar", payload] => {
            let bytes = hex_payload(payload)?;
            if bytes.len() > 32 {
                return None;
            }
            let x = BigUint::from_bytes_be(&bytes);
            if x >= r_mod() {
                return None;
            }
            Some(Val::Scalar(x))
        }
        _ => None,
    }
}

fn be_hex(x: &BigUint, style: u32) -> String {
    // even-length big-endian hex; style bit 0: upper case, bit 1: 0x prefix, bit 2: leading 00
    let mut h = x.to_str_radix(16);
    if h.len() % 2 == 1 {
        h.insert(0, '0');
    }
    if style & 4 != 0 && h.len() < 62 {
        h.insert_str(0, "00");
    }
    if style & 1 != 0 {
        h = h.to_uppercase();
    }
    if style & 2 != 0 {
        h.insert_str(0, "0x");
    }
    h
}

/// Writes `v` as a constant in one of the documented syntaxes (selected by `style`). The result
/// always parses back to `v` with `parse_const` (checked by the caller in debug runs).
pub fn const_str(v: &Val, style: u32) -> String {
    match v {
        Val::Bool(b) => if *b { "1" } else { "0" }.to_string(),
        Val::Bytes(b) => {
            let mut h = hex::encode(b);
            if style & 1 != 0 {
                h = h.to_uppercase();
            }
            // one hex digit would read as a Bool; bytes are always an even number of digits, and
            // the empty array is written "0x"
            if style & 2 != 0 || b.is_empty() {
                h.insert_str(0, "0x");
            }
            h
        }
        Val::Native(x) => {
            let p = p_mod();
            if style & 8 != 0 && !x.is_zero() {
                format!("Native:-{}", be_hex(&(p - x), style))
            } else {
                format!("Native:{}", be_hex(x, style))
            }
        }
        Val::Big(x) => {
            let mut h = x.to_str_radix(16); // odd lengths allowed here
            if style & 1 != 0 {
                h = h.to_uppercase();
            }
            if style & 2 != 0 {
                h.insert_str(0, "0x");
            }
            format!("BigUint:{h}")
        }
        Val::Point(b) => {
            if *b == point_generator() && style & 4 != 0 {
                "Jubjub:GENERATOR".into()
            } else if *b == point_identity() && style & 4 != 0 {
                "Jubjub:IDENTITY".into()
            } else {
                let mut h = hex::encode(b);
                if style & 1 != 0 {
                    h = h.to_uppercase();
                }
                if style & 2 != 0 {
                    h.insert_str(0, "0x");
                }
                format!("Jubjub:{h}")
            }
        }
        Val::Scalar(x) => format!("JubjubScalar:{}", be_hex(x, style)),
    }
}

// ---------------------------------------------------------------------------------------------
// Reference semantics
// ---------------------------------------------------------------------------------------------

pub enum Ev {
    Ok(Vec<Val>),
    /// assertion / range / underflow / encoding / domain failure of a well-typed operation
    Fail(&'static str),
    /// ill-typed use
    Ill(String),
}

fn same_eq_type(a: &Val, b: &Val) -> bool {
    match (a, b) {
        (Val::Bool(_), Val::Bool(_)) | (Val::Native(_), Val::Native(_)) | (Val::Big(_), Val::Big(_)) | (Val::Point(_), Val::Point(_)) => true,
        (Val::Bytes(x), Val::Bytes(y)) => x.len() == y.len(),
        _ => false,
    }
}

fn pt(b: &[u8; 32]) -> JubjubSubgroup {
    point_dec(b).expect("harness: invalid point")
}

fn le_bytes_n(x: &BigUint, n: usize) -> Option<Vec<u8>> {
    let mut b = if x.is_zero() { vec![] } else { x.to_bytes_le() };
    if b.len() > n {
        return None;
    }
    b.resize(n, 0);
    Some(b)
}

pub fn eval_op(op: &Operation, inp: &[Val]) -> Ev {
    use Operation::*;
    use Val::*;
    let p = p_mod();
    let ill = |inp: &[Val]| Ev::Ill(format!("{} unsupported on {:?}", op_name(op), inp.iter().map(|v| v.ty()).collect::<Vec<_>>()));
    match (op, inp) {
        (AssertEqual, [a, b]) if same_eq_type(a, b) => {
            if a == b {
                Ev::Ok(vec![])
            } else {
                Ev::Fail("assertion")
            }
        }
        (AssertNotEqual, [a, b]) if same_eq_type(a, b) => {
            if a != b {
                Ev::Ok(vec![])
            } else {
                Ev::Fail("assertion")
            }
        }
        (IsEqual, [a, b]) if same_eq_type(a, b) => Ev::Ok(vec![Bool(a == b)]),
        (Add, [Native(a), Native(b)]) => Ev::Ok(vec![Native((a + b) % &p)]),
        (Add, [Big(a), Big(b)]) => Ev::Ok(vec![Big(a + b)]),
        (Add, [Point(a), Point(b)]) => Ev::Ok(vec![Point(point_enc(&(pt(a) + pt(b))))]),
        (Sub, [Native(a), Native(b)]) => Ev::Ok(vec![Native((&p + a - b) % &p)]),
        (Sub, [Big(a), Big(b)]) => {
            if a >= b {
                Ev::Ok(vec![Big(a - b)])
            } else {
                Ev::Fail("underflow")
            }
        }
        (Sub, [Point(a), Point(b)]) => Ev::Ok(vec![Point(point_enc(&(pt(a) - pt(b))))]),
        (Mul, [Native(a), Native(b)]) => Ev::Ok(vec![Native((a * b) % &p)]),
        (Mul, [Big(a), Big(b)]) => Ev::Ok(vec![Big(a * b)]),
        (Mul, [Scalar(s), Point(a)]) => Ev::Ok(vec![Point(point_enc(&(pt(a) * fr_of_big(s))))]),
        (Neg, [Native(a)]) => Ev::Ok(vec![Native((&p - a) % &p)]),
        (Neg, [Point(a)]) => Ev::Ok(vec![Point(point_enc(&(-pt(a))))]),
        (ModExp(n), [Big(x), Big(m)]) => {
            if m.is_zero() {
                Ev::Fail("modulus-zero")
            } else {
                // square and multiply written out (not BigUint::modpow, which zkir uses)
                let mut acc = BigUint::one() % m;
                let mut base = x % m;
                let mut e = *n;
                while e > 0 {
                    if e & 1 == 1 {
                        acc = (&acc * &base) % m;
                    }
                    base = (&base * &base) % m;
                    e >>= 1;
                }
                Ev::Ok(vec![Big(acc)])
            }
        }
        (InnerProduct, v) if !v.is_empty() && v.len() % 2 == 0 => {
            let h = v.len() / 2;
            let (a, b) = v.split_at(h);
            if a.iter().all(|x| matches!(x, Native(_))) && b.iter().all(|x| matches!(x, Native(_))) {
                let mut acc = BigUint::zero();
                for (x, y) in a.iter().zip(b) {
                    if let (Native(x), Native(y)) = (x, y) {
                        acc = (acc + x * y) % &p;
                    }
                }
                Ev::Ok(vec![Native(acc)])
            } else if a.iter().all(|x| matches!(x, Big(_))) && b.iter().all(|x| matches!(x, Big(_))) {
                let mut acc = BigUint::zero();
                for (x, y) in a.iter().zip(b) {
                    if let (Big(x), Big(y)) = (x, y) {
                        acc += x * y;
                    }
                }
                Ev::Ok(vec![Big(acc)])
            } else if a.iter().all(|x| matches!(x, Scalar(_))) && b.iter().all(|x| matches!(x, Point(_))) {
                let mut acc = JubjubSubgroup::identity();
                for (x, y) in a.iter().zip(b) {
                    if let (Scalar(x), Point(y)) = (x, y) {
                        acc += pt(y) * fr_of_big(x);
                    }
                }
                Ev::Ok(vec![Point(point_enc(&acc))])
            } else {
                ill(inp)
            }
        }
        (AffineCoordinates, [Point(a)]) => {
            let aff: JubjubAffine = Into::<JubjubExtended>::into(pt(a)).into();
            Ev::Ok(vec![Native(big_of_f(&aff.get_u())), Native(big_of_f(&aff.get_v()))])
        }
        (IntoBytes(n), [Native(x)]) | (IntoBytes(n), [Big(x)]) => match le_bytes_n(x, *n) {
            Some(b) => Ev::Ok(vec![Bytes(b)]),
            None => Ev::Fail("range"),
        },
        (IntoBytes(32), [Point(a)]) => Ev::Ok(vec![Bytes(a.to_vec())]),
        (FromBytes(IrType::Native), [Bytes(b)]) => Ev::Ok(vec![Native(BigUint::from_bytes_le(b) % &p)]),
        (FromBytes(IrType::BigUint(n)), [Bytes(b)]) if *n as usize >= 8 * b.len() => Ev::Ok(vec![Big(BigUint::from_bytes_le(b))]),
        (FromBytes(IrType::JubjubPoint), [Bytes(b)]) if b.len() == 32 => {
            let arr: [u8; 32] = b.clone().try_into().unwrap();
            match point_dec(&arr) {
                Some(q) if point_enc(&q) == arr => Ev::Ok(vec![Point(arr)]),
                _ => Ev::Fail("encoding"),
            }
        }
        (FromBytes(IrType::JubjubScalar), [Bytes(b)]) => Ev::Ok(vec![Scalar(BigUint::from_bytes_le(b) % r_mod())]),
        (Poseidon, v) if !v.is_empty() && v.iter().all(|x| matches!(x, Native(_))) => {
            // Poseidon itself is C07's subject: the repository's CPU implementation is used here
            let xs: Vec<F> = v.iter().map(|x| if let Native(x) = x { f_of_big(x) } else { unreachable!() }).collect();
            Ev::Ok(vec![Native(big_of_f(&<PoseidonChip<F> as HashCPU<F, F>>::hash(&xs)))])
        }
        (Sha256, [Bytes(b)]) => Ev::Ok(vec![Bytes(sha2::Sha256::digest(b).to_vec())]),
        (Sha512, [Bytes(b)]) => Ev::Ok(vec![Bytes(sha2::Sha512::digest(b).to_vec())]),
        _ => ill(inp),
    }
}

/// Documented arity of an instruction (Operation docs: "Inputs: / Outputs:").
pub fn arity_ok(ins: &Instruction) -> bool {
    use Operation::*;
    let (i, o) = (ins.inputs.len(), ins.outputs.len());
    match ins.operation {
        Load(_) => i == 0 && o >= 1,
        Publish => i >= 1 && o == 0,
        AssertEqual | AssertNotEqual => i == 2 && o == 0,
        IsEqual | Add | Sub | Mul | ModExp(_) => i == 2 && o == 1,
        Neg | IntoBytes(_) | FromBytes(_) | Sha256 | Sha512 => i == 1 && o == 1,
        InnerProduct => i >= 2 && i % 2 == 0 && o == 1,
        AffineCoordinates => i == 1 && o == 2,
        Poseidon => i >= 1 && o == 1,
    }
}

pub fn witness_fits(v: &Val, t: &IrType) -> bool {
    match (v, t) {
        (Val::Bool(_), IrType::Bool) | (Val::Native(_), IrType::Native) | (Val::Point(_), IrType::JubjubPoint) | (Val::Scalar(_), IrType::JubjubScalar) => true,
        (Val::Bytes(b), IrType::Bytes(n)) => b.len() == *n,
        (Val::Big(x), IrType::BigUint(n)) => x.bits() <= *n as u64,
        _ => false,
    }
}

#[derive(Clone, Debug)]
pub enum Outcome {
    /// published values, in order
    Ok(Vec<Val>),
    Fail { at: usize, kind: &'static str },
    Ill { at: usize, why: String, arity: bool, stat: bool },
}

impl Outcome {
    pub fn class(&self) -> &'static str {
        match self {
            Outcome::Ok(_) => "ok",
            Outcome::Fail { .. } => "fail",
            Outcome::Ill { .. } => "ill",
        }
    }
    pub fn at(&self) -> Option<usize> {
        match self {
            Outcome::Ok(_) => None,
            Outcome::Fail { at, .. } | Outcome::Ill { at, .. } => Some(*at),
        }
    }
}

fn kind_eq(a: &IrType, b: &IrType) -> bool {
    ty_name(a) == ty_name(b)
}

/// Static result types of an operation applied to operand types (BigUint widths are not tracked:
/// every BigUint is `BigUint(0)` here). `Err` = the documentation excludes this use.
pub fn type_op(op: &Operation, t: &[IrType]) -> Result<Vec<IrType>, String> {
    use IrType::*;
    use Operation::*;
    let bad = || Err(format!("{} unsupported on {:?}", op_name(op), t));
    let big = BigUint(0);
    Ok(match (op, t) {
        (AssertEqual | AssertNotEqual, [a, b]) | (IsEqual, [a, b]) => {
            let ok = match (a, b) {
                (Bytes(x), Bytes(y)) => x == y,
                (JubjubScalar, _) | (_, JubjubScalar) => false,
                (a, b) => kind_eq(a, b),
            };
            if !ok {
                return bad();
            }
            if matches!(op, IsEqual) {
                vec![Bool]
            } else {
                vec![]
            }
        }
        (Add | Sub, [Native, Native]) | (Mul, [Native, Native]) | (Neg, [Native]) => vec![Native],
        (Add | Sub | Mul, [BigUint(_), BigUint(_)]) | (ModExp(_), [BigUint(_), BigUint(_)]) => vec![big],
        (Add | Sub, [JubjubPoint, JubjubPoint]) | (Mul, [JubjubScalar, JubjubPoint]) | (Neg, [JubjubPoint]) => vec![JubjubPoint],
        (InnerProduct, v) if !v.is_empty() && v.len() % 2 == 0 => {
            let (a, b) = v.split_at(v.len() / 2);
            if a.iter().chain(b).all(|x| matches!(x, Native)) {
                vec![Native]
            } else if a.iter().chain(b).all(|x| matches!(x, BigUint(_))) {
                vec![big]
            } else if a.iter().all(|x| matches!(x, JubjubScalar)) && b.iter().all(|x| matches!(x, JubjubPoint)) {
                vec![JubjubPoint]
            } else {
                return bad();
            }
        }
        (AffineCoordinates, [JubjubPoint]) => vec![Native, Native],
        (IntoBytes(n), [Native]) | (IntoBytes(n), [BigUint(_)]) => vec![Bytes(*n)],
        (IntoBytes(32), [JubjubPoint]) => vec![Bytes(32)],
        (FromBytes(Native), [Bytes(_)]) => vec![Native],
        (FromBytes(BigUint(n)), [Bytes(l)]) if *n as usize >= 8 * l => vec![big],
        (FromBytes(JubjubPoint), [Bytes(32)]) => vec![JubjubPoint],
        (FromBytes(JubjubScalar), [Bytes(_)]) => vec![JubjubScalar],
        (Poseidon, v) if !v.is_empty() && v.iter().all(|x| matches!(x, Native)) => vec![Native],
        (Sha256, [Bytes(_)]) => vec![Bytes(32)],
        (Sha512, [Bytes(_)]) => vec![Bytes(64)],
        _ => return bad(),
    })
}

/// Whole-program static check (names, duplicates, types), independent of the witness.
/// Returns the type environment reached and the first problem.
pub fn static_check(prog: &Prog) -> (HashMap<String, IrType>, Option<(usize, String)>) {
    let mut env: HashMap<String, IrType> = HashMap::new();
    for (i, ins) in prog.iter().enumerate() {
        let mut tys = vec![];
        for name in &ins.inputs {
            match env.get(name).copied().or_else(|| parse_const(name).map(|v| v.ty())) {
                Some(t) => tys.push(t),
                None => return (env, Some((i, format!("name {name} not found")))),
            }
        }
        let outs = match &ins.operation {
            Operation::Load(t) => vec![*t; ins.outputs.len()],
            Operation::Publish => vec![],
            op => match type_op(op, &tys) {
                Ok(o) => o,
                Err(why) => return (env, Some((i, why))),
            },
        };
        for (name, t) in ins.outputs.iter().zip(outs) {
            if env.insert(name.clone(), t).is_some() {
                return (env, Some((i, format!("duplicate name {name}"))));
            }
        }
    }
    (env, None)
}

/// Reference execution; also returns the value memory reached (for steering / signatures).
pub fn reference(prog: &Prog, wit: &Wit) -> (Outcome, HashMap<String, Val>) {
    let mem: HashMap<String, Val> = HashMap::new();
    for (i, ins) in prog.iter().enumerate() {
        if !arity_ok(ins) {
            return (Outcome::Ill { at: i, why: "arity".into(), arity: true, stat: true }, mem);
        }
    }
    let (dynamic, mem) = reference_dynamic(prog, wit);
    if let (_, Some((at, why))) = static_check(prog) {
        return (Outcome::Ill { at, why, arity: false, stat: true }, mem);
    }
    (dynamic, mem)
}

fn reference_dynamic(prog: &Prog, wit: &Wit) -> (Outcome, HashMap<String, Val>) {
    let mut mem: HashMap<String, Val> = HashMap::new();
    let mut published = vec![];
    for (i, ins) in prog.iter().enumerate() {
        let mut inp = vec![];
        for name in &ins.inputs {
            match mem.get(name).cloned().or_else(|| parse_const(name)) {
                Some(v) => inp.push(v),
                None => return (Outcome::Ill { at: i, why: format!("name {name} not found"), arity: false, stat: false }, mem),
            }
        }
        let outs = match &ins.operation {
            Operation::Load(t) => {
                let mut outs = vec![];
                for name in &ins.outputs {
                    match wit.get(name) {
                        None => return (Outcome::Ill { at: i, why: format!("witness {name} missing"), arity: false, stat: false }, mem),
                        Some(v) if !witness_fits(v, t) => {
                            return (Outcome::Ill { at: i, why: format!("witness {name} has type {:?}, declared {t:?}", v.ty()), arity: false, stat: false }, mem)
                        }
                        Some(v) => outs.push(v.clone()),
                    }
                }
                outs
            }
            Operation::Publish => {
                published.extend(inp);
                vec![]
            }
            op => match eval_op(op, &inp) {
                Ev::Ok(v) => v,
                Ev::Fail(kind) => return (Outcome::Fail { at: i, kind }, mem),
                Ev::Ill(why) => return (Outcome::Ill { at: i, why, arity: false, stat: false }, mem),
            },
        };
        for (name, v) in ins.outputs.iter().zip(outs) {
            if mem.insert(name.clone(), v).is_some() {
                return (Outcome::Ill { at: i, why: format!("duplicate name {name}"), arity: false, stat: false }, mem);
            }
        }
    }
    (Outcome::Ok(published), mem)
}

/// Self-test of the reference model against published vectors / the documentation's examples.
pub fn self_test() -> Result<(), String> {
    let chk = |c: bool, m: &str| if c { Ok(()) } else { Err(format!("model self-test failed: {m}")) };
    chk(format!("0x{P_HEX}") == F::MODULUS.to_lowercase(), "native modulus")?;
    chk(format!("0x{R_HEX}") == JFr::MODULUS.to_lowercase(), "jubjub scalar modulus")?;
    chk(parse_const("1") == Some(Val::Bool(true)), "const 1")?;
    chk(parse_const("0xFF0A00") == Some(Val::Bytes(vec![255, 10, 0])), "const bytes")?;
    chk(parse_const("Native:4321") == Some(Val::Native(BigUint::from(17185u32))), "const native")?;
    chk(parse_const("Native:-0x01") == Some(Val::Native(p_mod() - 1u32)), "const native neg")?;
    chk(parse_const("BigUint:0x1234") == Some(Val::Big(BigUint::from(0x1234u32))), "const big")?;
    chk(parse_const("Jubjub:GENERATOR") == Some(Val::Point(point_generator())), "const gen")?;
    chk(
        parse_const("Jubjub:0xcb550cd538ea0cc1138480408e6eaab9b36c613f0dd3f7784fdb6eea837b13d7") == Some(Val::Point(point_generator())),
        "const gen hex",
    )?;
    chk(parse_const("JubjubScalar:FF") == Some(Val::Scalar(BigUint::from(255u32))), "const scalar")?;
    chk(parse_const("v3").is_none() && parse_const("0xAAA").is_none() && parse_const("7").is_none(), "non-constants")?;
    // NIST vectors
    let sha = |m: &[u8]| match eval_op(&Operation::Sha256, &[Val::Bytes(m.to_vec())]) {
        Ev::Ok(v) => v[0].clone(),
        _ => Val::Bool(false),
    };
    chk(
        sha(b"abc") == Val::Bytes(hex::decode("ba7816bf8f01cfea414140de5dae2223b00361a396177a9cb410ff61f20015ad").unwrap()),
        "sha256(abc)",
    )?;
    match eval_op(&Operation::Sha512, &[Val::Bytes(b"abc".to_vec())]) {
        Ev::Ok(v) => chk(
            v[0] == Val::Bytes(hex::decode("ddaf35a193617abacc417349ae20413112e6fa4e89a97ea20a9eeee64b55d39a2192992a274fc1a836ba3c23a3feebbd454d4423643ce80e2a9ac94fa54ca49f").unwrap()),
            "sha512(abc)",
        )?,
        _ => chk(false, "sha512")?,
    }
    match eval_op(&Operation::ModExp(16), &[Val::Big(2u32.into()), Val::Big(1000u32.into())]) {
        Ev::Ok(v) => chk(v[0] == Val::Big(536u32.into()), "2^16 mod 1000")?,
        _ => chk(false, "modexp")?,
    }
    match eval_op(&Operation::IntoBytes(5), &[Val::Big(0xdeadbeefu32.into())]) {
        Ev::Ok(v) => chk(v[0] == Val::Bytes(vec![0xef, 0xbe, 0xad, 0xde, 0]), "into_bytes LE")?,
        _ => chk(false, "into_bytes")?,
    }
    match eval_op(&Operation::IntoBytes(32), &[Val::Point(point_identity())]) {
        Ev::Ok(v) => {
            let mut id = vec![0u8; 32];
            id[0] = 1;
            chk(v[0] == Val::Bytes(id), "repr_J(identity)")?
        }
        _ => chk(false, "into_bytes point")?,
    }
    chk(point_dec(&point_small_order()).is_none(), "small-order point is outside the subgroup")?;
    // every constant syntax parses back
    for style in 0..16 {
        for v in [
            Val::Bool(true),
            Val::Bytes(vec![]),
            Val::Bytes(vec![0, 0xab]),
            Val::Native(BigUint::zero()),
            Val::Native(p_mod() - 1u32),
            Val::Big(BigUint::zero()),
            Val::Big(BigUint::from(0xabcu32)),
            Val::Point(point_generator()),
            Val::Point(point_identity()),
            Val::Scalar(r_mod() - 1u32),
            Val::Scalar(BigUint::zero()),
        ] {
            let s = const_str(&v, style);
            chk(parse_const(&s).as_ref() == Some(&v), &format!("constant syntax {s}"))?;
        }
    }
    Ok(())
}
