//! C18 oracles: D (off-circuit interpreter vs compiled circuit), R (harness reference
//! interpreter), T (panic capture), round trips; shrinker and signature derivation.

use std::{
    collections::HashMap,
    io::Cursor,
    sync::Mutex,
};

use midnight_curves::Fq as F;
use midnight_proofs::{circuit::Value, dev::cost_model::dummy_synthesize_run};
use midnight_zk_stdlib::{MidnightCircuit, Relation};
use midnight_zkir::{Error as ZkirError, IrType, IrValue, Operation, ZkirRelation};
use mzv::{
    common::{catch_any, repo_file, PanicInfo},
    engines::{
        catalogue::bound_instance,
        ref_eval::{check_circuit, collect, CollectOpts},
    },
};
use serde_json::{json, Value as Json};

use super::model::*;

#[derive(Clone, Debug)]
pub struct Case {
    pub label: String,
    pub prog: Prog,
    pub wit: Wit,
    pub mbl: Option<u8>,
}

impl Case {
    pub fn to_json(&self) -> Json {
        json!({
            "label": self.label,
            "program": self.prog,
            "program_json": prog_json_text(&self.prog, true),
            "witness": wit_to_json(&self.wit),
            "max_bit_len": self.mbl,
        })
    }
    pub fn from_json(j: &Json) -> Option<Case> {
        Some(Case {
            label: j.get("label")?.as_str()?.to_string(),
            prog: serde_json::from_value(j.get("program")?.clone()).ok()?,
            wit: wit_from_json(j.get("witness")?)?,
            mbl: j.get("max_bit_len").and_then(|m| m.as_u64()).map(|m| m as u8),
        })
    }
}

#[derive(Clone, Debug)]
pub struct Finding {
    /// key used for shrinking / de-duplication (no values, no line numbers)
    pub class: String,
    /// `panic`, `offcircuit-ok-circuit-rejects`, ...
    pub kind: String,
    /// repository file for panics
    pub file: Option<String>,
    /// normalised message (panics) — used as shape when no better word is known
    pub msg: String,
    pub what: String,
    pub detail: Json,
}

#[derive(Clone, Debug, Default)]
pub struct Stats {
    pub expected: &'static str,
    pub off: &'static str,
    pub circuit: &'static str,
    pub k: Option<u32>,
    pub n_pi: usize,
    pub edits: usize,
    pub ref_mock_disagree: bool,
    pub roundtrips: usize,
}

fn intern(s: &str) -> &'static str {
    static NAMES: Mutex<Option<HashMap<String, &'static str>>> = Mutex::new(None);
    let mut g = NAMES.lock().unwrap();
    let m = g.get_or_insert_with(HashMap::new);
    if let Some(r) = m.get(s) {
        return r;
    }
    let leaked: &'static str = Box::leak(s.to_string().into_boxed_str());
    m.insert(s.to_string(), leaked);
    leaked
}

pub fn ir_witness(w: &Wit) -> HashMap<&'static str, IrValue> {
    w.iter().map(|(k, v)| (intern(k), v.to_ir())).collect()
}

/// digits -> N, long hex / decimal runs collapsed, truncated: stable across inputs
pub fn normalise(msg: &str) -> String {
    let mut out = String::new();
    let mut in_num = false;
    for c in msg.chars() {
        if c.is_ascii_digit() {
            if !in_num {
                out.push('N');
            }
            in_num = true;
        } else {
            in_num = false;
            out.push(if c.is_whitespace() { ' ' } else { c });
        }
    }
    let out: String = out.chars().take(72).collect();
    out.trim().to_string()
}

/// Path of a repository source file relative to the workspace root, wherever the workspace is
/// checked out (`/repo`, a scratch worktree); files of third-party crates keep their full path.
fn repo_rel(path: &str) -> String {
    let p = repo_file(path);
    if p.contains("/registry/") || p.contains("/rustc/") {
        return p;
    }
    for krate in ["zkir", "zk_stdlib", "circuits", "proofs", "curves", "aggregator"] {
        if let Some(i) = p.find(&format!("/{krate}/src/")) {
            return p[i + 1..].to_string();
        }
    }
    p
}

fn panic_finding(stage: &str, p: &PanicInfo) -> Finding {
    let file = repo_rel(&p.file);
    let msg = normalise(&p.message);
    Finding {
        class: format!("panic|{file}|{msg}"),
        kind: "panic".into(),
        file: Some(file.clone()),
        msg,
        what: format!("{stage} panicked at {}: {}", repo_rel(&p.location), p.message.chars().take(160).collect::<String>()),
        detail: json!({ "stage": stage, "location": repo_rel(&p.location), "message": p.message }),
    }
}

fn finding(kind: &str, what: String, detail: Json) -> Finding {
    Finding { class: format!("D|{kind}"), kind: kind.into(), file: None, msg: String::new(), what, detail }
}

fn hexf(f: &F) -> String {
    hex::encode(f.to_bytes_le())
}

fn write_rel(r: &ZkirRelation) -> Result<Vec<u8>, String> {
    let mut b = vec![];
    r.write_relation(&mut b).map_err(|e| e.to_string())?;
    Ok(b)
}

pub struct Opts {
    /// run round trips and instance edits (off while shrinking other classes)
    pub deep: bool,
    pub max_edits: usize,
}

/// Executes one (program, witness) through every oracle. Never panics itself.
pub fn run_case(case: &Case, opts: &Opts) -> (Vec<Finding>, Stats) {
    let (mut fs, st) = run_case_inner(case, opts);
    // the reference-only findings are implied by the differential ones on the same case
    let has = |fs: &Vec<Finding>, k: &str| fs.iter().any(|f| f.kind == k);
    if has(&fs, "offcircuit-fails-circuit-satisfiable") {
        fs.retain(|f| f.kind != "offcircuit-rejects-valid");
    }
    if has(&fs, "offcircuit-ok-circuit-rejects") {
        let r_side = !has(&fs, "offcircuit-accepts-failing") && !has(&fs, "reference-value-mismatch");
        fs.retain(|f| f.kind != "offcircuit-accepts-failing" && f.kind != "reference-value-mismatch");
        for f in fs.iter_mut().filter(|f| f.kind == "offcircuit-ok-circuit-rejects") {
            f.detail["reference_interpreter_agrees_with"] = json!(if r_side { "off-circuit" } else { "neither or circuit" });
        }
    }
    (fs, st)
}

fn run_case_inner(case: &Case, opts: &Opts) -> (Vec<Finding>, Stats) {
    let mut fs: Vec<Finding> = vec![];
    let mut st = Stats::default();
    let (exp, _mem) = reference(&case.prog, &case.wit);
    st.expected = exp.class();
    st.off = "-";
    st.circuit = "-";
    let arity_ill = matches!(exp, Outcome::Ill { arity: true, .. });
    let prog = &case.prog;

    // ---- construction ------------------------------------------------------------------------
    let built = catch_any(|| ZkirRelation::from_instructions(prog));
    let json_text: &'static str = Box::leak(prog_json_text(prog, case.label.len() % 2 == 0).into_boxed_str());
    let read = catch_any(|| ZkirRelation::read(json_text));
    let bin: Vec<u8> = bincode::encode_to_vec(prog, bincode::config::standard()).unwrap_or_default();
    for (stage, r) in [("from_instructions", &built), ("read", &read)] {
        match r {
            Err(p) => fs.push(panic_finding(stage, p)),
            Ok(Ok(_)) if arity_ill => fs.push(finding(
                "wrong-arity-accepted",
                format!("{stage} accepted an instruction whose arity contradicts the documentation"),
                json!({ "stage": stage, "expected": format!("{exp:?}") }),
            )),
            Ok(Err(e)) if !arity_ill => fs.push(finding(
                "load-rejects-valid-arity",
                format!("{stage} rejected a program whose arities follow the documentation: {e:?}"),
                json!({ "stage": stage, "error": format!("{e:?}") }),
            )),
            _ => {}
        }
    }
    if arity_ill {
        // the binary reader must refuse it too (with an error value)
        match catch_any(|| ZkirRelation::read_relation(&mut Cursor::new(bin.clone()))) {
            Err(p) => fs.push(panic_finding("read_relation", &p)),
            Ok(Ok(_)) => fs.push(finding(
                "wrong-arity-accepted",
                "read_relation accepted an instruction whose arity contradicts the documentation".into(),
                json!({ "stage": "read_relation" }),
            )),
            Ok(Err(_)) => {}
        }
        st.off = "rejected-at-load";
        st.circuit = "rejected-at-load";
        return (fs, st);
    }
    let (Ok(Ok(rel)), Ok(Ok(rel_json))) = (built, read) else {
        return (fs, st);
    };

    // ---- round trips -------------------------------------------------------------------------
    if opts.deep {
        match (catch_any(|| write_rel(&rel)), catch_any(|| write_rel(&rel_json))) {
            (Ok(Ok(w1)), Ok(Ok(w2))) => {
                st.roundtrips += 1;
                if w1 != w2 {
                    fs.push(finding(
                        "json-roundtrip-differs",
                        "write_relation(read(json(p))) != write_relation(from_instructions(p))".into(),
                        json!({ "from_instructions": hex::encode(&w1), "read": hex::encode(&w2) }),
                    ));
                }
                if w1 != bin {
                    fs.push(finding(
                        "write_relation-differs-from-instruction-encoding",
                        "write_relation(from_instructions(p)) is not the bincode encoding of p's instructions".into(),
                        json!({ "write_relation": hex::encode(&w1), "encode": hex::encode(&bin) }),
                    ));
                }
                // JSON through the public Serialize impl
                let serde_text: &'static str = Box::leak(prog_json_serde(prog).into_boxed_str());
                match catch_any(|| ZkirRelation::read(serde_text).map(|r| write_rel(&r))) {
                    Err(p) => fs.push(panic_finding("read(serde json)", &p)),
                    Ok(Ok(Ok(w3))) if w3 == w1 => st.roundtrips += 1,
                    Ok(other) => fs.push(finding(
                        "serde-json-roundtrip-differs",
                        "read(to_json(instructions)) fails or serialises differently".into(),
                        json!({ "result": format!("{:?}", other.map(|r| r.map(hex::encode))) }),
                    )),
                }
                // binary: exact buffer, then buffer followed by sentinel bytes
                let exact = catch_any(|| {
                    let mut c = Cursor::new(w1.clone());
                    ZkirRelation::read_relation(&mut c).map(|r| (write_rel(&r), c.position()))
                });
                match exact {
                    Err(p) => fs.push(panic_finding("read_relation", &p)),
                    Ok(Err(e)) => {
                        // does the reader want one more varint after the program?
                        let mut plus = w1.clone();
                        plus.push(0);
                        let wants_more = matches!(
                            catch_any(|| {
                                let mut c = Cursor::new(plus.clone());
                                ZkirRelation::read_relation(&mut c).map(|_| c.position())
                            }),
                            Ok(Ok(pos)) if pos == w1.len() as u64 + 1
                        );
                        let kind_word = e.to_string();
                        let kind_word = ["UnexpectedEof", "UnexpectedEnd", "InvalidData"].iter().find(|w| kind_word.contains(**w)).map(|w| w.to_string());
                        let msg = if wants_more { "tuple-decode".to_string() } else { kind_word.unwrap_or_else(|| normalise(&e.to_string())) };
                        fs.push(Finding {
                            class: "D|read_relation-fails".into(),
                            kind: "read_relation-fails".into(),
                            file: Some("zkir/src/zkir.rs".into()),
                            msg: msg.clone(),
                            what: format!("read_relation(write_relation(r)) fails: {e}"),
                            detail: json!({ "bytes": hex::encode(&w1), "error": e.to_string() }),
                        })
                    }
                    Ok(Ok((w, pos))) => {
                        st.roundtrips += 1;
                        if w.as_ref() != Ok(&w1) || pos != w1.len() as u64 {
                            fs.push(finding(
                                "binary-roundtrip-differs",
                                "write_relation(read_relation(b)) != b or reader not at the end of b".into(),
                                json!({ "bytes": hex::encode(&w1), "rewritten": format!("{w:?}"), "position": pos }),
                            ));
                        }
                        let mut with_tail = w1.clone();
                        with_tail.extend_from_slice(&[0xA5, 0x5A, 0xA5, 0x5A]);
                        match catch_any(|| {
                            let mut c = Cursor::new(with_tail.clone());
                            ZkirRelation::read_relation(&mut c).map(|r| (write_rel(&r), c.position()))
                        }) {
                            Err(p) => fs.push(panic_finding("read_relation", &p)),
                            Ok(Ok((w, pos))) if w.as_ref() == Ok(&w1) && pos == w1.len() as u64 => st.roundtrips += 1,
                            Ok(other) => fs.push(finding(
                                "read_relation-overreads",
                                "read_relation on b followed by other bytes fails or consumes bytes beyond b".into(),
                                json!({ "bytes": hex::encode(&w1), "result": format!("{:?}", other.map(|(w, p)| (w.map(hex::encode), p))) }),
                            )),
                        }
                    }
                }
            }
            (Err(p), _) | (_, Err(p)) => fs.push(panic_finding("write_relation", &p)),
            (a, b) => fs.push(finding("write_relation-fails", "write_relation returned an error".into(), json!({ "a": format!("{a:?}"), "b": format!("{b:?}") }))),
        }
    }

    // ---- off-circuit -------------------------------------------------------------------------
    let w_ir = ir_witness(&case.wit);
    let off = catch_any(|| rel.public_inputs(w_ir.clone()));
    let off: Option<Result<Vec<(IrValue, IrType)>, ZkirError>> = match off {
        Err(p) => {
            st.off = "panic";
            fs.push(panic_finding("public_inputs", &p));
            None
        }
        Ok(r) => {
            st.off = if r.is_ok() { "ok" } else { "err" };
            Some(r)
        }
    };

    // ---- reference vs off-circuit (R) --------------------------------------------------------
    if let Some(off) = &off {
        match (&exp, off) {
            (Outcome::Ok(pexp), Ok(p)) => {
                let got: Vec<Val> = p.iter().map(|(v, _)| Val::from_ir(v)).collect();
                if &got != pexp {
                    let i = got.iter().zip(pexp.iter()).position(|(a, b)| a != b).unwrap_or(got.len().min(pexp.len()));
                    fs.push(finding(
                        "reference-value-mismatch",
                        format!("published value #{i} differs from the reference interpreter"),
                        json!({ "position": i, "off_circuit": got.get(i).map(|v| v.to_json()), "reference": pexp.get(i).map(|v| v.to_json()), "n_off": got.len(), "n_ref": pexp.len() }),
                    ));
                }
            }
            (Outcome::Ok(_), Err(e)) => fs.push(finding(
                "offcircuit-rejects-valid",
                format!("off-circuit evaluation fails on an execution the documentation makes valid: {e:?}"),
                json!({ "error": format!("{e:?}") }),
            )),
            (Outcome::Fail { at, kind }, Ok(_)) => fs.push(finding(
                "offcircuit-accepts-failing",
                format!("off-circuit evaluation succeeds although instruction #{at} must fail ({kind})"),
                json!({ "at": at, "kind": kind }),
            )),
            (Outcome::Ill { at, why, .. }, Ok(_)) => fs.push(finding(
                "offcircuit-accepts-illformed",
                format!("off-circuit evaluation succeeds on an ill-formed program/witness (instruction #{at}: {why})"),
                json!({ "at": at, "why": why }),
            )),
            _ => {}
        }
    }

    // ---- circuit: structure ------------------------------------------------------------------
    let rel_c = match catch_any(|| ZkirRelation::from_instructions(prog)) {
        Ok(Ok(r)) => r,
        _ => return (fs, st),
    };
    let dummy = catch_any(|| {
        let c = MidnightCircuit::new(&rel_c, Value::unknown(), Value::unknown(), Some(8));
        dummy_synthesize_run(&c).map_err(|e| format!("{e:?}"))
    });
    let structure_ok = match &dummy {
        Err(p) => {
            st.circuit = "panic";
            fs.push(panic_finding("circuit synthesis (unknown witness)", p));
            return (fs, st);
        }
        Ok(Err(e)) => {
            st.circuit = "synthesis-error";
            if !matches!(exp, Outcome::Ill { stat: true, .. }) {
                fs.push(finding(
                    "circuit-rejects-well-typed-program",
                    format!("circuit synthesis refuses a program the documentation makes well-typed: {e}"),
                    json!({ "error": e, "off_circuit": format!("{:?}", off.as_ref().map(|r| r.as_ref().map(|p| p.len()))) }),
                ));
            }
            false
        }
        Ok(Ok(())) => {
            if let Outcome::Ill { stat: true, at, why, .. } = &exp {
                fs.push(finding(
                    "circuit-accepts-illformed",
                    format!("circuit synthesis accepts an ill-formed program (instruction #{at}: {why})"),
                    json!({ "at": at, "why": why }),
                ));
            }
            true
        }
    };
    if !structure_ok {
        if let Some(Ok(_)) = &off {
            if matches!(exp, Outcome::Ill { .. }) {
                // already reported as offcircuit-accepts-illformed
            }
        }
        return (fs, st);
    }

    // ---- circuit: size -----------------------------------------------------------------------
    let mbl = case.mbl;
    let k = match catch_any(|| MidnightCircuit::new(&rel_c, Value::unknown(), Value::unknown(), mbl).min_k()) {
        Ok(k) => k,
        Err(p) => {
            st.circuit = "panic";
            fs.push(panic_finding("min_k", &p));
            return (fs, st);
        }
    };
    st.k = Some(k);
    if k > 17 {
        st.circuit = "too-large";
        return (fs, st);
    }

    // an off-circuit panic is treated like an off-circuit error for the circuit side
    let off_view: Option<Result<&Vec<(IrValue, IrType)>, String>> = match &off {
        Some(Ok(p)) => Some(Ok(p)),
        Some(Err(e)) => Some(Err(format!("{e:?}"))),
        None if st.off == "panic" => Some(Err("<panic>".to_string())),
        None => None,
    };
    match &off_view {
        Some(Ok(p)) => {
            let p: &Vec<(IrValue, IrType)> = p;
            let pi = match catch_any(|| ZkirRelation::format_instance(p)) {
                Err(pn) => {
                    fs.push(panic_finding("format_instance", &pn));
                    return (fs, st);
                }
                Ok(Err(e)) => {
                    fs.push(finding(
                        "format_instance-fails",
                        format!("format_instance fails on the output of public_inputs: {e:?}"),
                        json!({ "types": p.iter().map(|(_, t)| format!("{t:?}")).collect::<Vec<_>>() }),
                    ));
                    return (fs, st);
                }
                Ok(Ok(pi)) => pi,
            };
            st.n_pi = pi.len();
            let circuit = MidnightCircuit::new(&rel_c, Value::known(p.clone()), Value::known(w_ir.clone()), mbl);
            let v = match catch_any(|| check_circuit(k, &circuit, &[vec![], pi.clone()])) {
                Err(pn) => {
                    st.circuit = "panic";
                    fs.push(panic_finding("circuit synthesis (known witness)", &pn));
                    return (fs, st);
                }
                Ok(v) => v,
            };
            let (r_ok, m_ok) = (v.reference == Ok(true), v.mock == Ok(true));
            if r_ok != m_ok && v.reference.is_ok() && v.mock.is_ok() {
                st.ref_mock_disagree = true;
            }
            if r_ok && m_ok {
                st.circuit = "accept";
            } else {
                st.circuit = "reject";
                if !st.ref_mock_disagree {
                    // what the circuit binds instead (diagnosis)
                    let bound = catch_any(|| collect(k, &circuit, &[vec![], pi.clone()], CollectOpts::default()).map(|t| bound_instance(&t, 1, &[])))
                        .ok()
                        .and_then(|r| r.ok());
                    fs.push(finding(
                        "offcircuit-ok-circuit-rejects",
                        format!(
                            "public_inputs succeeds but the circuit rejects format_instance(P) (reference: {:?}, mock: {:?})",
                            v.reference, v.mock
                        ),
                        json!({
                            "k": k,
                            "instance": pi.iter().map(hexf).collect::<Vec<_>>(),
                            "circuit_binds": bound.map(|b| b.iter().map(hexf).collect::<Vec<_>>()),
                            "types": p.iter().map(|(_, t)| format!("{t:?}")).collect::<Vec<_>>(),
                            "failures": v.ref_failures.iter().take(4).map(|f| format!("{f:?}")).collect::<Vec<_>>(),
                        }),
                    ));
                }
                return (fs, st);
            }
            // ---- edits: every (chosen) position +1 must be rejected by both ------------------
            if opts.deep && !pi.is_empty() {
                let mut pos: Vec<usize> = (0..pi.len()).collect();
                if pos.len() > opts.max_edits {
                    // first, last, and evenly spread in between
                    let m = opts.max_edits.max(2);
                    pos = (0..m).map(|i| i * (pi.len() - 1) / (m - 1)).collect();
                    pos.dedup();
                }
                for i in pos {
                    let mut e = pi.clone();
                    e[i] += F::from(1);
                    st.edits += 1;
                    match catch_any(|| check_circuit(k, &circuit, &[vec![], e.clone()])) {
                        Err(pn) => fs.push(panic_finding("circuit synthesis (edited instance)", &pn)),
                        Ok(v) => {
                            if v.reference == Ok(true) || v.mock == Ok(true) {
                                if v.reference == Ok(true) && v.mock == Ok(true) {
                                    fs.push(finding(
                                        "edited-instance-accepted",
                                        format!("the circuit accepts the public inputs with position {i} incremented"),
                                        json!({ "k": k, "position": i, "instance": pi.iter().map(hexf).collect::<Vec<_>>() }),
                                    ));
                                } else {
                                    st.ref_mock_disagree = true;
                                }
                                break;
                            }
                        }
                    }
                }
            }
        }
        Some(Err(e)) => {
            // the circuit must be unsatisfiable with the instance it binds itself
            let circuit = MidnightCircuit::new(&rel_c, Value::unknown(), Value::known(w_ir.clone()), mbl);
            let tables = match catch_any(|| collect(k, &circuit, &[vec![], vec![]], CollectOpts::default())) {
                Err(pn) => {
                    st.circuit = "panic";
                    fs.push(panic_finding("circuit synthesis (known witness)", &pn));
                    return (fs, st);
                }
                Ok(t) => t,
            };
            match tables {
                Err(_) => st.circuit = "synthesis-error",
                Ok(t) => {
                    let pi = bound_instance(&t, 1, &[]);
                    st.n_pi = pi.len();
                    match catch_any(|| check_circuit(k, &circuit, &[vec![], pi.clone()])) {
                        Err(pn) => {
                            st.circuit = "panic";
                            fs.push(panic_finding("circuit synthesis (known witness)", &pn));
                        }
                        Ok(v) => {
                            let (r_ok, m_ok) = (v.reference == Ok(true), v.mock == Ok(true));
                            if r_ok && m_ok && e == "<panic>" {
                                // the off-circuit panic is the finding; no verdict to compare with
                                st.circuit = "accept";
                            } else if r_ok && m_ok {
                                st.circuit = "accept";
                                fs.push(finding(
                                    "offcircuit-fails-circuit-satisfiable",
                                    format!("off-circuit evaluation fails ({}) but the circuit is satisfied by the same witness", normalise(e)),
                                    json!({ "k": k, "off_circuit_error": e, "circuit_binds": pi.iter().map(hexf).collect::<Vec<_>>() }),
                                ));
                            } else {
                                st.circuit = "reject";
                                if r_ok != m_ok && v.reference.is_ok() && v.mock.is_ok() {
                                    st.ref_mock_disagree = true;
                                }
                            }
                        }
                    }
                }
            }
        }
        None => {}
    }
    (fs, st)
}

// ---------------------------------------------------------------------------------------------
// shrinking
// ---------------------------------------------------------------------------------------------

fn has_class(case: &Case, class: &str) -> bool {
    let deep = class.contains("roundtrip") || class.contains("read_relation") || class.contains("write_relation") || class.contains("edited-instance");
    run_case(case, &Opts { deep, max_edits: 64 }).0.iter().any(|f| f.class == class)
}

/// Greedy minimisation preserving the finding class.
pub fn shrink(case: &Case, class: &str) -> Case {
    let mut cur = case.clone();
    if case.label.starts_with("leaf/") && case.prog.len() <= 3 {
        return cur; // leaves are minimal by construction
    }
    let mut budget = 120usize;
    loop {
        let mut changed = false;
        // drop whole instructions, last first
        let mut i = cur.prog.len();
        while i > 0 && budget > 0 {
            i -= 1;
            if cur.prog.len() <= 1 {
                break;
            }
            let mut c = cur.clone();
            // instruction i together with everything that (transitively) reads its results
            let mut dead: Vec<String> = c.prog[i].outputs.clone();
            let mut keep = vec![];
            for (j, ins) in c.prog.iter().enumerate() {
                if j == i {
                    continue;
                }
                if j > i && ins.inputs.iter().any(|n| dead.contains(n)) && !matches!(ins.operation, Operation::Publish) {
                    dead.extend(ins.outputs.clone());
                    continue;
                }
                let mut ins = ins.clone();
                if j > i && matches!(ins.operation, Operation::Publish) {
                    ins.inputs.retain(|n| !dead.contains(n));
                    if ins.inputs.is_empty() {
                        continue;
                    }
                }
                keep.push(ins);
            }
            if keep.is_empty() {
                continue;
            }
            c.prog = keep;
            budget -= 1;
            if has_class(&c, class) {
                cur = c;
                changed = true;
                i = i.min(cur.prog.len());
            }
        }
        // drop single inputs of variadic instructions and single outputs of loads
        for i in 0..cur.prog.len() {
            let variadic_in = matches!(cur.prog[i].operation, Operation::Publish | Operation::Poseidon);
            if variadic_in {
                let mut j = cur.prog[i].inputs.len();
                while j > 0 && cur.prog[i].inputs.len() > 1 && budget > 0 {
                    j -= 1;
                    let mut c = cur.clone();
                    c.prog[i].inputs.remove(j);
                    budget -= 1;
                    if has_class(&c, class) {
                        cur = c;
                        changed = true;
                    }
                }
            }
            if matches!(cur.prog[i].operation, Operation::Load(_)) {
                let mut j = cur.prog[i].outputs.len();
                while j > 0 && cur.prog[i].outputs.len() > 1 && budget > 0 {
                    j -= 1;
                    let mut c = cur.clone();
                    c.prog[i].outputs.remove(j);
                    budget -= 1;
                    if has_class(&c, class) {
                        cur = c;
                        changed = true;
                    }
                }
            }
        }
        if !changed || budget == 0 {
            break;
        }
    }
    // unused witness entries
    let used: Vec<String> = cur.prog.iter().flat_map(|i| i.outputs.clone()).collect();
    let mut c = cur.clone();
    c.wit.retain(|k, _| used.contains(k));
    if c.wit.len() != cur.wit.len() && has_class(&c, class) {
        cur = c;
    }
    cur
}

// ---------------------------------------------------------------------------------------------
// signatures
// ---------------------------------------------------------------------------------------------

/// Words chosen from the source at known panic sites: (file suffix, message fragment, shape,
/// forced sub-check). Anything else gets its normalised message as shape.
const PANIC_SHAPES: &[(&str, &str, &str, Option<&str>)] = &[
    ("zkir/src/instructions/operations/into_bytes.rs", "range start index", "n>limb-bytes", Some("into_bytes")),
    ("zk_stdlib/src/lib.rs", "must enable jubjub", "jubjub-constant-without-jubjub-chip", Some("constant")),
    ("", "zero modulus", "modulus-zero", Some("mod_exp")),
    ("", "divide by zero", "modulus-zero", Some("mod_exp")),
    ("", "Point should be part of the subgroup", "point-constant-outside-subgroup", Some("constant")),
    ("zkir/src/instructions/operations/load.rs", "chunk size must be non-zero", "load-bytes-0", Some("load")),
    ("circuits/src/biguint/biguint_gadget.rs", "subtract with overflow", "biguint-width-0", Some("load")),
    ("circuits/src/field/decomposition/cpu_utils.rs", "cannot be represented with the given limb_sizes", "witness-exceeds-n-bytes", None),
    ("circuits/src/field/native/native_gadget.rs", "more bytes than necessary", "native-n>32", Some("into_bytes")),
];

fn param_class(op: &Operation, inputs: &[Option<Val>]) -> String {
    match op {
        Operation::ModExp(0) => " e=0".into(),
        Operation::ModExp(1) => " e=1".into(),
        Operation::ModExp(_) => " e>=2".into(),
        Operation::IntoBytes(n) => match inputs.first() {
            Some(Some(Val::Native(_))) if *n > 32 => " n>32".into(),
            Some(Some(Val::Native(_))) if *n == 32 => " n=32".into(),
            _ if *n == 0 => " n=0".into(),
            _ => String::new(),
        },
        Operation::FromBytes(t) => {
            let len = match inputs.first() {
                Some(Some(Val::Bytes(b))) => b.len(),
                _ => 0,
            };
            let lc = match (t, len) {
                (_, 0) => " len=0",
                (IrType::JubjubScalar, l) if l >= 32 => " len>=32",
                (IrType::Native, l) if l > 32 => " len>32",
                (IrType::Native, 32) => " len=32",
                (IrType::Native | IrType::JubjubScalar, l) if l < 32 => " len<32",
                _ => "",
            };
            format!("->{}{}", ty_name(t), lc)
        }
        Operation::Load(IrType::Bytes(0)) => " Bytes(0)".into(),
        Operation::Load(IrType::BigUint(0)) => " BigUint(0)".into(),
        _ => String::new(),
    }
}

/// `C18/<sub-check>/<kind>@<repo file> <shape>` from a finding and its minimised case.
pub fn signature(f: &Finding, min: &Case) -> String {
    if f.kind.contains("roundtrip") || f.kind.contains("read_relation") || f.kind.contains("write_relation") {
        let shape = if f.msg.is_empty() { String::new() } else { format!(" {}", f.msg) };
        return format!("C18/roundtrip/{}@zkir/src/zkir.rs{}", f.kind, shape);
    }
    let (exp, mem) = reference(&min.prog, &min.wit);
    let is_lp = |o: &Operation| matches!(o, Operation::Load(_) | Operation::Publish);
    let last_non_lp = (0..min.prog.len()).rev().find(|i| !is_lp(&min.prog[*i].operation));
    let with_const = (0..min.prog.len()).rev().find(|i| min.prog[*i].inputs.iter().any(|n| !mem.contains_key(n) && parse_const(n).is_some()));
    let last = min.prog.len().saturating_sub(1);
    let file = f.file.clone().unwrap_or_default();
    let at = if f.kind == "panic" {
        // the operation whose source file panicked, else the last computing instruction, else a
        // constant-bearing one, else what the reference blames
        let by_file = (0..min.prog.len()).rev().find(|i| file == format!("zkir/src/instructions/operations/{}.rs", op_name(&min.prog[*i].operation)));
        by_file.or(last_non_lp).or(with_const).or(exp.at()).unwrap_or(last)
    } else {
        exp.at().or(last_non_lp).or(with_const).unwrap_or(last)
    };
    let Some(ins) = min.prog.get(at) else {
        return format!("C18/program/{}", f.kind);
    };
    let in_vals: Vec<Option<Val>> = ins.inputs.iter().map(|n| mem.get(n).cloned().or_else(|| parse_const(n))).collect();
    let (tenv, _) = static_check(&min.prog);
    let in_tys: Vec<Option<IrType>> = ins.inputs.iter().map(|n| tenv.get(n).copied().or_else(|| parse_const(n).map(|v| v.ty()))).collect();
    let is_const = |n: &String| !mem.contains_key(n) && !tenv.contains_key(n);
    let any_const = ins.inputs.iter().any(is_const);
    let all_const = !ins.inputs.is_empty() && ins.inputs.iter().all(is_const);
    let _ = all_const;
    let mut sub = if matches!(ins.operation, Operation::Publish) && any_const {
        "constant"
    } else {
        op_name(&ins.operation)
    };
    if f.kind == "panic" && matches!(ins.operation, Operation::AssertNotEqual) && matches!(in_tys.first(), Some(Some(IrType::Bytes(_)))) {
        // assert_not_equal on byte arrays is is_equal + assert (assert_not_equal.rs)
        sub = "is_equal";
    }
    let types: Vec<&str> = match &ins.operation {
        Operation::Load(t) => vec![ty_name(t)],
        _ => in_tys.iter().map(|t| t.as_ref().map(ty_name).unwrap_or("?")).collect(),
    };
    // collapse repeated types (variadic operations)
    let mut tys: Vec<&str> = vec![];
    for t in types {
        if tys.last() != Some(&t) {
            tys.push(t);
        }
    }
    let mut pc = param_class(&ins.operation, &in_vals);
    if matches!(ins.operation, Operation::IsEqual | Operation::AssertEqual | Operation::AssertNotEqual | Operation::Sha256 | Operation::Sha512)
        && in_tys.iter().any(|t| matches!(t, Some(IrType::Bytes(0))))
    {
        pc = " Bytes(0)".into();
    }
    let op_file = match sub {
        "constant" => "zkir/src/utils/constants.rs".to_string(),
        s => format!("zkir/src/instructions/operations/{s}.rs"),
    };
    if f.kind == "panic" {
        let raw = f.detail.get("message").and_then(|m| m.as_str()).unwrap_or("");
        let stage = f.detail.get("stage").and_then(|m| m.as_str()).unwrap_or("");
        if file == "proofs/src/dev/cost_model.rs" && raw.contains("Synthesis(") {
            // MidnightCircuit::from_relation / min_k unwrap the synthesis result
            let api = if stage == "public_inputs" { "public_inputs" } else { "min_k" };
            return format!("C18/{api}/panic@{file} synthesis-error-unwrapped");
        }
        if file.ends_with("circuits/src/field/native/native_chip.rs") && raw.contains("Option::unwrap()") && pc == " Bytes(0)" {
            // BinaryInstructions::and(&[]) takes bits.first().unwrap()
            return format!("C18/is_equal/panic@{file} and-of-empty-byte-array");
        }
        let table = PANIC_SHAPES.iter().find(|(fs, frag, _, _)| file.ends_with(fs) && raw.contains(frag));
        if let Some((_, _, _, Some(forced))) = table {
            sub = forced;
        }
        let op_file = match sub {
            "constant" => "zkir/src/utils/constants.rs".to_string(),
            s => format!("zkir/src/instructions/operations/{s}.rs"),
        };
        // panics raised inside third-party crates are attributed to the zkir file of the operation
        let file = if file.starts_with('/') || file == "?" { op_file } else { file };
        return match table {
            Some((_, _, shape, _)) => format!("C18/{sub}/panic@{file} {shape}"),
            None => format!("C18/{sub}/panic@{file} {}{}", f.msg, pc),
        };
    }
    if f.kind == "offcircuit-accepts-illformed" && matches!(ins.operation, Operation::IsEqual | Operation::AssertEqual | Operation::AssertNotEqual) {
        // one root cause: the off-circuit parser compares IrValues with the derived `==`
        return "C18/equality/offcircuit-accepts-illformed@zkir/src/parser/offcircuit.rs untyped-comparison".to_string();
    }
    format!("C18/{sub}/{}@{op_file} {}{}", f.kind, tys.join(","), pc)
}
