//! C19 — Regex compilation, automaton parsing and base64 decoding are exact.
//!
//! (A) random expressions built in lock-step (library `Regex` / reference `RefRe`): exhaustive
//!     language + output equivalence on the product of the compiled automaton with the marked
//!     derivative automaton; enumerated/sampled words through two word-level reference matchers;
//!     serialisation round trip through the library's deserialiser.
//! (B) shipped automata vs. compilation of their specifications.
//! (C) AutomatonChip circuits: satisfiable iff accepted, exposed markers = reference.
//! (D) Base64Chip circuits against RFC 4648 (own strict decoder cross-checked with `base64`).

use std::collections::{BTreeMap, BTreeSet};

use midnight_circuits::parsing::regex::{Regex, RegexInstructions};
use mzv::common::*;
use mzv::refs::regex::*;
use rand::{seq::SliceRandom, Rng};
use rayon::prelude::*;
use serde_json::{json, Value as Json};


const REPO_AUTOMATON: &str = "circuits/src/parsing/automaton.rs";

// ---------------------------------------------------------------------------------------------
// Recipe -> library Regex (same combinator calls as `Recipe::to_ref`)
// ---------------------------------------------------------------------------------------------

pub fn to_lib(r: &Recipe) -> Regex {
    use Recipe::*;
    let v = |v: &Vec<Recipe>| v.iter().map(to_lib).collect::<Vec<_>>();
    match r {
        ByteFrom(s) => Regex::byte_from(s.bytes()),
        ByteNotFrom(s) => Regex::byte_not_from(s.bytes()),
        AnyByte => Regex::any_byte(),
        Word(w) => Regex::word(w),
        FromStr(w) => Regex::from(w.as_str()),
        FromString(w) => Regex::from(w.clone()),
        FromU8(b) => Regex::from(*b),
        FromRefU8(b) => Regex::from(b),
        Digit => Regex::digit(),
        Lower => Regex::lowercase_letter(),
        Upper => Regex::uppercase_letter(),
        Letter => Regex::letter(),
        Alnum => Regex::alphanumeric(),
        OneBlank => Regex::one_blank(),
        BlanksStrict => Regex::blanks_strict(),
        Blanks => Regex::blanks(),
        Epsilon => Regex::epsilon(),
        Any => Regex::any(),
        Utf8Cps => Regex::utf8_cps(),
        Utf8 => Regex::utf8(),
        JsonString => Regex::json_string(),
        Neg(a) => to_lib(a).neg(),
        List(a) => to_lib(a).list(),
        SpacedList(a) => to_lib(a).spaced_list(),
        NonEmptyList(a) => to_lib(a).non_empty_list(),
        SpacedNonEmptyList(a) => to_lib(a).spaced_non_empty_list(),
        Optional(a) => to_lib(a).optional(),
        Repeat(a, n) => to_lib(a).repeat(*n),
        SpacedRepeat(a, n) => to_lib(a).spaced_repeat(*n),
        RepeatAtMost(a, n) => to_lib(a).repeat_at_most(*n),
        SpacedRepeatAtMost(a, n) => to_lib(a).spaced_repeat_at_most(*n),
        Mark(a, f) => to_lib(a).mark(&|b| f.apply(b)),
        MarkBytes(a, s, m) => to_lib(a).mark_bytes(s.bytes(), *m),
        ReplaceMarkers(a, t) => {
            to_lib(a).replace_markers(&|m| t.iter().find(|(x, _)| *x == m).map(|(_, y)| *y))
        }
        Terminated(a, b) => to_lib(a).terminated(to_lib(b)),
        SpacedTerminated(a, b) => to_lib(a).spaced_terminated(to_lib(b)),
        Or(a, b) => to_lib(a).or(to_lib(b)),
        And(a, b) => to_lib(a).and(to_lib(b)),
        Minus(a, b) => to_lib(a).minus(to_lib(b)),
        SeparatedNonEmptyList(a, s) => to_lib(a).separated_non_empty_list(to_lib(s)),
        SpacedSeparatedNonEmptyList(a, s) => to_lib(a).spaced_separated_non_empty_list(to_lib(s)),
        SeparatedList(a, s) => to_lib(a).separated_list(to_lib(s)),
        SpacedSeparatedList(a, s) => to_lib(a).spaced_separated_list(to_lib(s)),
        SeparatedRepeat(a, n, s) => to_lib(a).separated_repeat(*n, to_lib(s)),
        SpacedSeparatedRepeat(a, n, s) => to_lib(a).spaced_separated_repeat(*n, to_lib(s)),
        SeparatedRepeatAtMost(a, n, s) => to_lib(a).separated_repeat_at_most(*n, to_lib(s)),
        SpacedSeparatedRepeatAtMost(a, n, s) => {
            to_lib(a).spaced_separated_repeat_at_most(*n, to_lib(s))
        }
        Delimited(a, o, c) => to_lib(a).delimited(to_lib(o), to_lib(c)),
        SpacedDelimited(a, o, c) => to_lib(a).spaced_delimited(to_lib(o), to_lib(c)),
        Union(l) => Regex::union(v(l)),
        Inter(l) => Regex::inter(v(l)),
        Cat(l) => Regex::cat(v(l)),
        SpacedCat(l) => Regex::spaced_cat(v(l)),
        SeparatedCat(l, s) => Regex::separated_cat(v(l), to_lib(s)),
        SpacedSeparatedCat(l, s) => Regex::spaced_separated_cat(v(l), to_lib(s)),
    }
}

// Naming the library's `Automaton` type (module `automaton` is private) through public items.
pub trait Second {
    type B;
}
impl<A, B> Second for (A, B) {
    type B = B;
}
pub trait MapParts {
    type V;
}
impl<K, V, S> MapParts for std::collections::HashMap<K, V, S> {
    type V = V;
}
pub type Fq = midnight_curves::Fq;
pub type AutoMap = <<midnight_circuits::parsing::automaton_chip::AutomatonChip<usize, Fq> as midnight_circuits::ComposableChip<Fq>>::SharedResources as Second>::B;
pub type Automaton = <AutoMap as MapParts>::V;

pub fn dfa_of(a: &Automaton) -> Result<LibDfa, String> {
    LibDfa::new(
        a.nb_states,
        a.initial_state,
        a.final_states.iter().copied(),
        a.transitions.iter().map(|(k, v)| (*k, *v)),
    )
}

/// The documented byte format of `serialization.rs`: u64 LE nb_states, initial_state, sorted
/// final states (length-prefixed), transitions sorted by key as ((u64,u8),(u64,u64)).
pub fn encode_automaton(a: &Automaton) -> Vec<u8> {
    let mut buf = vec![];
    let u = |buf: &mut Vec<u8>, x: usize| buf.extend((x as u64).to_le_bytes());
    u(&mut buf, a.nb_states);
    u(&mut buf, a.initial_state);
    let mut f: Vec<usize> = a.final_states.iter().copied().collect();
    f.sort();
    u(&mut buf, f.len());
    for x in f {
        u(&mut buf, x);
    }
    let mut t: Vec<((usize, u8), (usize, usize))> =
        a.transitions.iter().map(|(k, v)| (*k, *v)).collect();
    t.sort_by_key(|e| e.0);
    u(&mut buf, t.len());
    for ((s, b), (d, m)) in t {
        u(&mut buf, s);
        buf.push(b);
        u(&mut buf, d);
        u(&mut buf, m);
    }
    buf
}

/// independent decoder of the same format -> (nb_states, init, finals, transitions)
#[allow(clippy::type_complexity)]
pub fn decode_automaton(
    mut b: &[u8],
) -> Result<(usize, usize, BTreeSet<usize>, BTreeMap<(usize, u8), (usize, usize)>), String> {
    fn u(b: &mut &[u8]) -> Result<usize, String> {
        if b.len() < 8 {
            return Err("underflow".into());
        }
        let x = u64::from_le_bytes(b[..8].try_into().unwrap());
        *b = &b[8..];
        Ok(x as usize)
    }
    let n = u(&mut b)?;
    let init = u(&mut b)?;
    let nf = u(&mut b)?;
    let mut fin = BTreeSet::new();
    for _ in 0..nf {
        fin.insert(u(&mut b)?);
    }
    let nt = u(&mut b)?;
    let mut tr = BTreeMap::new();
    for _ in 0..nt {
        let s = u(&mut b)?;
        if b.is_empty() {
            return Err("underflow".into());
        }
        let c = b[0];
        b = &b[1..];
        let d = u(&mut b)?;
        let m = u(&mut b)?;
        tr.insert((s, c), (d, m));
    }
    if !b.is_empty() {
        return Err(format!("{} trailing bytes", b.len()));
    }
    Ok((n, init, fin, tr))
}

pub fn structurally_equal(a: &Automaton, b: &Automaton) -> bool {
    a.nb_states == b.nb_states
        && a.initial_state == b.initial_state
        && a.final_states == b.final_states
        && a.transitions == b.transitions
}

// ---------------------------------------------------------------------------------------------
// (A) one expression
// ---------------------------------------------------------------------------------------------

#[derive(Clone, Debug)]
pub enum Finding {
    Lang { word: Vec<u8>, ref_accepts: bool },
    Marker { word: Vec<u8>, reference: Vec<Marker>, library: Vec<Marker> },
    Panic { info: PanicInfo, kind: &'static str },
    Serialize { what: String },
}

#[derive(Clone, Debug)]
pub enum Outcome {
    /// everything agreed
    Held { ref_states: usize, lib_states: usize, product: usize, marked: bool, words: u64 },
    /// expression outside the library's contract (not output-deterministic); `lookahead` = every
    /// accepted word has a unique marking but a deterministic transducer cannot emit it
    Discarded { lookahead: Option<bool>, lib_panicked: bool },
    Inconclusive(String),
    Found(Finding),
}

pub struct ExprBudget {
    pub ref_bound: usize,
    pub enum_len: usize,
    pub enum_cap: usize,
    pub samples: usize,
    pub sample_len: usize,
}

fn lib_compile(recipe: &Recipe) -> Result<Automaton, PanicInfo> {
    catch_any(|| to_lib(recipe).to_automaton())
}

/// Decides one expression. Pure function of (recipe, seed): used for the main loop, for the
/// shrinker and for `--replay`.
pub fn check_expr(recipe: &Recipe, bud: &ExprBudget, seed: u64) -> (Outcome, Option<(Automaton, RefRe)>) {
    let re = recipe.to_ref();
    let aut = match RefAut::explore(&re, bud.ref_bound) {
        Some(a) => a,
        None => return (Outcome::Inconclusive("derivative automaton above bound".into()), None),
    };
    let compiled = lib_compile(recipe);
    let seq = aut.seq_det();
    let lib = match (compiled, &seq) {
        (Err(p), Err(_))
            if p.message.contains("non output-deterministic")
                || p.message.contains("witness_reachability") =>
        {
            let amb = aut.ambiguous_word(20_000).map(|w| w.is_none());
            return (Outcome::Discarded { lookahead: amb, lib_panicked: true }, None);
        }
        (Err(p), Ok(())) if p.message.contains("non output-deterministic") => {
            return (
                Outcome::Found(Finding::Panic { info: p, kind: "spurious-nondeterminism-panic" }),
                None,
            );
        }
        (Err(p), _) => return (Outcome::Found(Finding::Panic { info: p, kind: "panic" }), None),
        (Ok(_), Err(_)) => {
            // the library did not notice; the contract is void for this expression
            let amb = aut.ambiguous_word(20_000).map(|w| w.is_none());
            return (Outcome::Discarded { lookahead: amb, lib_panicked: false }, None);
        }
        (Ok(a), Ok(())) => a,
    };
    let dfa = match dfa_of(&lib) {
        Ok(d) => d,
        Err(e) => {
            return (
                Outcome::Found(Finding::Serialize { what: format!("malformed automaton: {e}") }),
                None,
            )
        }
    };
    // exhaustive product
    let (diff, product) = aut.product_check(&dfa);
    if let Some(d) = diff {
        let word = match &d {
            Diff::Lang { word, .. } | Diff::Marker { word, .. } => word.clone(),
        };
        // confirm with both word-level matchers before believing the automaton-level result
        return (confirm_word(&re, &dfa, &word, "product"), None);
    }
    // word-level: enumeration over class representatives + sampled words
    let mut words = 0u64;
    let reps: Vec<u8> = aut.classes.iter().map(|c| c[0]).collect();
    let mut stack: Vec<Vec<u8>> = vec![vec![]];
    let mut enumerated = 0usize;
    while let Some(w) = stack.pop() {
        if enumerated >= bud.enum_cap {
            break;
        }
        enumerated += 1;
        words += 1;
        match word_check(&re, &dfa, &w, w.len() <= 5) {
            WordRes::Agree { dead } => {
                if !dead && w.len() < bud.enum_len {
                    for r in reps.iter().rev() {
                        let mut x = w.clone();
                        x.push(*r);
                        stack.push(x);
                    }
                }
            }
            WordRes::Ambiguous => {
                return (Outcome::Inconclusive("word-level ambiguity on a seq-det expression".into()), None)
            }
            WordRes::SelfCheck(s) => return (Outcome::Inconclusive(s), None),
            WordRes::Found(f) => return (Outcome::Found(f), None),
        }
    }
    let mut rng = rng_for(seed, "c19/words");
    for i in 0..bud.samples {
        let w = sample_word(&dfa, &aut, &mut rng, bud.sample_len, i);
        words += 1;
        match word_check(&re, &dfa, &w, false) {
            WordRes::Agree { .. } => {}
            WordRes::Ambiguous => {
                return (Outcome::Inconclusive("word-level ambiguity on a seq-det expression".into()), None)
            }
            WordRes::SelfCheck(s) => return (Outcome::Inconclusive(s), None),
            WordRes::Found(f) => return (Outcome::Found(f), None),
        }
    }
    // serialisation round trip through the library's deserialiser
    let bytes = encode_automaton(&lib);
    match catch_any(|| midnight_circuits::parsing::verif_automaton_deserialize(&bytes)) {
        Err(p) => return (Outcome::Found(Finding::Panic { info: p, kind: "serialize-panic" }), None),
        Ok(Err(e)) => {
            return (
                Outcome::Found(Finding::Serialize { what: format!("deserialize(encode(A)) = Err({e})") }),
                None,
            )
        }
        Ok(Ok(back)) => {
            if !structurally_equal(&lib, &back) {
                return (
                    Outcome::Found(Finding::Serialize { what: "deserialize(encode(A)) != A".into() }),
                    None,
                );
            }
        }
    }
    // corrupted encodings must not panic
    for cut in corrupt_encodings(&bytes, &mut rng) {
        if let Err(p) = catch_any(|| midnight_circuits::parsing::verif_automaton_deserialize(&cut)) {
            return (Outcome::Found(Finding::Panic { info: p, kind: "deserialize-panic" }), None);
        }
    }
    let out = Outcome::Held {
        ref_states: aut.states.len(),
        lib_states: dfa.n,
        product,
        marked: re.has_markers(),
        words,
    };
    (out, Some((lib, re)))
}

/// Truncations and single-bit flips. The two length fields (number of final states, number of
/// transitions) are never touched: the deserialiser reserves `len` elements
/// up-front, so a flipped high byte is an out-of-memory abort of the whole process (probed once,
/// safely, by `length_field_probe`).
fn corrupt_encodings(bytes: &[u8], rng: &mut impl Rng) -> Vec<Vec<u8>> {
    let mut out = vec![];
    for cut in [0usize, 1, 7, 8, 16, 23, 24, 25, 32] {
        if cut < bytes.len() {
            out.push(bytes[..cut].to_vec());
        }
    }
    if bytes.len() >= 32 {
        out.push(bytes[..bytes.len() - 1].to_vec());
        let nf = u64::from_le_bytes(bytes[16..24].try_into().unwrap()) as usize;
        let len2 = 24 + 8 * nf;
        for _ in 0..4 {
            let mut b = bytes.to_vec();
            let i = rng.gen_range(0..b.len());
            let in_len_field = (16..24).contains(&i) || (len2..len2 + 8).contains(&i);
            if in_len_field {
                // any change of a length re-aligns the rest of the buffer and some later 8 bytes
                // are then read as a length
                continue;
            }
            b[i] ^= 1 << rng.gen_range(0..8);
            out.push(b);
        }
    }
    out
}

/// `deserialize` with a length field of u64::MAX: `Vec::with_capacity` panics with "capacity
/// overflow" (catchable), any other large value aborts the process on allocation failure.
fn length_field_probe(rep: &mut Report) {
    let mut bytes = vec![];
    bytes.extend(1u64.to_le_bytes()); // nb_states
    bytes.extend(0u64.to_le_bytes()); // initial state
    bytes.extend(u64::MAX.to_le_bytes()); // number of final states
    rep.eval();
    match catch_any(|| midnight_circuits::parsing::verif_automaton_deserialize(&bytes)) {
        Ok(Err(_)) => rep.count("serialize.length_probe_err"),
        Ok(Ok(_)) => rep.count("serialize.length_probe_ok"),
        Err(p) => rep.violation(
            "C19/serialize/length-field/panic@circuits/src/parsing/serialization.rs Vec::deserialize with_capacity",
            &format!("deserialising 24 bytes with a length field of u64::MAX panics: {}", p.message),
            json!({"sub":"serialize-probe","bytes":hx(&bytes),"location":p.location,"message":p.message}),
        ),
    }
}

enum WordRes {
    Agree { dead: bool },
    Ambiguous,
    SelfCheck(String),
    Found(Finding),
}

/// word-level comparison; `naive` additionally cross-checks the two reference matchers
fn word_check(re: &RefRe, dfa: &LibDfa, w: &[u8], naive: bool) -> WordRes {
    let set = match match_markers(re, w, 64) {
        Ok(s) => s,
        Err(()) => return WordRes::Ambiguous,
    };
    if naive {
        let n = naive_match(re, w);
        if n != set {
            return WordRes::SelfCheck(format!(
                "reference matchers disagree on {}: deriv {:?} naive {:?}",
                hx(w),
                set,
                n
            ));
        }
    }
    if set.len() > 1 {
        return WordRes::Ambiguous;
    }
    let run = dfa.run(w);
    let stuck = run.is_none();
    let lib_acc = matches!(run, Some((true, _)));
    let ref_acc = set.len() == 1;
    if lib_acc != ref_acc {
        return WordRes::Found(Finding::Lang { word: w.to_vec(), ref_accepts: ref_acc });
    }
    if ref_acc {
        let r = set.into_iter().next().unwrap();
        let l = run.unwrap().1;
        if r != l {
            return WordRes::Found(Finding::Marker { word: w.to_vec(), reference: r, library: l });
        }
    }
    WordRes::Agree { dead: stuck && !ref_acc && !w.is_empty() && dead_prefix(re, w) }
}

/// no extension of `w` is in the reference language (cheap under-approximation: the derivative
/// state set is empty)
fn dead_prefix(re: &RefRe, w: &[u8]) -> bool {
    // every marking dies <=> derivative wrt all markings is Empty; reuse the DP with nullable
    // filter removed by asking for the word followed by nothing: approximate by checking that
    // no partial marking survives
    let mut cur = vec![re.clone()];
    for b in w {
        let mut next = vec![];
        for s in &cur {
            for m in 0..=3usize {
                let d = s.deriv(*b, m);
                if d != RefRe::Empty && !next.contains(&d) {
                    next.push(d);
                }
            }
        }
        if next.len() > 64 {
            return false;
        }
        cur = next;
        if cur.is_empty() {
            return true;
        }
    }
    false
}

/// A violation candidate found at automaton level is re-decided at word level by the derivative
/// matcher and the naive matcher; disagreement between those is a harness problem.
fn confirm_word(re: &RefRe, dfa: &LibDfa, w: &[u8], origin: &str) -> Outcome {
    let d = match match_markers(re, w, 4096) {
        Ok(s) => s,
        Err(()) => return Outcome::Inconclusive(format!("{origin}: marker-set overflow on witness")),
    };
    if w.len() <= 24 {
        let n = naive_match(re, w);
        if n != d {
            return Outcome::Inconclusive(format!(
                "{origin}: reference matchers disagree on witness {}",
                hx(w)
            ));
        }
    }
    if d.len() > 1 {
        return Outcome::Inconclusive(format!("{origin}: witness {} is ambiguous", hx(w)));
    }
    let run = dfa.run(w);
    let lib_acc = matches!(run, Some((true, _)));
    let ref_acc = d.len() == 1;
    if lib_acc != ref_acc {
        return Outcome::Found(Finding::Lang { word: w.to_vec(), ref_accepts: ref_acc });
    }
    if ref_acc {
        let r = d.into_iter().next().unwrap();
        let l = run.unwrap().1;
        if r != l {
            return Outcome::Found(Finding::Marker { word: w.to_vec(), reference: r, library: l });
        }
    }
    Outcome::Inconclusive(format!("{origin}: automaton-level difference not confirmed on {}", hx(w)))
}

/// words biased towards acceptance: walk the compiled automaton, sometimes perturb
pub fn sample_word(dfa: &LibDfa, aut: &RefAut, rng: &mut impl Rng, max_len: usize, i: usize) -> Vec<u8> {
    let target = rng.gen_range(0..=max_len);
    let mut w = vec![];
    let mut s = dfa.init;
    while w.len() < target {
        // outgoing classes
        let mut opts: Vec<u8> = vec![];
        for c in &aut.classes {
            let b = c[rng.gen_range(0..c.len())];
            if dfa.step(s, b).map(|(t, _)| dfa.live[t]).unwrap_or(false) {
                opts.push(b);
            }
        }
        if opts.is_empty() || (dfa.fin[s] && rng.gen_bool(0.15)) {
            break;
        }
        let b = *opts.choose(rng).unwrap();
        w.push(b);
        s = dfa.step(s, b).unwrap().0;
    }
    // complete to a final state when short enough
    if !dfa.fin[s] {
        if let Some(suf) = dfa.suffix_to_final(s) {
            if w.len() + suf.len() <= max_len {
                w.extend(suf);
            }
        }
    }
    match i % 4 {
        1 if !w.is_empty() => {
            let k = rng.gen_range(0..w.len());
            let c = &aut.classes[rng.gen_range(0..aut.classes.len())];
            w[k] = c[rng.gen_range(0..c.len())];
        }
        2 if !w.is_empty() => {
            w.pop();
        }
        3 if w.len() < max_len => {
            let c = &aut.classes[rng.gen_range(0..aut.classes.len())];
            w.push(c[rng.gen_range(0..c.len())]);
        }
        _ => {}
    }
    w
}

// ---------------------------------------------------------------------------------------------
// shrinking (for stable signatures)
// ---------------------------------------------------------------------------------------------

fn finding_kind(f: &Finding) -> String {
    match f {
        Finding::Lang { .. } => "lang".into(),
        Finding::Marker { .. } => "markers".into(),
        Finding::Panic { kind, info } => format!("{kind}@{}", repo_file(&info.file)),
        Finding::Serialize { .. } => "serialize".into(),
    }
}

/// core combinators (library primitives); everything else is a derived combinator
fn is_core(r: &Recipe) -> bool {
    use Recipe::*;
    matches!(
        r,
        ByteFrom(_) | FromU8(_) | Epsilon | Union(_) | Cat(_) | Inter(_) | Neg(_) | NonEmptyList(_)
            | Mark(..) | ReplaceMarkers(..)
    )
}

fn non_core_count(r: &Recipe) -> usize {
    let mut n = 0;
    r.visit(&mut |x| {
        if !is_core(x) {
            n += 1
        }
    });
    n
}

/// one-step expansion of a derived combinator following the library's documented definition
fn expand(r: &Recipe) -> Option<Recipe> {
    use Recipe::*;
    let b = |r: Recipe| Box::new(r);
    let range = |a: u8, z: u8| ByteFrom(ByteSet(vec![(a, z)]));
    let sp = |s: &Recipe| Cat(vec![Blanks, s.clone(), Blanks]);
    let sepcat = |v: &Vec<Recipe>, s: Recipe| -> Recipe {
        let mut it = v.iter().cloned();
        match it.next() {
            None => Epsilon,
            Some(first) => it.fold(first, |acc, x| Cat(vec![acc, s.clone(), x])),
        }
    };
    Some(match r {
        AnyByte => range(0, 255),
        ByteNotFrom(s) => {
            let v: Vec<u8> = (0..=255u8).filter(|x| !s.contains(*x)).collect();
            ByteFrom(ByteSet::from_bytes(&v))
        }
        Word(w) | FromStr(w) | FromString(w) => Cat(w.bytes().map(FromU8).collect()),
        FromRefU8(x) => FromU8(*x),
        Digit => range(b'0', b'9'),
        Lower => range(b'a', b'z'),
        Upper => range(b'A', b'Z'),
        Letter => ByteFrom(ByteSet(vec![(b'a', b'z'), (b'A', b'Z')])),
        Alnum => ByteFrom(ByteSet(vec![(b'a', b'z'), (b'A', b'Z'), (b'0', b'9')])),
        OneBlank => ByteFrom(ByteSet::from_bytes(b" \t\n")),
        BlanksStrict => NonEmptyList(b(OneBlank)),
        Blanks => List(b(OneBlank)),
        Any => Inter(vec![]),
        Utf8 => List(b(Utf8Cps)),
        List(a) => Union(vec![NonEmptyList(a.clone()), Epsilon]),
        Optional(a) => Union(vec![(**a).clone(), Epsilon]),
        SpacedList(a) => Union(vec![Epsilon, SpacedNonEmptyList(a.clone())]),
        SpacedNonEmptyList(a) => {
            Cat(vec![(**a).clone(), List(b(Cat(vec![Blanks, (**a).clone()])))])
        }
        Repeat(a, n) => Cat(vec![(**a).clone(); *n]),
        SpacedRepeat(a, n) => SpacedCat(vec![(**a).clone(); *n]),
        RepeatAtMost(a, n) => Union((0..=*n).map(|i| Repeat(a.clone(), i)).collect()),
        SpacedRepeatAtMost(a, n) => Union((0..=*n).map(|i| SpacedRepeat(a.clone(), i)).collect()),
        MarkBytes(a, set, m) => Mark(a.clone(), MarkFn(vec![(set.clone(), Some(*m))])),
        Terminated(a, c) => Cat(vec![(**a).clone(), (**c).clone()]),
        SpacedTerminated(a, c) => Cat(vec![(**a).clone(), Blanks, (**c).clone()]),
        Or(a, c) => Union(vec![(**a).clone(), (**c).clone()]),
        And(a, c) => Inter(vec![(**a).clone(), (**c).clone()]),
        Minus(a, c) => Inter(vec![(**a).clone(), Neg(c.clone())]),
        SeparatedNonEmptyList(a, s) => Cat(vec![
            (**a).clone(),
            List(b(Cat(vec![(**s).clone(), (**a).clone()]))),
        ]),
        SpacedSeparatedNonEmptyList(a, s) => Cat(vec![
            (**a).clone(),
            List(b(Cat(vec![Blanks, (**s).clone(), Blanks, (**a).clone()]))),
        ]),
        SeparatedList(a, s) => Union(vec![Epsilon, SeparatedNonEmptyList(a.clone(), s.clone())]),
        SpacedSeparatedList(a, s) => {
            Union(vec![Epsilon, SpacedSeparatedNonEmptyList(a.clone(), s.clone())])
        }
        SeparatedRepeat(a, n, s) => SeparatedCat(vec![(**a).clone(); *n], s.clone()),
        SpacedSeparatedRepeat(a, n, s) => SpacedSeparatedCat(vec![(**a).clone(); *n], s.clone()),
        SeparatedRepeatAtMost(a, n, s) => {
            Union((0..=*n).map(|i| SeparatedRepeat(a.clone(), i, s.clone())).collect())
        }
        SpacedSeparatedRepeatAtMost(a, n, s) => {
            Union((0..=*n).map(|i| SpacedSeparatedRepeat(a.clone(), i, s.clone())).collect())
        }
        Delimited(a, o, c) => Cat(vec![(**o).clone(), (**a).clone(), (**c).clone()]),
        SpacedDelimited(a, o, c) => {
            Cat(vec![(**o).clone(), Blanks, (**a).clone(), Blanks, (**c).clone()])
        }
        SpacedCat(v) => SeparatedCat(v.clone(), b(Blanks)),
        SeparatedCat(v, s) => sepcat(v, (**s).clone()),
        SpacedSeparatedCat(v, s) => sepcat(v, sp(s)),
        _ => return None,
    })
}

/// candidates in a fixed order: children, n-ary element removal, smaller counts, epsilon, a
/// single byte, finally the one-step expansion into core combinators
fn simpler_candidates(r: &Recipe) -> Vec<Recipe> {
    let mut out: Vec<Recipe> = r.children().into_iter().cloned().collect();
    use Recipe::*;
    match r {
        Union(v) | Inter(v) | Cat(v) | SpacedCat(v) if !v.is_empty() => {
            for i in 0..v.len() {
                let mut w = v.clone();
                w.remove(i);
                out.push(match r {
                    Union(_) => Union(w),
                    Inter(_) => Inter(w),
                    Cat(_) => Cat(w),
                    _ => SpacedCat(w),
                });
            }
        }
        Repeat(a, n) if *n > 0 => out.push(Repeat(a.clone(), n - 1)),
        RepeatAtMost(a, n) if *n > 0 => out.push(RepeatAtMost(a.clone(), n - 1)),
        ByteFrom(s) if !s.bytes().is_empty() => out.push(FromU8(s.bytes()[0])),
        _ => {}
    }
    if *r != Epsilon {
        out.push(Epsilon);
    }
    if !matches!(r, Epsilon | FromU8(_)) {
        out.push(FromU8(b'a'));
    }
    if let Some(e) = expand(r) {
        out.push(e);
    }
    out
}

fn measure(r: &Recipe) -> (usize, usize, usize, usize) {
    let (mut eps, mut bf) = (0, 0);
    r.visit(&mut |x| {
        if !matches!(x, Recipe::Epsilon) && x.children().is_empty() {
            eps += 1
        }
        if matches!(x, Recipe::ByteFrom(_)) {
            bf += 1
        }
    });
    (non_core_count(r), r.node_count(), eps, bf)
}

/// Number of sub-expressions of the degenerate kinds behind the epsilon/empty-language defects:
/// composite sub-expressions whose language is literally {epsilon} or empty, complements of
/// such, and `any()`. The shrinker never *introduces* them, so that a finding that does not
/// involve them keeps a signature of its own.
pub fn degenerate_count(r: &Recipe) -> usize {
    let mut n = 0;
    r.visit(&mut |x| {
        match x {
            Recipe::Any => n += 1,
            Recipe::Inter(v) if v.is_empty() => n += 1,
            Recipe::Neg(c) | Recipe::Minus(_, c) if trivial_language(c).is_some() => n += 1,
            _ => {}
        }
        match trivial_language(x) {
            Some("<empty>") => n += 1,
            Some(_) if !x.children().is_empty() => n += 1,
            _ => {}
        }
    });
    n
}

/// Which degenerate constructions occur in `r` (bounded vocabulary, used for signatures of the
/// epsilon/empty-language defect family so that the same root cause keeps one signature).
pub fn degenerate_features(r: &Recipe) -> BTreeSet<&'static str> {
    use Recipe::*;
    let mut f = BTreeSet::new();
    let mut first = true;
    r.visit(&mut |x| {
        let root = first;
        first = false;
        match x {
            Any => {
                f.insert("universal");
            }
            Inter(v) if v.is_empty() => {
                f.insert("universal");
            }
            Neg(c) | Minus(_, c) if trivial_language(c).is_some() => {
                f.insert("complement-of-trivial");
            }
            List(c) | NonEmptyList(c) | SpacedList(c) | SpacedNonEmptyList(c)
                if trivial_language(c) == Some("<eps>") =>
            {
                f.insert("iteration-of-eps");
            }
            _ => {}
        }
        if !root {
            match trivial_language(x) {
                Some("<empty>") => {
                    f.insert("empty-part");
                }
                Some(_) if !x.children().is_empty() => {
                    f.insert("eps-only-part");
                }
                _ => {}
            }
        }
    });
    f
}

/// `<eps>` / `<empty>` when the (reference) language of `r` is {epsilon} / empty
pub fn trivial_language(r: &Recipe) -> Option<&'static str> {
    let re = r.to_ref();
    match re {
        RefRe::Eps => return Some("<eps>"),
        RefRe::Empty => return Some("<empty>"),
        _ => {}
    }
    let aut = RefAut::explore(&re, 300)?;
    if !aut.live[0] {
        return Some("<empty>");
    }
    if aut.nullable[0] && (0..aut.classes.len()).all(|c| aut.live_succ(0, c).is_empty()) {
        return Some("<eps>");
    }
    None
}

fn still_fails(trial: &Recipe, kind: &str, bud: &ExprBudget, seed: u64, max_deg: usize) -> bool {
    if !recipe_respects_contract(trial) || (max_deg != usize::MAX && degenerate_count(trial) > max_deg) {
        return false;
    }
    matches!(check_expr(trial, bud, seed), (Outcome::Found(f), _) if finding_kind(&f) == kind)
}

struct Shrinker<'a> {
    kind: &'a str,
    bud: &'a ExprBudget,
    seed: u64,
    budget: usize,
    /// stage 1: never increase the number of degenerate sub-expressions
    guard: bool,
}

impl Shrinker<'_> {
    fn max_deg(&self, cur: &Recipe) -> usize {
        if self.guard {
            degenerate_count(cur)
        } else {
            usize::MAX
        }
    }

    /// greedy: replace any node by a smaller candidate while the same kind of finding persists
    fn small(&mut self, recipe: &Recipe) -> Recipe {
        let mut cur = recipe.clone();
        loop {
            let mut improved = false;
            let n = cur.node_count();
            let m0 = measure(&cur);
            let md = self.max_deg(&cur);
            'pos: for pos in 0..n {
                let node = nth_node(&cur, pos).clone();
                let mut cands = simpler_candidates(&node);
                if expand(&node).is_some() {
                    cands.pop(); // expansions are handled by `rec`
                }
                for cand in cands {
                    let mut trial = cur.clone();
                    *nth_node_mut(&mut trial, pos) = cand;
                    if measure(&trial) >= m0 {
                        continue;
                    }
                    if self.budget == 0 {
                        return cur;
                    }
                    self.budget -= 1;
                    if still_fails(&trial, self.kind, self.bud, self.seed, md) {
                        cur = trial;
                        improved = true;
                        break 'pos;
                    }
                }
            }
            if !improved {
                return cur;
            }
        }
    }

    /// Derived combinators are expanded into the library's core combinators when the finding
    /// survives the expansion (so a defect of a derived combinator's own definition keeps that
    /// combinator in the signature).
    fn rec(&mut self, recipe: &Recipe, depth: usize) -> Recipe {
        let mut cur = self.small(recipe);
        if depth == 0 {
            return cur;
        }
        loop {
            let mut improved = false;
            let n = cur.node_count();
            let md = self.max_deg(&cur);
            for pos in 0..n {
                let node = nth_node(&cur, pos).clone();
                let Some(e) = expand(&node) else { continue };
                if self.budget == 0 {
                    return cur;
                }
                self.budget -= 1;
                let mut trial = cur.clone();
                *nth_node_mut(&mut trial, pos) = e;
                if !still_fails(&trial, self.kind, self.bud, self.seed, md) {
                    continue;
                }
                let t2 = self.rec(&trial, depth - 1);
                if measure(&t2) < measure(&cur) {
                    cur = t2;
                    improved = true;
                    break;
                }
            }
            if !improved {
                return cur;
            }
        }
    }
}

/// Shrinks towards few derived combinators, few nodes, epsilon leaves. Stage 1 never introduces
/// degenerate sub-expressions (so a finding that does not need them keeps a signature of its
/// own); if degenerate sub-expressions survive stage 1 they are taken to be essential and
/// stage 2 shrinks freely towards the canonical degenerate shape.
pub fn shrink(recipe: &Recipe, kind: &str, bud: &ExprBudget, seed: u64) -> Recipe {
    let mut sh = Shrinker { kind, bud, seed, budget: 3000, guard: true };
    let s1 = sh.rec(recipe, 3);
    if degenerate_count(&s1) == 0 {
        return s1;
    }
    sh.guard = false;
    sh.budget = 3000;
    sh.rec(&s1, 3)
}

fn nth_node(r: &Recipe, n: usize) -> &Recipe {
    fn go<'a>(r: &'a Recipe, n: &mut usize) -> Option<&'a Recipe> {
        if *n == 0 {
            return Some(r);
        }
        *n -= 1;
        for c in r.children() {
            if let Some(x) = go(c, n) {
                return Some(x);
            }
        }
        None
    }
    let mut k = n;
    go(r, &mut k).expect("node index")
}

fn nth_node_mut(r: &mut Recipe, n: usize) -> &mut Recipe {
    fn go<'a>(r: &'a mut Recipe, n: &mut usize) -> Option<&'a mut Recipe> {
        if *n == 0 {
            return Some(r);
        }
        *n -= 1;
        for c in r.children_mut() {
            if let Some(x) = go(c, n) {
                return Some(x);
            }
        }
        None
    }
    let mut k = n;
    go(r, &mut k).expect("node index")
}

/// generator restrictions (see `GenFlags`): no marker below a complement, no complement / `any()`
/// below a marking node
pub fn recipe_respects_contract(r: &Recipe) -> bool {
    fn go(r: &Recipe, under_neg: bool, under_mark: bool) -> bool {
        use Recipe::*;
        match r {
            Mark(..) | MarkBytes(..) | JsonString if under_neg => return false,
            ReplaceMarkers(..) if under_neg => return false,
            Neg(_) | Minus(..) | Any if under_mark => return false,
            Inter(v) if under_mark && v.is_empty() => return false,
            _ => {}
        }
        match r {
            Neg(a) => go(a, true, under_mark),
            Minus(a, b) => go(a, under_neg, under_mark) && go(b, true, under_mark),
            Mark(a, _) | MarkBytes(a, _, _) | ReplaceMarkers(a, _) => go(a, under_neg, true),
            _ => r.children().into_iter().all(|c| go(c, under_neg, under_mark)),
        }
    }
    go(r, false, false)
}

// ---------------------------------------------------------------------------------------------
// reporting helpers
// ---------------------------------------------------------------------------------------------

/// combinator skeleton for signatures; sub-expressions that literally denote {epsilon} / the
/// empty language are written `<eps>` / `<empty>` whatever their spelling
fn sig_shape(r: &Recipe) -> String {
    let ch = r.children();
    if ch.is_empty() {
        return r.name().to_string();
    }
    let parts: Vec<String> = ch
        .iter()
        .map(|c| match trivial_language(c) {
            Some(t) => t.to_string(),
            None => sig_shape(c),
        })
        .collect();
    format!("{}({})", r.name(), parts.join(","))
}

fn report_finding(rep: &mut Report, recipe: &Recipe, f: &Finding, bud: &ExprBudget, seed: u64) {
    let kind = finding_kind(f);
    let small = shrink(recipe, &kind, bud, seed);
    // re-run the (shrunk) case once
    let again = check_expr(&small, bud, seed).0;
    let f2 = match again {
        Outcome::Found(f2) if finding_kind(&f2) == kind => f2,
        _ => {
            rep.inconclusive(&format!("finding {kind} did not reproduce on re-run"));
            return;
        }
    };
    let feats = degenerate_features(&small);
    let exact_shape = sig_shape(&small);
    let shape = if feats.is_empty() {
        exact_shape.clone()
    } else {
        format!("degenerate[{}]", feats.iter().copied().collect::<Vec<_>>().join("+"))
    };
    let recipe_json = serde_json::to_value(&small).unwrap();
    let orig_json = serde_json::to_value(recipe).unwrap();
    match &f2 {
        Finding::Lang { word, ref_accepts } => rep.violation(
            &format!("C19/lang/{shape}/mismatch"),
            &format!(
                "compiled automaton {} the word {} which the expression's language {}",
                if *ref_accepts { "rejects" } else { "accepts" },
                hx(word),
                if *ref_accepts { "contains" } else { "does not contain" }
            ),
            json!({"sub":"expr","shape":exact_shape,"recipe":recipe_json,"original_recipe":orig_json,"word":hx(word),"reference_accepts":ref_accepts}),
        ),
        Finding::Marker { word, reference, library } => rep.violation(
            &format!("C19/markers/{shape}/mismatch"),
            &format!("accepted word {} is marked {:?} by the automaton, {:?} by the expression", hx(word), library, reference),
            json!({"sub":"expr","shape":exact_shape,"recipe":recipe_json,"original_recipe":orig_json,"word":hx(word),"reference":reference,"library":library}),
        ),
        Finding::Panic { info, kind } => {
            let sub = if kind.contains("serial") { "serialize" } else if kind.contains("nondet") { "markers" } else { "lang" };
            rep.violation(
                &format!("C19/{sub}/{shape}/{kind}@{}", repo_file(&info.file)),
                &format!("panic: {}", info.message.chars().take(160).collect::<String>()),
                json!({"sub":"expr","shape":exact_shape,"recipe":recipe_json,"original_recipe":orig_json,"location":info.location,"message":info.message}),
            )
        }
        Finding::Serialize { what } => rep.violation(
            &format!("C19/serialize/{shape}/roundtrip"),
            what,
            json!({"sub":"expr","recipe":recipe_json,"original_recipe":orig_json}),
        ),
    }
}

fn expr_budget(ctx: &Ctx) -> ExprBudget {
    ExprBudget {
        ref_bound: 2000,
        enum_len: 6,
        enum_cap: ctx.tier.pick(3000, 6000),
        samples: 200,
        sample_len: 40,
    }
}

// ---------------------------------------------------------------------------------------------
// main
// ---------------------------------------------------------------------------------------------

fn main() {
    let ctx = Ctx::from_args("C19");
    let mut rep = Report::new(
        &ctx,
        "expr: a random combinator tree (depth<=5) is non-trivial iff the reference finds it \
         sequentially output-deterministic, the library compiles it and the product of both \
         automata was explored completely (descriptor = recipe); chip: (automaton, word, claimed \
         markers) circuits; base64: (variant, input, claimed output) circuits",
    );
    rep.assume("reference semantics of markers: intersection unifies equal markers or 0 with non-zero; complement ranges over unmarked words (regex.rs docs)");
    rep.assume("generator never puts a marker below a complement (library precondition) nor a mark/replace_markers above a complement or any() (undocumented meaning)");
    rep.assume("MockProver is the satisfiability oracle for the chip circuits; cs.trashcans() is checked to be empty at run time");

    if let Err(e) = self_test() {
        rep.inconclusive(&format!("reference self-test failed: {e}"));
        rep.finish();
    }
    if let Err(e) = b64c::self_test() {
        rep.inconclusive(&format!("base64 reference self-test failed: {e}"));
        rep.finish();
    }

    if let Some(path) = ctx.replay.clone() {
        replay(&ctx, &mut rep, &path);
        rep.finish();
    }

    let only = ctx.extra.get("only").cloned().unwrap_or_default();
    let run = |p: &str| only.is_empty() || only.split(',').any(|x| x == p);

    if only == "probe" {
        probe();
        std::process::exit(0);
    }
    let mut pool: Vec<(Recipe, Automaton, RefRe)> = vec![];
    if run("expr") {
        part_a(&ctx, &mut rep, &mut pool);
    }
    if run("spec") {
        length_field_probe(&mut rep);
        part_b(&ctx, &mut rep);
    }
    if run("chip") {
        if pool.is_empty() {
            // chip part run alone: regenerate a pool
            let mut scratch = rep.fork();
            part_a(&ctx, &mut scratch, &mut pool);
        }
        chipc::part_c(&ctx, &mut rep, &pool);
    }
    if run("base64") {
        b64c::part_d(&ctx, &mut rep);
    }
    rep.finish();
}

/// debugging aid: what the library alone does on a few expressions (no reference involved)
fn probe() {
    let show = |name: &str, r: Regex, words: &[&[u8]]| match catch_any(|| r.to_automaton()) {
        Err(p) => println!("{name}: PANIC {} @ {}", p.message, p.location),
        Ok(a) => {
            let d = dfa_of(&a).unwrap();
            let res: Vec<String> = words.iter().map(|w| format!("{:?}->{:?}", String::from_utf8_lossy(w), d.run(w))).collect();
            println!("{name}: states={} finals={:?} transitions={} :: {}", a.nb_states, a.final_states, a.transitions.len(), res.join("  "));
        }
    };
    show("epsilon.neg()", Regex::epsilon().neg(), &[b"", b"a", b"ab"]);
    show("union([]).neg()", Regex::union(Vec::<Regex>::new()).neg(), &[b"", b"a", b"ab"]);
    show("digit.minus(epsilon)", Regex::digit().minus(Regex::epsilon()), &[b"", b"0"]);
    show("a.list().minus(epsilon)", Regex::from("a").list().minus(Regex::epsilon()), &[b"", b"a", b"aa"]);
    show("epsilon.optional().terminated(a)", Regex::epsilon().optional().terminated("a".into()), &[b"", b"a"]);
    show("digit.repeat_at_most(0).terminated(a)", Regex::digit().repeat_at_most(0).terminated("a".into()), &[b"", b"a", b"0a"]);
    show("any()", Regex::any(), &[b"", b"a"]);
    show("any().list()", Regex::any().list(), &[b"", b"a"]);
    show("any_byte().list()", Regex::any_byte().list(), &[b"", b"a"]);
    show("epsilon.list()", Regex::epsilon().list(), &[b"", b"a"]);
    show("json_string", Regex::json_string(), &[b"\"a\"", "\"\u{e9}\"".as_bytes(), "\"M\u{fc}ller\"".as_bytes()]);
    show("utf8", Regex::utf8(), &["\u{e9}".as_bytes()]);
}

fn fixed_recipes() -> Vec<Recipe> {
    use Recipe::*;
    let b = |r: Recipe| Box::new(r);
    let bf = |s: &[u8]| ByteFrom(ByteSet::from_bytes(s));
    vec![
        // boundary shapes that do not depend on the seed
        Epsilon,
        Union(vec![]),
        Inter(vec![]),
        Any,
        Neg(b(Epsilon)),
        Neg(b(Union(vec![]))),
        Neg(b(Any)),
        Neg(b(Neg(b(bf(b"a"))))),
        Minus(b(List(b(bf(b"a")))), b(Epsilon)),
        Terminated(b(RepeatAtMost(b(Digit), 0)), b(bf(b"a"))),
        List(b(Epsilon)),
        List(b(Any)),
        Minus(b(AnyByte), b(bf(b"a"))),
        Minus(b(Any), b(List(b(bf(b"ab"))))),
        Repeat(b(bf(b"a")), 0),
        RepeatAtMost(b(bf(b"ab")), 3),
        RepeatAtMost(b(Optional(b(bf(b"a")))), 2),
        SeparatedRepeatAtMost(b(bf(b"a")), 3, b(bf(b","))),
        SpacedSeparatedRepeat(b(Word("ab".into())), 2, b(bf(b","))),
        List(b(List(b(bf(b"a"))))),
        NonEmptyList(b(Optional(b(bf(b"a"))))),
        Optional(b(NonEmptyList(b(bf(b"a"))))),
        And(b(List(b(Word("ab".into())))), b(List(b(Mark(b(AnyByte), MarkFn(vec![(ByteSet::from_bytes(b"a"), Some(2))])))))),
        And(b(Mark(b(bf(b"a")), MarkFn(vec![(ByteSet(vec![(0, 255)]), Some(1))]))), b(Mark(b(bf(b"a")), MarkFn(vec![(ByteSet(vec![(0, 255)]), Some(2))])))),
        SeparatedList(b(MarkBytes(b(NonEmptyList(b(bf(b"a")))), ByteSet::from_bytes(b"a"), 1)), b(bf(b"b"))),
        ReplaceMarkers(b(JsonString), vec![(1, 3)]),
        JsonString,
        Utf8,
        Utf8Cps,
        SpacedDelimited(b(Digit), b(bf(b"[")), b(bf(b"]"))),
        SpacedList(b(Lower)),
        SpacedNonEmptyList(b(Upper)),
        SpacedCat(vec![Letter, Alnum, OneBlank]),
        SpacedSeparatedCat(vec![bf(b"a"), bf(b"b"), bf(b"c")], b(bf(b","))),
        SeparatedCat(vec![], b(bf(b","))),
        SpacedTerminated(b(BlanksStrict), b(Blanks)),
        SpacedRepeat(b(bf(b"a")), 3),
        SpacedRepeatAtMost(b(bf(b"a")), 2),
        SpacedSeparatedList(b(bf(b"a")), b(bf(b","))),
        SpacedSeparatedNonEmptyList(b(bf(b"a")), b(bf(b","))),
        SpacedSeparatedRepeatAtMost(b(bf(b"a")), 2, b(bf(b","))),
        SeparatedNonEmptyList(b(bf(b"a")), b(Optional(b(bf(b","))))),
        Delimited(b(ByteNotFrom(ByteSet::from_bytes(b"\""))), b(FromStr("\"".into())), b(FromString("\"".into()))),
        Terminated(b(FromU8(0)), b(FromRefU8(255))),
        Or(b(Word("".into())), b(Word("abc".into()))),
        ByteFrom(ByteSet(vec![(b'l', b'l'), (b'l', b'l')])),
        // a component with the empty language after an ambiguous-looking (but dead) prefix
        Cat(vec![
            Mark(b(NonEmptyList(b(bf(b"a")))), MarkFn(vec![(ByteSet(vec![(0, 255)]), Some(1))])),
            bf(b"a"),
            Union(vec![]),
        ]),
        Cat(vec![Union(vec![]), Or(b(bf(b"a")), b(Epsilon))]),
        Cat(vec![
            Mark(b(NonEmptyList(b(bf(b"a")))), MarkFn(vec![(ByteSet(vec![(0, 255)]), Some(1))])),
            bf(b"a"),
            ByteFrom(ByteSet(vec![])),
        ]),
        ByteFrom(ByteSet(vec![])),
        Neg(b(ByteFrom(ByteSet(vec![])))),
        Neg(b(bf(b"a"))),
        Neg(b(List(b(bf(b"ab"))))),
    ]
}

fn part_a(ctx: &Ctx, rep: &mut Report, pool: &mut Vec<(Recipe, Automaton, RefRe)>) {
    let n_random = ctx.tier.pick(150usize, 5000);
    let bud = expr_budget(ctx);
    let mut recipes: Vec<(Recipe, bool)> = fixed_recipes().into_iter().map(|r| (r, true)).collect();
    let mut rng = ctx.rng("c19/expr");
    for _ in 0..n_random {
        let g = RecipeGen::new(&mut rng);
        let depth = rng.gen_range(2..=5);
        let r = g.gen(&mut rng, depth, GenFlags { no_marks: false, no_neg: false });
        recipes.push((r, false));
    }
    let seed = ctx.seed;
    let results: Vec<_> = recipes
        .par_iter()
        .enumerate()
        .map(|(i, (r, _))| {
            let t = std::time::Instant::now();
            let res = catch_any(|| check_expr(r, &bud, seed ^ (i as u64) << 20));
            (res, t.elapsed().as_secs_f64())
        })
        .collect();
    let mut comb_cov: BTreeMap<&'static str, u64> = Recipe::ALL_NAMES.iter().map(|n| (*n, 0)).collect();
    let mut depth_cov: BTreeMap<usize, u64> = BTreeMap::new();
    let mut max_time = 0f64;
    let mut slowest = String::new();
    let (mut held, mut held_marked) = (0u64, 0u64);
    for (i, ((recipe, fixed), (res, secs))) in recipes.iter().zip(results).enumerate() {
        rep.eval();
        if secs > max_time {
            max_time = secs;
            slowest = serde_json::to_string(recipe).unwrap();
        }
        let case_seed = seed ^ (i as u64) << 20;
        let (out, keep) = match res {
            Ok(x) => x,
            Err(p) => {
                rep.inconclusive(&format!("harness panic in expression check: {} @ {}", p.message, p.location));
                continue;
            }
        };
        match out {
            Outcome::Held { ref_states, lib_states, product, marked, words } => {
                held += 1;
                rep.nontrivial(&("expr", serde_json::to_string(recipe).unwrap()));
                rep.count("expr.held");
                rep.evals(words);
                rep.count_n("expr.product_states", product as u64);
                rep.count_n("expr.words_checked", words);
                if marked {
                    held_marked += 1;
                    rep.count("expr.held_with_markers");
                }
                recipe.visit(&mut |r| *comb_cov.get_mut(r.name()).unwrap() += 1);
                *depth_cov.entry(recipe.depth()).or_insert(0) += 1;
                rep.sample(json!({"part":"expr","shape":recipe.shape(),"ref_states":ref_states,"lib_states":lib_states,"product_states":product,"marked":marked}));
                if let Some((a, re)) = keep {
                    if pool.len() < 400 {
                        pool.push((recipe.clone(), a, re));
                    }
                }
                let _ = fixed;
            }
            Outcome::Discarded { lookahead, lib_panicked } => {
                rep.count("expr.discarded_not_output_deterministic");
                match lookahead {
                    Some(true) => rep.count("expr.discarded.unique_marking_but_needs_lookahead"),
                    Some(false) => rep.count("expr.discarded.ambiguous_marking"),
                    None => rep.count("expr.discarded.ambiguity_undecided"),
                }
                if !lib_panicked {
                    rep.count("expr.discarded.library_compiled_silently");
                }
            }
            Outcome::Inconclusive(why) => {
                if why.contains("above bound") {
                    rep.count("expr.inconclusive_ref_bound");
                    rep.inconclusive(&why);
                } else {
                    rep.inconclusive(&format!("{why} [{}]", recipe.shape()));
                }
            }
            Outcome::Found(f) => {
                rep.count("expr.findings_raw");
                report_finding(rep, recipe, &f, &bud, case_seed);
            }
        }
    }
    rep.set("expr.combinator_coverage", json!(comb_cov));
    rep.set("expr.depth_coverage", json!(depth_cov.iter().map(|(k, v)| (k.to_string(), *v)).collect::<BTreeMap<_, _>>()));
    rep.set("expr.max_case_seconds", json!(max_time));
    rep.set("expr.slowest_recipe", json!(slowest));
    let missing: Vec<_> = comb_cov.iter().filter(|(_, v)| **v == 0).map(|(k, _)| *k).collect();
    if !missing.is_empty() {
        rep.inconclusive(&format!("combinators never covered by a held case: {missing:?}"));
    }
    if held < (recipes.len() as u64) / 4 || held_marked < 5 {
        rep.inconclusive(&format!("too few decided expressions: held {held}, with markers {held_marked}"));
    }
}

// ---------------------------------------------------------------------------------------------
// (B) shipped specifications
// ---------------------------------------------------------------------------------------------

fn part_b(ctx: &Ctx, rep: &mut Report) {
    let specs = match catch_any(midnight_circuits::parsing::verif_spec_regexes) {
        Ok(s) => s,
        Err(p) => {
            rep.violation(&format!("C19/spec/all/panic@{}", repo_file(&p.file)), &p.message, json!({"sub":"spec","location":p.location}));
            return;
        }
    };
    let shipped = match catch_any(midnight_circuits::parsing::spec_library) {
        Ok(s) => s,
        Err(p) => {
            rep.violation(&format!("C19/spec/all/panic@{}", repo_file(&p.file)), &format!("spec_library(): {}", p.message), json!({"sub":"spec","location":p.location}));
            return;
        }
    };
    if specs.is_empty() {
        rep.inconclusive("no shipped specification");
    }
    for (name, regex, bytes) in specs {
        let pname = format!("{name:?}");
        rep.eval();
        let Some(ship) = shipped.get(&name) else {
            rep.violation(&format!("C19/spec/{pname}/missing"), "spec_library() has no automaton for this parser", json!({"sub":"spec","parser":pname}));
            continue;
        };
        let compiled = match catch_any(|| regex.to_automaton()) {
            Ok(a) => a,
            Err(p) => {
                rep.violation(&format!("C19/spec/{pname}/panic@{}", repo_file(&p.file)), &p.message, json!({"sub":"spec","parser":pname,"location":p.location}));
                continue;
            }
        };
        let (d_ship, d_comp) = match (dfa_of(ship), dfa_of(&compiled)) {
            (Ok(a), Ok(b)) => (a, b),
            (a, b) => {
                rep.violation(&format!("C19/spec/{pname}/malformed"), &format!("malformed automaton: {:?} {:?}", a.err(), b.err()), json!({"sub":"spec","parser":pname}));
                continue;
            }
        };
        // exhaustive equivalence incl. outputs
        let (diff, pairs) = dfa_equiv(&d_ship, &d_comp);
        rep.count_n("spec.product_states", pairs as u64);
        rep.set(&format!("spec.{pname}"), json!({"shipped_states":d_ship.n,"compiled_states":d_comp.n,"transitions":d_ship.n_transitions,"product_states":pairs,"shipped_bytes":bytes.len()}));
        match diff {
            Some(Diff::Lang { word, left_accepts }) => rep.violation(
                &format!("C19/spec/{pname}/lang-mismatch"),
                &format!("shipped automaton {} a word that compile(spec) {}", if left_accepts { "accepts" } else { "rejects" }, if left_accepts { "rejects" } else { "accepts" }),
                json!({"sub":"spec","parser":pname,"word":hx(&word)}),
            ),
            Some(Diff::Marker { word, pos, left, right }) => rep.violation(
                &format!("C19/spec/{pname}/marker-mismatch"),
                &format!("marker at {pos}: shipped {left}, compiled {right}"),
                json!({"sub":"spec","parser":pname,"word":hx(&word)}),
            ),
            None => {
                rep.nontrivial(&("spec", pname.clone()));
                rep.count("spec.equivalent");
            }
        }
        // sampled accepted words: walk the shipped automaton, compare runs incl. markers
        let mut rng = ctx.rng(&format!("c19/spec/{pname}"));
        let n_walk = ctx.tier.pick(300, 3000);
        let mut accepted = 0u64;
        for _ in 0..n_walk {
            let w = walk_accepted(&d_ship, &mut rng, 4000);
            let (a, b) = (d_ship.run(&w), d_comp.run(&w));
            rep.eval();
            if a != b {
                rep.violation(&format!("C19/spec/{pname}/run-mismatch"), "shipped and compiled automata disagree on a sampled word", json!({"sub":"spec","parser":pname,"word":hx(&w)}));
                break;
            }
            if matches!(a, Some((true, _))) {
                accepted += 1;
                if a.as_ref().unwrap().1.iter().any(|m| *m != 0) {
                    rep.count("spec.sampled_accepted_with_markers");
                }
            }
        }
        rep.count_n("spec.sampled_accepted", accepted);
        // library deserialiser vs independent decoder on the shipped bytes
        match decode_automaton(bytes) {
            Ok((n, init, fin, tr)) => {
                let same = n == ship.nb_states
                    && init == ship.initial_state
                    && fin == ship.final_states.iter().copied().collect::<BTreeSet<_>>()
                    && tr == ship.transitions.iter().map(|(k, v)| (*k, *v)).collect::<BTreeMap<_, _>>();
                if !same {
                    rep.violation(&format!("C19/spec/{pname}/deserialize-mismatch"), "spec_library() automaton differs from an independent decoding of the shipped bytes", json!({"sub":"spec","parser":pname}));
                } else {
                    rep.count("spec.deserializer_agrees_with_independent_decoder");
                }
            }
            Err(e) => rep.violation(&format!("C19/spec/{pname}/shipped-bytes-malformed"), &e, json!({"sub":"spec","parser":pname})),
        }
        // byte equality (asserted by the repository's own specs_test) — separately signed
        let enc = encode_automaton(&compiled);
        if enc != bytes {
            rep.violation(
                &format!("C19/spec/{pname}/bytes-differ"),
                "serialize(compile(spec)) differs from the shipped bytes (language-equivalence is reported separately)",
                json!({"sub":"spec","parser":pname,"shipped_len":bytes.len(),"recomputed_len":enc.len()}),
            );
        } else {
            rep.count("spec.bytes_equal");
        }
        // round trip of the recompiled automaton through the library's deserialiser
        match catch_any(|| midnight_circuits::parsing::verif_automaton_deserialize(&enc)) {
            Ok(Ok(back)) if structurally_equal(&back, &compiled) => rep.count("spec.roundtrip_ok"),
            Ok(Ok(_)) => rep.violation(&format!("C19/serialize/spec-{pname}/roundtrip"), "deserialize(encode(A)) != A", json!({"sub":"spec","parser":pname})),
            Ok(Err(e)) => rep.violation(&format!("C19/serialize/spec-{pname}/roundtrip"), &e, json!({"sub":"spec","parser":pname})),
            Err(p) => rep.violation(&format!("C19/serialize/spec-{pname}/panic@{}", repo_file(&p.file)), &p.message, json!({"sub":"spec","parser":pname})),
        }
    }
}

/// random walk to a final state (restarting the tail with the shortest completion)
pub fn walk_accepted(d: &LibDfa, rng: &mut impl Rng, max_len: usize) -> Vec<u8> {
    let mut w = vec![];
    let mut s = d.init;
    let target = rng.gen_range(0..max_len.max(1));
    while w.len() < target {
        let mut opts = vec![];
        for _ in 0..24 {
            let b: u8 = rng.gen();
            if let Some((t, _)) = d.step(s, b) {
                if d.live[t] {
                    opts.push(b);
                }
            }
        }
        if opts.is_empty() {
            // scan all bytes
            opts = (0..=255u8).filter(|b| d.step(s, *b).map(|(t, _)| d.live[t]).unwrap_or(false)).collect();
        }
        if opts.is_empty() || (d.fin[s] && rng.gen_bool(0.02)) {
            break;
        }
        let b = *opts.choose(rng).unwrap();
        w.push(b);
        s = d.step(s, b).unwrap().0;
    }
    if !d.fin[s] {
        if let Some(suf) = d.suffix_to_final(s) {
            w.extend(suf);
        }
    }
    w
}

// ---------------------------------------------------------------------------------------------
// replay
// ---------------------------------------------------------------------------------------------

fn replay(ctx: &Ctx, rep: &mut Report, path: &std::path::Path) {
    let Some(j) = load_replay(path) else {
        rep.inconclusive("cannot read replay file");
        return;
    };
    let w = &j["witness"];
    let seed = j["seed"].as_u64().unwrap_or(ctx.seed);
    rep.min_nontrivial = 0;
    match w["sub"].as_str().unwrap_or("") {
        "expr" => {
            let recipe: Recipe = match serde_json::from_value(w["recipe"].clone()) {
                Ok(r) => r,
                Err(e) => {
                    rep.inconclusive(&format!("bad recipe: {e}"));
                    return;
                }
            };
            let bud = expr_budget(ctx);
            rep.eval();
            rep.nontrivial(&"replay-a");
            rep.nontrivial(&"replay-b");
            match check_expr(&recipe, &bud, seed).0 {
                Outcome::Found(f) => report_finding(rep, &recipe, &f, &bud, seed),
                o => println!("replay: no finding ({o:?})"),
            }
        }
        "spec" => {
            rep.nontrivial(&"replay-a");
            part_b(ctx, rep)
        }
        "serialize-probe" => {
            rep.nontrivial(&"replay-a");
            rep.nontrivial(&"replay-b");
            length_field_probe(rep)
        }
        "chip" => chipc::replay(ctx, rep, w),
        "base64" => b64c::replay(ctx, rep, w),
        other => rep.inconclusive(&format!("unknown replay sub-check {other:?}")),
    }
}

#[allow(dead_code)]
fn _unused(_: Json) {}
#[allow(dead_code)]
const _A: &str = REPO_AUTOMATON;

// ---------------------------------------------------------------------------------------------
// (C) AutomatonChip circuits
// ---------------------------------------------------------------------------------------------
/// Satisfiability oracle: the single place that decides "is this circuit + instance satisfied".
/// Currently the repository's MockProver (which ignores `cs.trashcans()`; the flag is reported so
/// that callers can refuse the verdict when trash arguments exist).
mod sat {
    use super::*;
    use midnight_proofs::{dev::MockProver, plonk::Circuit};

    #[derive(Clone, Debug)]
    pub enum Sat {
        Satisfied,
        /// constraint failures reported by the checker
        Unsat(String),
        /// synthesis returned an error (honest prover cannot build a witness)
        SynthErr(String),
        Panic(PanicInfo),
    }
    impl Sat {
        pub fn accepted(&self) -> bool {
            matches!(self, Sat::Satisfied)
        }
        pub fn tag(&self) -> &'static str {
            match self {
                Sat::Satisfied => "satisfied",
                Sat::Unsat(_) => "unsat",
                Sat::SynthErr(_) => "synthesis-error",
                Sat::Panic(_) => "panic",
            }
        }
    }
    pub struct SatInfo {
        pub sat: Sat,
        pub trashcans_empty: bool,
        pub k: u32,
    }

    pub fn is_satisfied<C: Circuit<Fq>>(k0: u32, circuit: &C) -> SatInfo {
        let mut k = k0;
        loop {
            let r = catch_any(|| match MockProver::<Fq>::run(k, circuit, vec![vec![], vec![]]) {
                Err(e) => (Sat::SynthErr(format!("{e:?}")), true),
                Ok(p) => {
                    let te = p.cs().trashcans().is_empty();
                    match p.verify() {
                        Ok(()) => (Sat::Satisfied, te),
                        Err(f) => (
                            Sat::Unsat(format!("{} failures, first: {:?}", f.len(), f.first())
                                .chars()
                                .take(300)
                                .collect()),
                            te,
                        ),
                    }
                }
            });
            match r {
                Err(p) => {
                    // "not enough rows" is raised as a panic by some layouter paths
                    if (p.message.contains("ot enough rows") || p.message.contains("NotEnoughRows")) && k < 16 {
                        k += 1;
                        continue;
                    }
                    return SatInfo { sat: Sat::Panic(p), trashcans_empty: true, k };
                }
                Ok((Sat::SynthErr(e), _)) if e.contains("NotEnoughRows") && k < 16 => {
                    k += 1;
                    continue;
                }
                Ok((sat, te)) => return SatInfo { sat, trashcans_empty: te, k },
            }
        }
    }
}

/// native gadget plumbing shared by the chip circuits (public ComposableChip API only)
mod base {
    use super::*;
    pub use midnight_circuits::{
        field::{
            decomposition::{
                chip::{P2RDecompositionChip, P2RDecompositionConfig},
                pow2range::Pow2RangeChip,
            },
            native::{NB_ARITH_COLS, NB_ARITH_FIXED_COLS},
            NativeChip, NativeGadget,
        },
        testing_utils::FromScratch,
        ComposableChip,
    };
    pub use midnight_proofs::{
        circuit::{Layouter, SimpleFloorPlanner, Value},
        plonk::{Advice, Circuit, Column, ConstraintSystem, Error},
    };
    pub type NG = NativeGadget<Fq, P2RDecompositionChip<Fq>, NativeChip<Fq>>;

    #[derive(Clone, Debug)]
    pub struct BaseConfig {
        pub p2r: P2RDecompositionConfig,
        pub advice: [Column<Advice>; NB_ARITH_COLS],
    }

    pub fn configure_base(meta: &mut ConstraintSystem<Fq>) -> BaseConfig {
        let committed = meta.instance_column();
        let inst = meta.instance_column();
        let advice: [Column<Advice>; NB_ARITH_COLS] = core::array::from_fn(|_| meta.advice_column());
        let fixed: [_; NB_ARITH_FIXED_COLS] = core::array::from_fn(|_| meta.fixed_column());
        let native_config = NativeChip::<Fq>::configure(meta, &(advice, fixed, [committed, inst]));
        let pow2 = Pow2RangeChip::<Fq>::configure(meta, &advice[1..=4]);
        BaseConfig { p2r: P2RDecompositionConfig::new(&native_config, &pow2), advice }
    }

    pub fn native_gadget(cfg: &BaseConfig) -> NG {
        <NG as FromScratch<Fq>>::new_from_scratch(&cfg.p2r)
    }
}

mod chipc {
    use std::sync::{Arc, Mutex};

    use super::base::*;
    use super::sat::*;
    use super::*;
    use ff::PrimeField;
    use midnight_circuits::{
        instructions::{AssertionInstructions, AssignmentInstructions},
        parsing::automaton_chip::{AutomatonChip, AutomatonConfig, NB_AUTOMATA_COLS},
        types::{AssignedByte, AssignedNative},
    };

    #[derive(Clone)]
    pub struct ParseCircuit {
        pub automata: AutoMap,
        pub index: usize,
        pub input: Vec<u8>,
        /// markers the circuit additionally asserts (None: outputs unconstrained)
        pub claim: Option<Vec<u64>>,
        /// marker values returned by `parse` (honest-prover values)
        pub out: Arc<Mutex<Option<Vec<Fq>>>>,
    }

    impl Circuit<Fq> for ParseCircuit {
        type Config = (BaseConfig, AutomatonConfig<usize, Fq>);
        type FloorPlanner = SimpleFloorPlanner;
        type Params = AutoMap;

        fn without_witnesses(&self) -> Self {
            self.clone()
        }
        fn params(&self) -> Self::Params {
            self.automata.clone()
        }
        fn configure_with_params(meta: &mut ConstraintSystem<Fq>, params: AutoMap) -> Self::Config {
            let base = configure_base(meta);
            let cols: [Column<Advice>; NB_AUTOMATA_COLS] =
                base.advice[..NB_AUTOMATA_COLS].try_into().unwrap();
            let ac = AutomatonChip::<usize, Fq>::configure(meta, &(cols, params));
            (base, ac)
        }
        fn configure(_meta: &mut ConstraintSystem<Fq>) -> Self::Config {
            unreachable!("configured through configure_with_params")
        }
        fn synthesize(&self, config: Self::Config, mut layouter: impl Layouter<Fq>) -> Result<(), Error> {
            let ng = native_gadget(&config.0);
            let chip = <AutomatonChip<usize, Fq> as ComposableChip<Fq>>::new(&config.1, &ng);
            let vals: Vec<Value<u8>> = self.input.iter().map(|b| Value::known(*b)).collect();
            let input: Vec<AssignedByte<Fq>> = ng.assign_many(&mut layouter, &vals)?;
            let outs: Vec<AssignedNative<Fq>> = chip.parse(&mut layouter, &self.index, &input)?;
            let mut got: Vec<Fq> = vec![];
            for o in &outs {
                o.value().map(|v| got.push(*v));
            }
            if got.len() == outs.len() {
                *self.out.lock().unwrap() = Some(got);
            }
            if let Some(claim) = &self.claim {
                if claim.len() != outs.len() {
                    return Err(Error::Synthesis("claimed marker vector has a different length".into()));
                }
                for (o, c) in outs.iter().zip(claim) {
                    ng.assert_equal_to_fixed(&mut layouter, o, Fq::from(*c))?;
                }
            }
            ng.load_from_scratch(&mut layouter)?;
            chip.load(&mut layouter)
        }
    }

    fn fq_to_u64(x: &Fq) -> Option<u64> {
        let r = x.to_repr();
        let b = r.as_ref();
        if b[8..].iter().any(|z| *z != 0) {
            return None;
        }
        Some(u64::from_le_bytes(b[..8].try_into().unwrap()))
    }

    pub struct Group {
        pub recipes: Vec<Recipe>,
        pub automata: AutoMap,
        pub dfas: Vec<LibDfa>,
        pub refs: Vec<RefRe>,
        pub k: u32,
    }

    pub fn make_group(items: &[(Recipe, Automaton, RefRe)]) -> Group {
        let mut automata = AutoMap::default();
        let mut rows = 1usize;
        for (i, (_, a, _)) in items.iter().enumerate() {
            rows += a.transitions.len() + a.final_states.len();
            automata.insert(i, a.clone());
        }
        let mut k = 9u32;
        while (1usize << k) < rows + 300 {
            k += 1;
        }
        Group {
            recipes: items.iter().map(|x| x.0.clone()).collect(),
            automata,
            dfas: items.iter().map(|x| dfa_of(&x.1).unwrap()).collect(),
            refs: items.iter().map(|x| x.2.clone()).collect(),
            k,
        }
    }

    #[derive(Clone, Debug)]
    pub struct Case {
        pub index: usize,
        pub input: Vec<u8>,
        pub claim: Option<Vec<u64>>,
        pub class: &'static str,
    }

    /// runs one circuit and compares with the reference; returns (violation?, non-trivial?)
    pub fn run_case(g: &Group, c: &Case, rep: &mut Report) {
        rep.eval();
        let re = &g.refs[c.index];
        let set = match match_markers(re, &c.input, 256) {
            Ok(s) if s.len() <= 1 => s,
            _ => {
                rep.inconclusive("chip: reference marking not unique");
                return;
            }
        };
        let ref_markers: Option<Vec<u64>> = set.into_iter().next().map(|v| v.into_iter().map(|m| m as u64).collect());
        // the compiled automaton must agree with the reference here (part A decided that)
        let lib_run = g.dfas[c.index].run(&c.input);
        let lib_markers: Option<Vec<u64>> = match lib_run {
            Some((true, m)) => Some(m.into_iter().map(|x| x as u64).collect()),
            _ => None,
        };
        if lib_markers != ref_markers {
            rep.inconclusive("chip: compiled automaton and reference disagree (reported by the expression check)");
            return;
        }
        let expect_sat = match (&ref_markers, &c.claim) {
            (None, _) => false,
            (Some(_), None) => true,
            (Some(m), Some(cl)) => m == cl,
        };
        let out = Arc::new(Mutex::new(None));
        let circuit = ParseCircuit {
            automata: g.automata.clone(),
            index: c.index,
            input: c.input.clone(),
            claim: c.claim.clone(),
            out: out.clone(),
        };
        let info = is_satisfied(g.k, &circuit);
        if !info.trashcans_empty {
            rep.inconclusive("chip: constraint system has trash arguments, MockProver verdict not usable");
            return;
        }
        rep.count("chip.trashcans_empty_checked");
        rep.count(&format!("chip.class[{}].{}", c.class, info.sat.tag()));
        let witness = || {
            json!({
                "sub":"chip",
                "recipes": serde_json::to_value(&g.recipes).unwrap(),
                "index": c.index,
                "input": hx(&c.input),
                "claim": c.claim,
                "class": c.class,
                "reference_markers": ref_markers,
                "k": info.k,
                "verdict": format!("{:?}", info.sat).chars().take(400).collect::<String>(),
            })
        };
        if let Sat::Panic(p) = &info.sat {
            if ref_markers.is_some() || !in_repo(&p.file) {
                if !in_repo(&p.file) && !p.file.contains("midnight") {
                    rep.inconclusive(&format!("chip: panic outside the repository: {} @ {}", p.message, p.location));
                } else {
                    rep.violation(&format!("C19/chip/panic@{}", repo_file(&p.file)), &format!("panic while parsing in-circuit: {}", p.message), witness());
                }
                return;
            }
            rep.count("chip.rejected_by_panic");
        }
        let got = info.sat.accepted();
        if got && !expect_sat {
            let sig = if ref_markers.is_some() { "C19/chip/marker-mismatch" } else { "C19/chip/accepts-rejected" };
            rep.violation(sig, &format!("circuit satisfiable although the reference {}", if ref_markers.is_some() { "marks the word differently from the claimed markers" } else { "rejects the word" }), witness());
            return;
        }
        if !got && expect_sat {
            rep.violation("C19/chip/rejects-accepted", &format!("circuit not satisfiable ({}) on an accepted word with the reference markers", info.sat.tag()), witness());
            return;
        }
        if got && c.claim.is_none() {
            let vals = out.lock().unwrap().clone();
            let exposed: Option<Vec<u64>> = vals.and_then(|v| v.iter().map(fq_to_u64).collect());
            if exposed != ref_markers {
                rep.violation("C19/chip/marker-mismatch", &format!("exposed markers {exposed:?} differ from the reference {ref_markers:?}"), witness());
                return;
            }
            rep.count("chip.exposed_markers_equal");
        }
        rep.nontrivial(&("chip", serde_json::to_string(&g.recipes[c.index]).unwrap(), c.input.clone(), c.claim.clone()));
    }

    fn accepted_word(d: &LibDfa, rng: &mut impl Rng, target: usize) -> Option<Vec<u8>> {
        for _ in 0..6 {
            let mut w = vec![];
            let mut s = d.init;
            while w.len() < target {
                let mut opts = vec![];
                for _ in 0..16 {
                    let b: u8 = rng.gen();
                    if d.step(s, b).map(|(t, _)| d.live[t]).unwrap_or(false) {
                        opts.push(b);
                    }
                }
                if opts.is_empty() {
                    opts = (0..=255u8).filter(|b| d.step(s, *b).map(|(t, _)| d.live[t]).unwrap_or(false)).collect();
                }
                if opts.is_empty() {
                    break;
                }
                let b = *opts.choose(rng).unwrap();
                w.push(b);
                s = d.step(s, b).unwrap().0;
            }
            if !d.fin[s] {
                w.extend(d.suffix_to_final(s)?);
            }
            if w.len() <= 40 {
                return Some(w);
            }
        }
        None
    }

    pub fn cases_for(g: &Group, index: usize, rng: &mut impl Rng) -> Vec<Case> {
        let d = &g.dfas[index];
        let mut cases = vec![];
        let (classes, _, _) = byte_classes(&g.refs[index]);
        let mut seen_words: BTreeSet<Vec<u8>> = BTreeSet::new();
        for target in [0usize, 1, 2, 3, 5, 8, 13, 21, 34, 40] {
            let Some(w) = accepted_word(d, rng, target) else { continue };
            if !seen_words.insert(w.clone()) {
                continue;
            }
            let ms: Vec<u64> = d.run(&w).unwrap().1.into_iter().map(|m| m as u64).collect();
            cases.push(Case { index, input: w.clone(), claim: None, class: "accepted" });
            cases.push(Case { index, input: w.clone(), claim: Some(ms.clone()), class: "accepted+claim" });
            if !w.is_empty() {
                let mut e = ms.clone();
                let i = rng.gen_range(0..e.len());
                e[i] = if e[i] == 0 { rng.gen_range(1..=3) } else if rng.gen_bool(0.5) { 0 } else { e[i] + 1 };
                cases.push(Case { index, input: w.clone(), claim: Some(e), class: "marker-edit" });
                // wrong last byte
                let mut x = w.clone();
                let c = &classes[rng.gen_range(0..classes.len())];
                *x.last_mut().unwrap() = c[rng.gen_range(0..c.len())];
                if x != w {
                    cases.push(Case { index, input: x, claim: None, class: "wrong-last-byte" });
                }
                // truncated
                cases.push(Case { index, input: w[..w.len() - 1].to_vec(), claim: None, class: "truncated" });
                // one byte off-class
                let mut y = w.clone();
                let pos = rng.gen_range(0..y.len());
                let c = &classes[rng.gen_range(0..classes.len())];
                y[pos] = c[rng.gen_range(0..c.len())];
                if y != w {
                    cases.push(Case { index, input: y, claim: None, class: "off-class" });
                }
            }
            if w.len() < 40 {
                let mut z = w.clone();
                let c = &classes[rng.gen_range(0..classes.len())];
                z.push(c[rng.gen_range(0..c.len())]);
                cases.push(Case { index, input: z, claim: None, class: "extended" });
            }
        }
        // a word of the wrong automaton of the group
        cases
    }

    pub fn part_c(ctx: &Ctx, rep: &mut Report, pool: &[(Recipe, Automaton, RefRe)]) {
        let n_groups = ctx.tier.pick(6usize, 60);
        let mut rng = ctx.rng("c19/chip");
        // interesting automata: some transitions, table fits 2^13 rows; markers preferred
        let mut cand: Vec<&(Recipe, Automaton, RefRe)> = pool
            .iter()
            .filter(|(_, a, _)| a.transitions.len() >= 2 && a.transitions.len() <= 2500 && !a.final_states.is_empty())
            .collect();
        cand.shuffle(&mut rng);
        cand.sort_by_key(|(_, _, re)| !re.has_markers()); // stable: marked ones first
        if cand.len() < 3 {
            rep.inconclusive("chip: fewer than 3 usable automata");
            return;
        }
        let mut groups = vec![];
        for gi in 0..n_groups {
            let items: Vec<(Recipe, Automaton, RefRe)> = (0..3).map(|j| cand[(gi * 3 + j) % cand.len()].clone()).collect();
            let g = make_group(&items);
            let mut cases = vec![];
            for i in 0..3 {
                cases.extend(cases_for(&g, i, &mut rng));
            }
            // cross-automaton: accepted word of automaton 0 parsed with automaton 1
            if let Some(c0) = cases.iter().find(|c| c.index == 0 && c.class == "accepted" && c.input.len() >= 2).cloned() {
                cases.push(Case { index: 1, input: c0.input, claim: None, class: "other-automaton-word" });
            }
            groups.push((g, cases));
            if (gi + 1) * 3 >= cand.len() * 2 {
                break;
            }
        }
        let jobs: Vec<(usize, usize)> = groups.iter().enumerate().flat_map(|(gi, (_, cs))| (0..cs.len()).map(move |ci| (gi, ci))).collect();
        let parts: Vec<Report> = jobs
            .par_iter()
            .map(|(gi, ci)| {
                let mut part = rep.fork();
                let (g, cs) = &groups[*gi];
                if let Err(p) = catch_any(|| run_case(g, &cs[*ci], &mut part)) {
                    part.inconclusive(&format!("chip: harness panic {} @ {}", p.message, p.location));
                }
                part
            })
            .collect();
        for p in parts {
            rep.merge(p);
        }
        rep.set("chip.groups", json!(groups.len()));
        rep.set("chip.table_k", json!(groups.iter().map(|g| g.0.k).collect::<Vec<_>>()));
        for need in ["accepted", "marker-edit", "truncated", "extended", "wrong-last-byte", "off-class"] {
            let n: u64 = rep.counters.iter().filter(|(k, _)| k.starts_with(&format!("chip.class[{need}]"))).map(|(_, v)| *v).sum();
            if n == 0 {
                rep.inconclusive(&format!("chip: class {need} has no case"));
            }
        }
    }

    pub fn replay(_ctx: &Ctx, rep: &mut Report, w: &Json) {
        let recipes: Vec<Recipe> = match serde_json::from_value(w["recipes"].clone()) {
            Ok(r) => r,
            Err(e) => {
                rep.inconclusive(&format!("bad recipes: {e}"));
                return;
            }
        };
        let mut items = vec![];
        for r in recipes {
            match catch_any(|| to_lib(&r).to_automaton()) {
                Ok(a) => items.push((r.clone(), a, r.to_ref())),
                Err(p) => {
                    rep.inconclusive(&format!("replay: compile panic {}", p.message));
                    return;
                }
            }
        }
        let g = make_group(&items);
        let case = Case {
            index: w["index"].as_u64().unwrap_or(0) as usize,
            input: hex::decode(w["input"].as_str().unwrap_or("")).unwrap_or_default(),
            claim: w["claim"].as_array().map(|a| a.iter().map(|x| x.as_u64().unwrap_or(0)).collect()),
            class: "replay",
        };
        rep.nontrivial(&"replay-a");
        rep.nontrivial(&"replay-b");
        run_case(&g, &case, rep);
    }
}

// ---------------------------------------------------------------------------------------------
// (D) Base64Chip circuits
// ---------------------------------------------------------------------------------------------
mod b64c {
    use std::sync::{Arc, Mutex};

    use super::base::*;
    use super::sat::*;
    use super::*;
    use midnight_circuits::{
        instructions::{
            base64::Base64VarInstructions, AssertionInstructions, AssignmentInstructions,
            Base64Instructions,
        },
        parsing::{Base64Chip, Base64Config, NB_BASE64_ADVICE_COLS},
        types::{AssignedByte, AssignedVector, InnerValue},
        vec::vector_gadget::VectorGadget,
    };

    pub const VAR_M: usize = 64;
    pub const VAR_A: usize = 4;
    pub const VAR_M_OUT: usize = 48;
    pub const VAR_A_OUT: usize = 3;

    #[derive(Clone, Copy, Debug, PartialEq, Eq, Hash)]
    pub struct Variant {
        pub url: bool,
        /// fixed length with `padded = true`, fixed length with `padded = false`, variable length
        pub mode: Mode,
    }
    #[derive(Clone, Copy, Debug, PartialEq, Eq, Hash)]
    pub enum Mode {
        FixedPadded,
        FixedUnpadded,
        Var,
    }
    impl Variant {
        pub fn name(&self) -> String {
            format!(
                "{}-{}",
                if self.url { "url" } else { "std" },
                match self.mode {
                    Mode::FixedPadded => "fixed-padded",
                    Mode::FixedUnpadded => "fixed-unpadded",
                    Mode::Var => "var",
                }
            )
        }
        pub fn from_name(n: &str) -> Option<Variant> {
            all_variants().into_iter().find(|v| v.name() == n)
        }
        pub fn padded(&self) -> bool {
            self.mode != Mode::FixedUnpadded
        }
    }
    pub fn all_variants() -> Vec<Variant> {
        let mut v = vec![];
        for url in [false, true] {
            for mode in [Mode::FixedPadded, Mode::FixedUnpadded, Mode::Var] {
                v.push(Variant { url, mode });
            }
        }
        v
    }

    // ---------------- reference: strict RFC 4648 ----------------

    pub fn alphabet(url: bool) -> Vec<u8> {
        let mut a: Vec<u8> = (b'A'..=b'Z').chain(b'a'..=b'z').chain(b'0'..=b'9').collect();
        a.extend(if url { [b'-', b'_'] } else { [b'+', b'/'] });
        a
    }
    fn val(c: u8, url: bool) -> Option<u32> {
        alphabet(url).iter().position(|x| *x == c).map(|p| p as u32)
    }

    /// canonical decoding: alphabet of the variant only, padding exactly as RFC 4648 §4 requires
    /// (`padded`) or absent (`!padded`), unused trailing bits zero
    pub fn strict_decode(input: &[u8], url: bool, padded: bool) -> Option<Vec<u8>> {
        let mut body = input;
        if padded {
            if input.len() % 4 != 0 {
                return None;
            }
            let npad = input.iter().rev().take_while(|c| **c == b'=').count();
            if npad > 2 {
                return None;
            }
            body = &input[..input.len() - npad];
        }
        if body.len() % 4 == 1 {
            return None;
        }
        let mut out = vec![];
        let mut acc = 0u32;
        let mut bits = 0;
        for c in body {
            acc = (acc << 6) | val(*c, url)?;
            bits += 6;
            if bits >= 8 {
                bits -= 8;
                out.push((acc >> bits) as u8);
                acc &= (1 << bits) - 1;
            }
        }
        if acc != 0 {
            return None;
        }
        Some(out)
    }

    pub fn expected_output(decoded: &[u8], input_len: usize) -> Vec<u8> {
        let mut v = decoded.to_vec();
        v.resize(input_len.div_ceil(4) * 3, 0);
        v
    }

    fn crate_cfg(url: bool, padded: bool) -> base64::Config {
        match (url, padded) {
            (false, true) => base64::STANDARD,
            (false, false) => base64::STANDARD_NO_PAD,
            (true, true) => base64::URL_SAFE,
            (true, false) => base64::URL_SAFE_NO_PAD,
        }
    }

    pub fn encode(data: &[u8], url: bool, padded: bool) -> Vec<u8> {
        base64::encode_config(data, crate_cfg(url, padded)).into_bytes()
    }

    /// the `base64` crate (0.13) as a second opinion. Its decoder does not insist on the presence
    /// or absence of padding, so padding presence is decided here.
    pub fn crate_decode(input: &[u8], url: bool, padded: bool) -> Option<Vec<u8>> {
        if padded && input.len() % 4 != 0 {
            return None;
        }
        if !padded && input.contains(&b'=') {
            return None;
        }
        base64::decode_config(input, crate_cfg(url, padded)).ok()
    }

    pub fn self_test() -> Result<(), String> {
        // RFC 4648 §10 vectors
        for (d, e) in [("", ""), ("f", "Zg=="), ("fo", "Zm8="), ("foo", "Zm9v"), ("foob", "Zm9vYg=="), ("fooba", "Zm9vYmE="), ("foobar", "Zm9vYmFy")] {
            if strict_decode(e.as_bytes(), false, true).as_deref() != Some(d.as_bytes()) {
                return Err(format!("RFC vector {e}"));
            }
            let np = e.trim_end_matches('=');
            if strict_decode(np.as_bytes(), false, false).as_deref() != Some(d.as_bytes()) {
                return Err(format!("RFC vector (unpadded) {np}"));
            }
        }
        let mut rng = rng_for(7, "c19/b64-selftest");
        for _ in 0..3000 {
            let n = rng.gen_range(0..10);
            let data: Vec<u8> = (0..n).map(|_| rng.gen()).collect();
            for url in [false, true] {
                for padded in [false, true] {
                    let mut e = encode(&data, url, padded);
                    if strict_decode(&e, url, padded) != Some(data.clone()) || crate_decode(&e, url, padded) != Some(data.clone()) {
                        return Err(format!("round trip {:?} url={url} padded={padded}", data));
                    }
                    if !e.is_empty() {
                        let i = rng.gen_range(0..e.len());
                        e[i] = match rng.gen_range(0..4) {
                            0 => b'=',
                            1 => rng.gen(),
                            _ => alphabet(url)[rng.gen_range(0..64)],
                        };
                        let (a, b) = (strict_decode(&e, url, padded), crate_decode(&e, url, padded));
                        if a != b {
                            return Err(format!("strict decoder and base64 crate disagree on {:?} url={url} padded={padded}: {a:?} vs {b:?}", String::from_utf8_lossy(&e)));
                        }
                    }
                }
            }
        }
        Ok(())
    }

    /// why `input` is malformed for the variant (first applicable class)
    pub fn malform_class(input: &[u8], v: Variant) -> &'static str {
        let padded = v.padded();
        let alpha = alphabet(v.url);
        let other: [u8; 2] = if v.url { [b'+', b'/'] } else { [b'-', b'_'] };
        if input.iter().any(|c| !alpha.contains(c) && *c != b'=' && !(v.url && other.contains(c))) {
            return "illegal-char";
        }
        let npad = input.iter().rev().take_while(|c| **c == b'=').count();
        let body = &input[..input.len() - npad];
        if body.contains(&b'=') || npad > 2 || (!padded && npad > 0) {
            return "pad-misplaced";
        }
        if padded && input.len() % 4 != 0 {
            return "bad-length";
        }
        if padded && npad > 0 && (body.len() % 4) + npad != 4 {
            return "pad-misplaced";
        }
        if body.len() % 4 == 1 {
            return "bad-length";
        }
        if body.iter().any(|c| !alpha.contains(c)) {
            return "url-std-alphabet";
        }
        "nonzero-trailing-bits"
    }

    /// classes the library documents as not enforced (base64_chip.rs module docs: "the decoding
    /// instructions do not enforce the validity of the base64 input (i.e. the padding format)")
    pub fn documented_lax(class: &str) -> bool {
        matches!(class, "nonzero-trailing-bits" | "bad-length" | "url-std-alphabet")
    }

    // ---------------- circuit ----------------

    #[derive(Clone)]
    pub struct B64Circuit {
        pub variant: Variant,
        pub input: Vec<u8>,
        pub claim: Option<Vec<u8>>,
        pub out: Arc<Mutex<Option<Vec<u8>>>>,
    }

    impl Circuit<Fq> for B64Circuit {
        type Config = (BaseConfig, Base64Config);
        type FloorPlanner = SimpleFloorPlanner;
        type Params = ();

        fn without_witnesses(&self) -> Self {
            self.clone()
        }
        fn configure(meta: &mut ConstraintSystem<Fq>) -> Self::Config {
            let base = configure_base(meta);
            let cols: [Column<Advice>; NB_BASE64_ADVICE_COLS] =
                base.advice[..NB_BASE64_ADVICE_COLS].try_into().unwrap();
            let bc = Base64Chip::<Fq>::configure(meta, &cols);
            (base, bc)
        }
        fn synthesize(&self, config: Self::Config, mut layouter: impl Layouter<Fq>) -> Result<(), Error> {
            let ng = native_gadget(&config.0);
            let vg = VectorGadget::new(&ng);
            let chip = Base64Chip::<Fq>::new(&config.1, &ng);
            match self.variant.mode {
                Mode::Var => {
                    let inp = <Base64Chip<Fq> as Base64VarInstructions<Fq, VAR_M, VAR_A>>::assign_var_base64(
                        &chip,
                        &mut layouter,
                        Value::known(self.input.clone()),
                    )?;
                    let ret: AssignedVector<Fq, AssignedByte<Fq>, VAR_M_OUT, VAR_A_OUT> = if self.variant.url {
                        chip.var_decode_base64url(&mut layouter, &inp)?
                    } else {
                        chip.var_decode_base64(&mut layouter, &inp)?
                    };
                    ret.value().map(|v| *self.out.lock().unwrap() = Some(v));
                    if let Some(c) = &self.claim {
                        vg.assert_equal_to_fixed(&mut layouter, &ret, c.clone())?;
                    }
                }
                m => {
                    let vals: Vec<Value<u8>> = self.input.iter().map(|b| Value::known(*b)).collect();
                    let inp: Vec<AssignedByte<Fq>> = ng.assign_many(&mut layouter, &vals)?;
                    let padded = m == Mode::FixedPadded;
                    let ret = if self.variant.url {
                        chip.decode_base64url(&mut layouter, &inp, padded)?
                    } else {
                        chip.decode_base64(&mut layouter, &inp, padded)?
                    };
                    let mut got = vec![];
                    for r in &ret {
                        r.value().map(|v| got.push(v));
                    }
                    if got.len() == ret.len() {
                        *self.out.lock().unwrap() = Some(got);
                    }
                    if let Some(c) = &self.claim {
                        if c.len() != ret.len() {
                            return Err(Error::Synthesis("claimed output has a different length".into()));
                        }
                        for (r, x) in ret.iter().zip(c) {
                            ng.assert_equal_to_fixed(&mut layouter, r, *x)?;
                        }
                    }
                }
            }
            ng.load_from_scratch(&mut layouter)?;
            chip.load(&mut layouter)
        }
    }

    #[derive(Clone, Debug)]
    pub struct Case {
        pub variant: Variant,
        pub input: Vec<u8>,
        pub claim: Option<Vec<u8>>,
        pub class: &'static str,
    }

    fn callable(v: Variant, len: usize) -> bool {
        match v.mode {
            Mode::FixedPadded => len % 4 == 0, // documented panic otherwise
            Mode::FixedUnpadded => true,
            Mode::Var => len % 4 == 0 && len <= VAR_M, // documented panic otherwise
        }
    }

    pub fn run_case(c: &Case, strict: bool, rep: &mut Report) {
        let v = c.variant;
        let vn = v.name();
        if !callable(v, c.input.len()) {
            rep.count(&format!("base64.{vn}.not_callable_documented_panic"));
            return;
        }
        rep.eval();
        let decoded = strict_decode(&c.input, v.url, v.padded());
        if decoded != crate_decode(&c.input, v.url, v.padded()) {
            rep.inconclusive("base64: strict decoder and base64 crate disagree");
            return;
        }
        let expected = decoded.as_ref().map(|d| expected_output(d, c.input.len()));
        let expect_sat = match (&expected, &c.claim) {
            (None, _) => false,
            (Some(_), None) => true,
            (Some(e), Some(cl)) => e == cl,
        };
        let out = Arc::new(Mutex::new(None));
        let circuit = B64Circuit { variant: v, input: c.input.clone(), claim: c.claim.clone(), out: out.clone() };
        let info = is_satisfied(13, &circuit);
        if !info.trashcans_empty {
            rep.inconclusive("base64: constraint system has trash arguments, MockProver verdict not usable");
            return;
        }
        rep.count("base64.trashcans_empty_checked");
        rep.count(&format!("base64.{vn}.class[{}].{}", c.class, info.sat.tag()));
        let produced = out.lock().unwrap().clone();
        let witness = |extra: &str| {
            json!({
                "sub":"base64","variant":vn,"input":hx(&c.input),"input_text":String::from_utf8_lossy(&c.input),
                "claim":c.claim.as_ref().map(|x| hx(x)),"class":c.class,"expected_output":expected.as_ref().map(|x| hx(x)),
                "circuit_output":produced.as_ref().map(|x| hx(x)),"malformed_because":extra,
                "verdict":format!("{:?}", info.sat).chars().take(400).collect::<String>(),
            })
        };
        if let Sat::Panic(p) = &info.sat {
            if expected.is_some() && (c.claim.is_none() || expect_sat) {
                rep.violation(&format!("C19/base64/{vn}/panic@{}", repo_file(&p.file)), &format!("panic on a well-formed input: {}", p.message), witness(""));
                return;
            }
            rep.count("base64.rejected_by_panic");
        }
        let got = info.sat.accepted();
        if got && expected.is_none() {
            let class = malform_class(&c.input, v);
            if documented_lax(class) && !strict {
                rep.count(&format!("base64.documented_laxity[{vn}][{class}]"));
                rep.nontrivial(&("base64-lax", vn.clone(), c.input.clone()));
                let key = format!("base64.laxity_example[{vn}][{class}]");
                if !rep.extra.contains_key(&key) {
                    rep.set(&key, witness(class));
                }
                return;
            }
            rep.violation(&format!("C19/base64/{vn}/accepts-malformed {class}"), &format!("circuit satisfiable on the malformed input {:?} ({class})", String::from_utf8_lossy(&c.input)), witness(class));
            return;
        }
        if got && !expect_sat {
            rep.violation(&format!("C19/base64/{vn}/wrong-output"), "circuit satisfiable with a claimed output different from the standard decoding", witness(""));
            return;
        }
        if !got && expect_sat {
            rep.violation(&format!("C19/base64/{vn}/rejects-wellformed"), &format!("circuit not satisfiable ({}) on a well-formed input with the standard output", info.sat.tag()), witness(""));
            return;
        }
        if got && c.claim.is_none() && produced != expected {
            rep.violation(&format!("C19/base64/{vn}/wrong-output"), "decoded bytes differ from the standard decoding", witness(""));
            return;
        }
        rep.nontrivial(&("base64", vn, c.input.clone(), c.claim.clone()));
    }

    fn positions(len: usize, all: bool) -> Vec<usize> {
        if all {
            return (0..len).collect();
        }
        let mut p: BTreeSet<usize> = BTreeSet::new();
        if len > 0 {
            p.insert(0);
            p.insert(len / 2);
            for i in len.saturating_sub(4)..len {
                p.insert(i);
            }
        }
        p.into_iter().collect()
    }

    /// all cases for one variant and one encoded length
    pub fn cases_for(v: Variant, len: usize, rng: &mut impl Rng, thorough: bool) -> Vec<Case> {
        let mut cases = vec![];
        if !callable(v, len) {
            cases.push(Case { variant: v, input: vec![b'A'; len], claim: None, class: "wellformed" });
            return cases;
        }
        let padded = v.padded();
        let alpha = alphabet(v.url);
        // every padding form: the data lengths whose encoding has this length
        let mut wellformed: Vec<Vec<u8>> = vec![];
        for n in 0..=(len / 4 * 3 + 2) {
            for fill in 0..3 {
                let data: Vec<u8> = match fill {
                    0 => (0..n).map(|_| rng.gen()).collect(),
                    1 => vec![0xff; n],
                    _ => (0..n).map(|i| if i % 3 == 2 { 0xbe } else { 0xfb }).collect(),
                };
                let e = encode(&data, v.url, padded);
                if e.len() == len && !wellformed.contains(&e) {
                    wellformed.push(e);
                }
                if !thorough && fill == 1 {
                    break;
                }
            }
        }
        if wellformed.is_empty() {
            // length 1 mod 4 without padding: no well-formed input exists
            let e: Vec<u8> = (0..len).map(|_| alpha[rng.gen_range(0..64)]).collect();
            cases.push(Case { variant: v, input: e, claim: None, class: "bad-length" });
            return cases;
        }
        let illegal_std: Vec<u8> = vec![b'*', 0x00, 0xff, b' ', b'\n', b'.', b'-', b'_', 0x80, b'@', b'[', b'`', b'{', b':', b','];
        let illegal_url: Vec<u8> = vec![b'*', 0x00, 0xff, b' ', b'\n', b'.', 0x80, b'@', b'[', b'`', b'{', b':', b','];
        for w in &wellformed {
            let dec = strict_decode(w, v.url, padded).unwrap();
            let exp = expected_output(&dec, len);
            cases.push(Case { variant: v, input: w.clone(), claim: None, class: "wellformed" });
            cases.push(Case { variant: v, input: w.clone(), claim: Some(exp.clone()), class: "wellformed+claim" });
            if !exp.is_empty() {
                // output edits: a data byte and a filler byte
                let mut e1 = exp.clone();
                let i = rng.gen_range(0..e1.len());
                e1[i] ^= 1 << rng.gen_range(0..8);
                cases.push(Case { variant: v, input: w.clone(), claim: Some(e1), class: "output-edit" });
                let mut e2 = exp.clone();
                *e2.last_mut().unwrap() ^= 1;
                cases.push(Case { variant: v, input: w.clone(), claim: Some(e2), class: "output-edit" });
            }
            let npad = w.iter().rev().take_while(|c| **c == b'=').count();
            for pos in positions(len, thorough) {
                let ill = if v.url { &illegal_url } else { &illegal_std };
                let picks: Vec<u8> = if thorough { ill.clone() } else { vec![ill[rng.gen_range(0..ill.len())], ill[(pos + len) % ill.len()]] };
                for c in picks {
                    let mut x = w.clone();
                    x[pos] = c;
                    cases.push(Case { variant: v, input: x, claim: None, class: "illegal-char" });
                }
                if v.url {
                    for c in [b'+', b'/'] {
                        let mut x = w.clone();
                        x[pos] = c;
                        cases.push(Case { variant: v, input: x, claim: None, class: "std-char-in-url" });
                    }
                }
                if w[pos] != b'=' {
                    let mut x = w.clone();
                    x[pos] = b'=';
                    cases.push(Case { variant: v, input: x, claim: None, class: "pad-inserted" });
                    // another legal character: still well formed unless it sets trailing bits
                    let mut y = w.clone();
                    y[pos] = alpha[rng.gen_range(0..64)];
                    cases.push(Case { variant: v, input: y, claim: None, class: "legal-substitution" });
                } else {
                    let mut x = w.clone();
                    x[pos] = alpha[rng.gen_range(0..64)];
                    cases.push(Case { variant: v, input: x, claim: None, class: "pad-replaced" });
                }
            }
            // non-zero trailing bits in the last data character
            let last = len - npad;
            if last > 0 && (last % 4 == 2 || last % 4 == 3) {
                let cur = alpha.iter().position(|c| *c == w[last - 1]).unwrap();
                let free = if last % 4 == 2 { 4 } else { 2 };
                for bit in 0..free {
                    let mut x = w.clone();
                    x[last - 1] = alpha[cur | (1 << bit)];
                    cases.push(Case { variant: v, input: x, claim: None, class: "trailing-bits" });
                }
            }
        }
        cases
    }

    pub fn part_d(ctx: &Ctx, rep: &mut Report) {
        let strict = ctx.extra.get("strict-base64").map(|s| s == "1").unwrap_or(false);
        let thorough = ctx.tier == Tier::Thorough;
        let lengths: Vec<usize> = if thorough {
            (0..=64).collect()
        } else {
            (0..=24).chain([31, 32, 33, 47, 48, 62, 63, 64]).collect()
        };
        let mut jobs: Vec<Case> = vec![];
        for v in all_variants() {
            for len in &lengths {
                // the exhaustive structure does not depend on the seed; data bytes do
                let mut rng = ctx.rng(&format!("c19/b64/{}/{len}", v.name()));
                let all_pos = thorough && *len <= 24;
                jobs.extend(cases_for(v, *len, &mut rng, all_pos));
            }
        }
        // a few structurally special inputs
        for v in all_variants() {
            for t in ["====", "A===", "AA=A", "AAA=", "AA==", "=AAA", "A=AA", "AAAA====", "AAAAAA==", "AA==AAAA", "AAA=AAAA", "AAAAAAA=", "AAAAAA=A"] {
                jobs.push(Case { variant: v, input: t.as_bytes().to_vec(), claim: None, class: "special" });
            }
        }
        rep.set("base64.lengths", json!(lengths));
        rep.set("base64.cases", json!(jobs.len()));
        rep.set("base64.strict_mode", json!(strict));
        let parts: Vec<Report> = jobs
            .par_iter()
            .map(|c| {
                let mut part = rep.fork();
                if let Err(p) = catch_any(|| run_case(c, strict, &mut part)) {
                    part.inconclusive(&format!("base64: harness panic {} @ {}", p.message, p.location));
                }
                part
            })
            .collect();
        for p in parts {
            rep.merge(p);
        }
        rep.assume("base64: classes the library documents as not enforced (non-zero trailing bits, unpadded length 1 mod 4, '+' '/' accepted by base64url) are recorded under base64.documented_laxity, not as violations (--strict-base64 1 promotes them)");
        for v in all_variants() {
            let vn = v.name();
            let n: u64 = rep.counters.iter().filter(|(k, _)| k.starts_with(&format!("base64.{vn}.class[wellformed].satisfied"))).map(|(_, v)| *v).sum();
            if n == 0 {
                rep.inconclusive(&format!("base64: variant {vn} has no satisfied well-formed case"));
            }
        }
    }

    pub fn replay(ctx: &Ctx, rep: &mut Report, w: &Json) {
        let Some(v) = Variant::from_name(w["variant"].as_str().unwrap_or("")) else {
            rep.inconclusive("replay: unknown variant");
            return;
        };
        let strict = ctx.extra.get("strict-base64").map(|s| s == "1").unwrap_or(false);
        let case = Case {
            variant: v,
            input: hex::decode(w["input"].as_str().unwrap_or("")).unwrap_or_default(),
            claim: w["claim"].as_str().map(|s| hex::decode(s).unwrap_or_default()),
            class: "replay",
        };
        rep.nontrivial(&"replay-a");
        rep.nontrivial(&"replay-b");
        run_case(&case, strict, rep);
    }
}
