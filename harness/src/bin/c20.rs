//! C20 — recursion and aggregation accept exactly the valid inner proofs.
#[path = "c20_parts/gadget.rs"]
mod gadget;

use gadget::*;
use mzv::common::*;
use serde_json::json;

fn main() {
    let ctx = Ctx::from_args("C20");
    let mut rep = Report::new(&ctx, "proto");
    let t = std::time::Instant::now();
    let c1 = poseidon_case(7, 1);
    eprintln!("poseidon case: {:?} {:?}", c1.as_ref().map(|c| (c.name.clone(), c.proof.len(), c.layout.len(), c.lookups)), t.elapsed());
    for k in 5..=10 {
        let c = poseidon_case(k, 1);
        eprintln!("poseidon k={k}: {:?}", c.as_ref().map(|c| (c.proof.len(), c.layout.len())).map_err(|e| e.clone()));
    }
    let c2 = arith_case(6, 2);
    eprintln!("arith case: {:?} {:?}", c2.as_ref().map(|c| (c.name.clone(), c.proof.len(), c.layout.len(), c.lookups)), t.elapsed());
    let cases = vec![c1.unwrap(), c2.unwrap()];
    let plan = vec![
        RunSpec { inner: 0, kind: WitnessKind::Honest, edit_positions: EditPlan::Sample(6, 1) },
        RunSpec { inner: 1, kind: WitnessKind::Honest, edit_positions: EditPlan::Sample(6, 1) },
    ];
    let stats = run_plan(&cases, &plan, 16, &mut rep);
    for s in stats {
        eprintln!("collect {:.1}s ref_full {:.1}s mock_run {:.1}s mock_verify {:.1}s edits {} in {:.1}s", s.collect_s, s.ref_full_s, s.mock_run_s, s.mock_verify_s, s.edits, s.edit_s);
    }
    rep.set("x", json!(1));
    rep.finish();
}
