//! C20 — recursion and aggregation accept exactly the valid inner proofs.
//!
//! (a) `VerifierGadget<BlstrsEmulation>` (mock level, outer k = 18): the in-tree test circuit
//!     re-created from public items; differential against the off-circuit verifier
//!     (`prepare` + `Accumulator::from_dual_msm` + `collapse`) on honest and on corrupted-but-
//!     parsing inner proofs / wrong inner public inputs; claimed instances other than the derived
//!     one must be rejected. Oracle: reference evaluator ∧ MockProver, plus a direct read-back of
//!     the public-input vector the circuit binds.
//! (b) `LightAggregator<N>` through `init` / `aggregate_proofs` / `verify`: honest aggregates
//!     verify; every element of the aggregated proof (boundaries from the logged transcript, so
//!     the inner-product-argument section is covered element by element) mutated; wrong inner
//!     instances; invalid inner proofs; truncation; trailing bytes.
//! (c) `ipa_prove` / `ipa_verify` are private (module `inner_product_argument` is not exported);
//!     they are exercised through (b) only.
//! (d) the malicious aggregator (`c20_parts/forge.rs`): an aggregated proof over INVALID inner
//!     statements built by a prover that re-creates the aggregator's private circuit from public
//!     items and appends one right-hand-side base the circuit does not bind; the repository's
//!     `LightAggregator::verify` must reject it.
//!
//! `--part a|b` restricts the run to one part (development aid); `--replay <file>` re-executes a
//! recorded witness.

#[path = "c20_parts/aggregator.rs"]
mod aggregator;
#[path = "c20_parts/forge.rs"]
mod forge;
#[path = "c20_parts/gadget.rs"]
mod gadget;
#[path = "c20_parts/fold.rs"]
mod fold;
#[path = "c20_parts/ipa.rs"]
mod ipa;

use std::time::Instant;

use aggregator as ag;
use gadget as gd;
use mzv::common::*;
use rand::{seq::SliceRandom, Rng};
use serde_json::{json, Value as Json};

/// Returns false when the part observed too little to say anything.
fn part_a(ctx: &Ctx, rep: &mut Report) -> bool {
    let thorough = ctx.tier == Tier::Thorough;
    let mut rng = ctx.rng("C20/gadget/plan");
    let mut erng = ctx.rng("C20/gadget/edits");
    let t0 = Instant::now();

    // inner circuits
    let mut specs: Vec<(&str, u32)> = vec![];
    if thorough {
        specs.extend([("poseidon", 6), ("poseidon", 8), ("poseidon", 10), ("arith", 9), ("arith", 10)]);
        specs.extend([("rot0", 5), ("rot1", 6), ("rot2", 8), ("cols2", 5), ("cols2", 7)]);
    } else {
        specs.push(("poseidon", rng.gen_range(6..=10)));
        specs.push(("arith", rng.gen_range(9..=10)));
        specs.push((["rot0", "rot1", "rot2"][rng.gen_range(0..3usize)], rng.gen_range(5..=8)));
        specs.push(("cols2", rng.gen_range(5..=8)));
    }
    let mut cases = vec![];
    for (i, (what, k)) in specs.iter().enumerate() {
        let seed = ctx.seed.wrapping_mul(7919).wrapping_add(i as u64);
        let c = catch_any(|| match *what {
            "poseidon" => gd::poseidon_case(*k, seed),
            "rot0" => gd::rot_case(0, *k, seed),
            "rot1" => gd::rot_case(1, *k, seed),
            "rot2" => gd::rot_case(2, *k, seed),
            "cols2" => gd::twocol_case(*k, seed),
            _ => gd::arith_case(*k, seed),
        });
        match c {
            Ok(Ok(c)) => cases.push(c),
            Ok(Err(e)) => rep.inconclusive(&format!("inner case {what}/k{k}: {e}")),
            Err(p) => rep.inconclusive(&format!("inner case {what}/k{k}: panic {} at {}", p.message, p.location)),
        }
    }
    if cases.is_empty() {
        rep.inconclusive("no inner case for the verifier gadget");
        return false;
    }
    let setup_s = t0.elapsed().as_secs_f64();
    gd::cross_vk_accumulation(ctx.seed, &mut ctx.rng("C20/gadget/cross-vk"), if thorough { 60 } else { 12 }, rep);

    // plan
    let mut plan: Vec<gd::RunSpec> = vec![];
    for (ci, c) in cases.iter().enumerate() {
        let scalars: Vec<usize> = (0..c.layout.len()).filter(|i| c.layout[*i].kind == 'S').collect();
        let points: Vec<usize> = (0..c.layout.len()).filter(|i| c.layout[*i].kind == 'P').collect();
        let mut push = |kind: gd::WitnessKind, all: bool| {
            plan.push(gd::RunSpec {
                inner: ci,
                kind,
                edit_positions: if all { gd::EditPlan::All } else { gd::EditPlan::Sample(if thorough { 4 } else { 6 }, erng.gen()) },
                full_first_claim: thorough,
            })
        };
        push(gd::WitnessKind::Honest, thorough);
        let (n_s, n_p) = if thorough { (5, 2) } else { (1, 0) };
        let mut ss = scalars.clone();
        ss.shuffle(&mut rng);
        // the last scalar read (an evaluation, absorbed just before the final challenges) is
        // always among the corrupted ones in the thorough tier
        let mut chosen: Vec<usize> = ss.into_iter().take(n_s).collect();
        if thorough {
            if let Some(l) = scalars.last() {
                if !chosen.contains(l) {
                    chosen.push(*l);
                }
            }
        }
        for s in chosen {
            push(gd::WitnessKind::ProofScalar(s), false);
        }
        let mut pp = points.clone();
        pp.shuffle(&mut rng);
        for p in pp.into_iter().take(n_p) {
            push(gd::WitnessKind::ProofPoint(p), false);
        }
        if thorough {
            for j in 0..c.pi.len() {
                push(gd::WitnessKind::WrongPi(j), false);
            }
        } else {
            push(gd::WitnessKind::WrongPi(rng.gen_range(0..c.pi.len())), false);
        }
    }
    if !thorough {
        // fill up to 8 runs: a second scalar on each case, then one point
        for ci in 0..cases.len() {
            let c = &cases[ci];
            let scalars: Vec<usize> = (0..c.layout.len()).filter(|i| c.layout[*i].kind == 'S').collect();
            if let Some(l) = scalars.last() {
                plan.push(gd::RunSpec {
                    inner: ci,
                    kind: gd::WitnessKind::ProofScalar(*l),
                    edit_positions: gd::EditPlan::Sample(2, rng.gen()),
                    full_first_claim: false,
                });
            }
        }
        plan.truncate(13);
    } else {
        plan.truncate(120);
    }

    let t1 = Instant::now();
    let stats = gd::run_plan(&cases, &plan, 16, rep);
    let wall = t1.elapsed().as_secs_f64();
    let n = stats.iter().filter(|s| s.mock_run_s > 0.0).count().max(1) as f64;
    let avg = |f: fn(&gd::RunStats) -> f64| stats.iter().map(f).sum::<f64>() / n;
    rep.set(
        "verifier_gadget",
        json!({
            "outer_k": gd::OUTER_K,
            "inner_cases": cases.iter().map(|c| json!({"name": c.name, "k": c.k, "lookups": c.lookups, "public_inputs": c.pi.len(),
                "proof_bytes": c.proof.len(), "proof_elements": c.layout.len(),
                "points": c.layout.iter().filter(|e| e.kind == 'P').count(), "scalars": c.layout.iter().filter(|e| e.kind == 'S').count()})).collect::<Vec<_>>(),
            "verifier_circuit_runs_planned": plan.len(),
            "verifier_circuit_runs_done": stats.iter().filter(|s| s.mock_run_s > 0.0).count(),
            "claims_evaluated": stats.iter().map(|s| s.edits).sum::<usize>(),
            "seconds": {"inner_setup": setup_s, "wall_all_runs_parallel": wall,
                "avg_collect": avg(|s| s.collect_s), "avg_reference_full_evaluation": avg(|s| s.ref_full_s),
                "avg_mock_run": avg(|s| s.mock_run_s), "avg_mock_verify": avg(|s| s.mock_verify_s),
                "avg_all_other_claims_of_a_run": avg(|s| s.edit_s)},
        }),
    );
    if (stats.iter().filter(|s| s.mock_run_s > 0.0).count() as f64) < plan.len() as f64 / 2.0 {
        rep.inconclusive("fewer than half of the planned verifier-circuit runs were executed");
        return false;
    }
    true
}

/// Returns false when no aggregator configuration produced an observation.
fn part_b(ctx: &Ctx, rep: &mut Report) -> bool {
    let thorough = ctx.tier == Tier::Thorough;
    let budget = ag::Budget {
        // a mutated verification costs ~45 ms: every element with every variant in both tiers
        elements: usize::MAX,
        all_variants: true,
        truncations: usize::MAX,
        inner_elements: if thorough { usize::MAX } else { 6 },
    };
    let mut stats = vec![];
    let t0 = Instant::now();
    let srcs: Vec<&str> = if thorough { vec!["two-poseidon", "arith"] } else { vec!["two-poseidon"] };
    for (si, name) in srcs.iter().enumerate() {
        let src = match catch_any(|| ag::source_by_name(name)) {
            Ok(Some(s)) => s,
            Ok(None) => continue,
            Err(p) => {
                rep.inconclusive(&format!("inner relation {name}: setup panic {} at {}", p.message, p.location));
                continue;
            }
        };
        let seed = ctx.seed;
        with_pool(16, || {
            if let Some(s) = ag::run_n::<1>(src.as_ref(), seed, &budget, rep) {
                stats.push((name.to_string(), s));
            }
            if let Some(s) = ag::run_n::<2>(src.as_ref(), seed, &budget, rep) {
                stats.push((name.to_string(), s));
            }
            if thorough && si == 0 {
                if let Some(s) = ag::run_n::<3>(src.as_ref(), seed, &budget, rep) {
                    stats.push((name.to_string(), s));
                }
            }
        });
    }
    rep.set(
        "aggregator",
        json!({
            "wall_s": t0.elapsed().as_secs_f64(),
            "runs": stats.iter().map(|(name, s)| json!({"inner": name, "N": s.n, "init_s": s.init_s, "inner_proving_s": s.prove_inner_s,
                "aggregate_s": s.aggregate_s, "verify_ms": s.verify_ms, "aggregated_proof_bytes": s.proof_len, "elements": s.elements})).collect::<Vec<_>>(),
        }),
    );
    let planned = if thorough { 5 } else { 2 };
    rep.set("aggregator_configurations", json!({"planned": planned, "completed": stats.len()}));
    if stats.is_empty() {
        rep.inconclusive("no aggregator configuration completed");
        return false;
    }
    true
}

fn replay(path: &std::path::Path) -> ! {
    let body: Json = serde_json::from_str(&std::fs::read_to_string(path).expect("replay file")).expect("json");
    let w = &body["witness"];
    println!("replaying {} ({})", path.display(), body["signature"]);
    match w["part"].as_str() {
        Some("aggregator") | Some("aggregator-aggregate") => {
            let src = ag::source_by_name(w["inner"].as_str().unwrap_or("")).expect("inner relation");
            let r = match w["n"].as_u64() {
                Some(1) => ag::replay_n::<1>(src.as_ref(), w),
                Some(2) => ag::replay_n::<2>(src.as_ref(), w),
                Some(3) => ag::replay_n::<3>(src.as_ref(), w),
                _ => Err("unsupported N".into()),
            };
            println!("recorded outcome: {}", w["outcome"]);
            println!("replayed outcome: {r:?}");
            let reproduced = match &r {
                Ok(o) if w["part"].as_str() == Some("aggregator-aggregate") => o.starts_with("aggregate_proofs fails"),
                Ok(o) => w["outcome"].as_str().map(|x| x.split('(').next() == o.split('(').next()).unwrap_or(false),
                Err(_) => false,
            };
            std::process::exit(if reproduced { 1 } else { 0 });
        }
        Some("verifier-gadget") => {
            let r = gd::replay(w);
            println!("replayed: {r:?}");
            std::process::exit(if matches!(r, Ok(true)) { 1 } else { 0 });
        }
        _ => {
            println!("unknown witness format");
            std::process::exit(2);
        }
    }
}

fn main() {
    let ctx = Ctx::from_args("C20");
    if let Some(p) = &ctx.replay {
        replay(p);
    }
    let mut rep = Report::new(
        &ctx,
        "(a) verifier-circuit runs = (inner circuit, inner k, witness kind: honest | one scalar of the inner proof +1 | one point +G | one inner public input +1), each \
         synthesised by the reference collector and MockProver; non-trivial = the off-circuit verifier derives a different accumulator for the corrupted witness and the \
         claimed-instance verdicts (own accumulator, honest accumulator, +1 edits of vk identity / accumulator positions) are all obtained. \
         (b) per (N, inner relation): honest aggregate, then one verification per (element of the aggregated proof, mutation variant), per wrong inner instance, per \
         truncation / trailing shape, per invalid inner proof position, plus one forged aggregate over invalid inner statements (extra unbound right-hand-side base); \
         non-trivial = the mutated bytes / instances differ from the honest ones. Element boundaries and kinds come from the verifier's own reads.",
    );
    rep.assume("SRS: seeded ParamsKZG::unsafe_setup (trapdoor known to nobody in the run); negligible-probability acceptance of a mutated proof is ignored");
    rep.assume("inner proofs for the aggregator are made with a harness mirror of the aggregator's private LightPoseidonFS hash; a mismatch shows up as inconclusive");
    rep.assume("ipa_prove/ipa_verify are exercised directly through the verif-hooks re-export and indirectly through LightAggregator::{aggregate_proofs, verify}");
    rep.assume("verifier gadget: mock level only (reference evaluator ∧ MockProver at k=18); claims other than the first of a run are evaluated on the constraints that read a changed instance cell (the witness does not depend on the instance)");
    let part = ctx.extra.get("part").cloned().unwrap_or_default();
    let mut complete = true;
    if part.is_empty() || part == "b" {
        complete &= part_b(&ctx, &mut rep);
    }
    if part.is_empty() || part == "c" {
        ipa::run(&ctx, &mut rep);
    }
    if part.is_empty() || part == "e" {
        fold::run(&ctx, &mut rep);
    }
    if part.is_empty() || part == "a" {
        complete &= part_a(&ctx, &mut rep);
    }
    rep.min_nontrivial = if part.is_empty() { ctx.tier.pick(100, 400) } else { 2 };
    if !complete {
        // a whole part of the planned workload is missing: the run must not read as "held"
        rep.min_nontrivial = u64::MAX;
    }
    rep.finish();
}
