//! C20 part (b): `LightAggregator<N>` through its public API (`init`, `aggregate_proofs`,
//! `verify`), which is also the only way to reach the inner-product argument (`ipa_prove` /
//! `ipa_verify` live in a private module).
//!
//! Inner proofs need the aggregator's `LightPoseidonFS` transcript hash, which is private to the
//! aggregator crate. `MirrorFS` below re-states it (Poseidon sponge; a point is absorbed as
//! `from_uniform_bytes(SHA-512(encoding))`). The mirror is part of the harness, not an oracle: if
//! the repository's hash ever differs, `aggregate_proofs` refuses the honest inner proofs and the
//! run reports *inconclusive*, never a violation.

use std::{
    cell::RefCell,
    io::{self, Read},
    time::Instant,
};

use ff::{Field, FromUniformBytes};
use group::Group;
use midnight_aggregator::light_aggregator::LightAggregator;
use midnight_circuits::{
    hash::poseidon::{PoseidonChip, PoseidonState},
    instructions::{hash::HashCPU, AssignmentInstructions, PublicInputInstructions},
};
use midnight_curves::{Bls12, Fq, G1Projective};
use midnight_proofs::{
    circuit::{Layouter, Value},
    plonk::{prepare, Error},
    poly::{
        commitment::Guard,
        kzg::{params::ParamsKZG, KZGCommitmentScheme},
    },
    transcript::{CircuitTranscript, Hashable, Sampleable, Transcript, TranscriptHash},
};
use midnight_zk_stdlib::{MidnightPK, MidnightVK, Relation, ZkStdLib, ZkStdLibArch};
use mzv::{
    common::*,
    engines::{
        logged_hash::{take_elements, Element, LoggedTranscript},
        plonk_util::params_for,
        relations::ArithRel,
    },
};
use rand::{Rng, SeedableRng};
use rand_chacha::ChaCha8Rng;
use rayon::prelude::*;
use serde_json::{json, Value as Json};

type F = Fq;
type C = G1Projective;
type PS = PoseidonState<F>;
type Blake = blake2b_simd::State;

pub const SRS_K: u32 = 15;

// ---------------------------------------------------------------------------------------------
// Mirror of the aggregator's private `LightPoseidonFS`
// ---------------------------------------------------------------------------------------------

#[derive(Clone, Debug)]
pub struct MirrorFS(PS);

impl TranscriptHash for MirrorFS {
    type Input = Vec<F>;
    type Output = F;
    fn init() -> Self {
        MirrorFS(<PS as TranscriptHash>::init())
    }
    fn absorb(&mut self, input: &Self::Input) {
        <PS as TranscriptHash>::absorb(&mut self.0, input)
    }
    fn squeeze(&mut self) -> Self::Output {
        <PS as TranscriptHash>::squeeze(&mut self.0)
    }
}

impl Hashable<MirrorFS> for C {
    fn to_input(&self) -> Vec<F> {
        use sha2::Digest;
        let bytes = <C as Hashable<PS>>::to_bytes(self);
        let digest: [u8; 64] = sha2::Sha512::digest(bytes).into();
        vec![F::from_uniform_bytes(&digest)]
    }
    fn to_bytes(&self) -> Vec<u8> {
        <C as Hashable<PS>>::to_bytes(self)
    }
    fn read(buffer: &mut impl Read) -> io::Result<Self> {
        <C as Hashable<PS>>::read(buffer)
    }
}

impl Hashable<MirrorFS> for F {
    fn to_input(&self) -> Vec<F> {
        <F as Hashable<PS>>::to_input(self)
    }
    fn to_bytes(&self) -> Vec<u8> {
        <F as Hashable<PS>>::to_bytes(self)
    }
    fn read(buffer: &mut impl Read) -> io::Result<Self> {
        <F as Hashable<PS>>::read(buffer)
    }
}

impl Sampleable<MirrorFS> for F {
    fn sample(out: F) -> Self {
        out
    }
}

// ---------------------------------------------------------------------------------------------
// Transcript wrapper: sections of the aggregated proof (runs of reads separated by `common`s)
// ---------------------------------------------------------------------------------------------

thread_local! {
    /// (commons so far, squeezes so far) at every read/write
    static MARKS: RefCell<Vec<(usize, usize)>> = const { RefCell::new(Vec::new()) };
    static COUNTS: RefCell<(usize, usize)> = const { RefCell::new((0, 0)) };
}

fn take_marks() -> Vec<(usize, usize)> {
    COUNTS.with(|c| *c.borrow_mut() = (0, 0));
    MARKS.with(|m| std::mem::take(&mut *m.borrow_mut()))
}

/// `LoggedTranscript<blake2b>` plus the position of every element relative to the `common` and
/// `squeeze_challenge` calls of the verifier (to name sections without knowing the layout).
#[derive(Clone, Debug)]
pub struct SecT(LoggedTranscript<Blake>);

impl Transcript for SecT {
    type Hash = Blake;
    fn init() -> Self {
        SecT(LoggedTranscript::init())
    }
    fn init_from_bytes(bytes: &[u8]) -> Self {
        SecT(LoggedTranscript::init_from_bytes(bytes))
    }
    fn squeeze_challenge<T: Sampleable<Blake>>(&mut self) -> T {
        COUNTS.with(|c| c.borrow_mut().1 += 1);
        self.0.squeeze_challenge()
    }
    fn common<T: Hashable<Blake>>(&mut self, input: &T) -> io::Result<()> {
        COUNTS.with(|c| c.borrow_mut().0 += 1);
        self.0.common(input)
    }
    fn read<T: Hashable<Blake>>(&mut self) -> io::Result<T> {
        let c = COUNTS.with(|c| *c.borrow());
        MARKS.with(|m| m.borrow_mut().push(c));
        self.0.read()
    }
    fn write<T: Hashable<Blake>>(&mut self, input: &T) -> io::Result<()> {
        let c = COUNTS.with(|c| *c.borrow());
        MARKS.with(|m| m.borrow_mut().push(c));
        self.0.write(input)
    }
    fn finalize(self) -> Vec<u8> {
        self.0.finalize()
    }
    fn assert_empty(&mut self) -> io::Result<()> {
        self.0.assert_empty()
    }
}

// ---------------------------------------------------------------------------------------------
// Inner relations (exactly two public inputs: a restriction of the aggregator)
// ---------------------------------------------------------------------------------------------

/// The inner relation of the in-tree `test_aggregate_proofs`.
#[derive(Clone, Default, Debug)]
pub struct TwoPoseidon;

impl Relation for TwoPoseidon {
    type Instance = [F; 2];
    type Witness = [F; 2];

    fn format_instance(instance: &Self::Instance) -> Result<Vec<F>, Error> {
        Ok(instance.to_vec())
    }

    fn circuit(
        &self,
        std_lib: &ZkStdLib,
        layouter: &mut impl Layouter<F>,
        _instance: Value<Self::Instance>,
        witness: Value<Self::Witness>,
    ) -> Result<(), Error> {
        let assigned_message = std_lib.assign_many(layouter, &witness.transpose_array())?;
        let output1 = std_lib.poseidon(layouter, &assigned_message)?;
        let output2 = std_lib.poseidon(layouter, &assigned_message[1..])?;
        std_lib.constrain_as_public_input(layouter, &output1)?;
        std_lib.constrain_as_public_input(layouter, &output2)
    }

    fn used_chips(&self) -> ZkStdLibArch {
        ZkStdLibArch {
            jubjub: true,
            poseidon: true,
            sha2_256: true,
            nr_pow2range_cols: 4,
            ..ZkStdLibArch::default()
        }
    }

    fn write_relation<W: io::Write>(&self, _writer: &mut W) -> io::Result<()> {
        Ok(())
    }

    fn read_relation<R: io::Read>(_reader: &mut R) -> io::Result<Self> {
        Ok(TwoPoseidon)
    }
}

/// Source of valid inner (instance, proof) pairs for one relation.
pub trait InnerSource: Sync {
    fn name(&self) -> &'static str;
    fn vk(&self) -> &MidnightVK;
    /// a valid (public inputs, proof) pair from the seed
    fn prove(&self, seed: u64) -> Result<(Vec<F>, Vec<u8>), String>;
}

pub struct Source<R: Relation> {
    name: &'static str,
    rel: R,
    srs: ParamsKZG<Bls12>,
    vk: MidnightVK,
    pk: MidnightPK<R>,
    #[allow(clippy::type_complexity)]
    sample: fn(&mut ChaCha8Rng) -> (R::Instance, R::Witness),
}

impl<R: Relation + Sync> InnerSource for Source<R>
where
    R::Instance: Sync,
    R::Witness: Sync,
    MidnightPK<R>: Sync,
{
    fn name(&self) -> &'static str {
        self.name
    }
    fn vk(&self) -> &MidnightVK {
        &self.vk
    }
    fn prove(&self, seed: u64) -> Result<(Vec<F>, Vec<u8>), String> {
        let mut rng = ChaCha8Rng::seed_from_u64(seed);
        let (inst, wit) = (self.sample)(&mut rng);
        let pi = R::format_instance(&inst).map_err(|e| format!("{e:?}"))?;
        let proof = midnight_zk_stdlib::prove::<R, MirrorFS>(&self.srs, &self.pk, &self.rel, &inst, wit, &mut rng)
            .map_err(|e| format!("inner prove: {e:?}"))?;
        Ok((pi, proof))
    }
}

fn sample_two_poseidon(rng: &mut ChaCha8Rng) -> ([F; 2], [F; 2]) {
    let w = [F::random(&mut *rng), F::random(&mut *rng)];
    (
        [
            <PoseidonChip<F> as HashCPU<F, F>>::hash(&w),
            <PoseidonChip<F> as HashCPU<F, F>>::hash(&w[1..]),
        ],
        w,
    )
}

fn sample_arith(rng: &mut ChaCha8Rng) -> ((F, F), (F, F, u8)) {
    ArithRel::sample(rng)
}

/// The SRS all proofs of part (b) share (same toxic waste for inner and aggregated proofs).
pub fn base_srs() -> ParamsKZG<Bls12> {
    params_for(SRS_K).clone()
}

pub fn make_source<R: Relation>(
    name: &'static str,
    rel: R,
    sample: fn(&mut ChaCha8Rng) -> (R::Instance, R::Witness),
) -> Source<R> {
    let mut srs = base_srs();
    midnight_zk_stdlib::downsize_srs_for_relation(&mut srs, &rel);
    let vk = midnight_zk_stdlib::setup_vk(&srs, &rel);
    let pk = midnight_zk_stdlib::setup_pk(&rel, &vk);
    Source {
        name,
        rel,
        srs,
        vk,
        pk,
        sample,
    }
}

pub fn source_by_name(name: &str) -> Option<Box<dyn InnerSource>> {
    match name {
        "two-poseidon" => Some(Box::new(make_source("two-poseidon", TwoPoseidon, sample_two_poseidon))),
        "arith" => Some(Box::new(make_source("arith", ArithRel, sample_arith))),
        _ => None,
    }
}

/// Off-circuit validity of an inner proof under the mirror hash (harness self-check).
fn inner_valid(src: &dyn InnerSource, pi: &[F], proof: &[u8]) -> bool {
    let mut t = CircuitTranscript::<MirrorFS>::init_from_bytes(proof);
    match prepare::<F, KZGCommitmentScheme<Bls12>, CircuitTranscript<MirrorFS>>(
        src.vk().vk(),
        &[&[C::identity()]],
        &[&[pi]],
        &mut t,
    ) {
        Ok(g) => t.assert_empty().is_ok() && g.verify(&base_srs().verifier_params()).is_ok(),
        Err(_) => false,
    }
}

// ---------------------------------------------------------------------------------------------
// Verification outcomes
// ---------------------------------------------------------------------------------------------

#[derive(Clone, Debug, PartialEq, Eq)]
pub enum Outcome {
    /// `verify` Ok and the transcript fully consumed
    Accepted,
    /// `verify` returned an error
    Rejected,
    /// `verify` Ok but bytes were left over (`assert_empty` fails): rejected by a complete verifier
    Trailing,
    Panic(PanicInfo),
}

pub fn hexf(f: &F) -> String {
    hex::encode(f.to_bytes_le())
}

pub fn unhexf(s: &str) -> Option<F> {
    let b: [u8; 32] = hex::decode(s).ok()?.try_into().ok()?;
    F::from_bytes_le(&b).into()
}

fn inst_json(instances: &[Vec<F>]) -> Json {
    json!(instances.iter().map(|v| v.iter().map(hexf).collect::<Vec<_>>()).collect::<Vec<_>>())
}

pub struct Agg<const N: usize> {
    pub agg: LightAggregator<N>,
    pub srs: ParamsKZG<Bls12>,
    pub init_s: f64,
}

pub fn init_agg<const N: usize>(src: &dyn InnerSource) -> Result<Agg<N>, String> {
    let mut srs = base_srs();
    let t0 = Instant::now();
    match catch_any(|| LightAggregator::<N>::init(&mut srs, src.vk().vk())) {
        Ok(Ok(agg)) => Ok(Agg {
            agg,
            init_s: t0.elapsed().as_secs_f64(),
            srs,
        }),
        Ok(Err(e)) => Err(format!("LightAggregator::init error: {e:?}")),
        Err(p) => Err(format!("LightAggregator::init panic at {}: {}", p.location, p.message)),
    }
}

impl<const N: usize> Agg<N> {
    pub fn verify(&self, instances: &[Vec<F>], proof: &[u8]) -> (Outcome, Vec<Element>, Vec<(usize, usize)>) {
        let _ = take_elements();
        let _ = take_marks();
        let Ok(arr): Result<[Vec<F>; N], _> = instances.to_vec().try_into() else {
            return (Outcome::Rejected, vec![], vec![]);
        };
        let vp = self.srs.verifier_params();
        let r = catch_any(|| {
            let mut t = SecT::init_from_bytes(proof);
            let r = self.agg.verify(&vp, &arr, &mut t);
            (r.is_ok(), t.assert_empty().is_ok())
        });
        let els = take_elements();
        let marks = take_marks();
        let o = match r {
            Ok((true, true)) => Outcome::Accepted,
            Ok((true, false)) => Outcome::Trailing,
            Ok((false, _)) => Outcome::Rejected,
            Err(p) => Outcome::Panic(p),
        };
        (o, els, marks)
    }

    /// `aggregate_proofs`: Ok(bytes) / Err(description); a panic is reported as Err("panic…").
    pub fn aggregate(&self, instances: &[Vec<F>], proofs: &[Vec<u8>], seed: u64) -> Result<Vec<u8>, String> {
        let arr: [Vec<F>; N] = instances.to_vec().try_into().map_err(|_| "arity".to_string())?;
        let prf: [Vec<u8>; N] = proofs.to_vec().try_into().map_err(|_| "arity".to_string())?;
        let r = catch_any(|| {
            let mut t = SecT::init();
            self.agg
                .aggregate_proofs(&self.srs, &arr, &prf, ChaCha8Rng::seed_from_u64(seed), &mut t)
                .map(|_| t.finalize())
        });
        let _ = take_elements();
        let _ = take_marks();
        match r {
            Ok(Ok(b)) => Ok(b),
            Ok(Err(e)) => Err(format!("error: {e:?}")),
            Err(p) => Err(format!("panic at {}: {}", p.location, p.message)),
        }
    }
}

// ---------------------------------------------------------------------------------------------
// Mutations of the aggregated proof
// ---------------------------------------------------------------------------------------------

#[derive(Clone, Debug)]
pub struct Mutation {
    /// detailed label (counters, witness)
    pub kind: String,
    /// short stable label used in signatures
    pub sig: String,
    pub element: Option<usize>,
    pub section: usize,
    pub bytes: Vec<u8>,
}

fn enc_p(p: &C) -> Vec<u8> {
    <C as Hashable<Blake>>::to_bytes(p)
}

fn dec_p(b: &[u8]) -> Option<C> {
    <C as Hashable<Blake>>::read(&mut &b[..]).ok()
}

fn splice(proof: &[u8], e: &Element, new: &[u8]) -> Vec<u8> {
    let mut v = proof[..e.offset].to_vec();
    v.extend_from_slice(new);
    v.extend_from_slice(&proof[e.offset + e.len..]);
    v
}

/// All single-element mutations of element `i`.
fn element_mutations(proof: &[u8], els: &[Element], i: usize, section: usize) -> Vec<Mutation> {
    let e = &els[i];
    let old = &proof[e.offset..e.offset + e.len];
    let mut out: Vec<(String, Vec<u8>)> = vec![];
    match e.kind {
        'P' => {
            if let Some(p) = dec_p(old) {
                out.push(("P:+G".into(), enc_p(&(p + C::generator()))));
                out.push(("P:identity".into(), enc_p(&C::identity())));
                out.push(("P:neg".into(), enc_p(&(-p))));
            }
        }
        'S' => {
            if let Ok(s) = <F as Hashable<Blake>>::read(&mut &old[..]) {
                out.push(("S:+1".into(), <F as Hashable<Blake>>::to_bytes(&(s + F::ONE))));
                out.push(("S:zero".into(), <F as Hashable<Blake>>::to_bytes(&F::ZERO)));
            }
        }
        'U' => {
            if let Ok(n) = <u32 as Hashable<Blake>>::read(&mut &old[..]) {
                for (name, v) in [
                    ("U:+1", n.wrapping_add(1)),
                    ("U:-1", n.wrapping_sub(1)),
                    ("U:zero", 0),
                    ("U:large", 1 << 20),
                    ("U:max", u32::MAX),
                ] {
                    out.push((name.into(), <u32 as Hashable<Blake>>::to_bytes(&v)));
                }
            }
        }
        _ => {}
    }
    out.into_iter()
        .filter(|(_, b)| b.as_slice() != old)
        .map(|(kind, b)| Mutation {
            sig: e.kind.to_string(),
            kind,
            element: Some(i),
            section,
            bytes: splice(proof, e, &b),
        })
        .collect()
}

/// Count enlarged by `m` with `m` valid point encodings supplied after the points that follow
/// the count (the shape that reaches the slice of `lagrange_commitments` in `verify`, F7).
fn count_enlarged(proof: &[u8], els: &[Element], i: usize, section: usize, m: u32, rng: &mut ChaCha8Rng) -> Option<Mutation> {
    let e = &els[i];
    let n = <u32 as Hashable<Blake>>::read(&mut &proof[e.offset..e.offset + e.len]).ok()?;
    // the run of points directly after the count
    let run = els[i + 1..].iter().take_while(|x| x.kind == 'P').count();
    let after = (n as usize).min(run);
    let insert_at = if after == 0 { e.offset + e.len } else { els[i + after].offset + els[i + after].len };
    let mut v = proof[..e.offset].to_vec();
    v.extend(<u32 as Hashable<Blake>>::to_bytes(&(n.checked_add(m)?)));
    v.extend_from_slice(&proof[e.offset + e.len..insert_at]);
    for _ in 0..m {
        v.extend(enc_p(&(C::generator() * F::from(rng.gen::<u64>() | 1))));
    }
    v.extend_from_slice(&proof[insert_at..]);
    Some(Mutation {
        kind: format!("U:+{m}-with-{m}-points-inserted"),
        sig: "count-enlarged-with-points-supplied".into(),
        element: Some(i),
        section,
        bytes: v,
    })
}

/// Section index of every element: a new section starts whenever the verifier made at least one
/// `common` call since the previous read.
fn sections(marks: &[(usize, usize)]) -> Vec<usize> {
    let mut out = vec![];
    let mut sec = 0usize;
    let mut last_commons = marks.first().map(|m| m.0).unwrap_or(0);
    for (i, (c, _)) in marks.iter().enumerate() {
        if i > 0 && *c != last_commons {
            sec += 1;
        }
        last_commons = *c;
        out.push(sec);
    }
    out
}

pub struct Budget {
    /// number of elements mutated (evenly spread); usize::MAX = all
    pub elements: usize,
    /// all variants per element, or one seeded variant
    pub all_variants: bool,
    pub truncations: usize,
    /// elements of each inner proof corrupted (one at a time) before aggregation
    pub inner_elements: usize,
}

fn report_outcome<const N: usize>(
    rep: &mut Report,
    a: &Agg<N>,
    src_name: &str,
    what: &str,
    sig_kind: &str,
    panic_shape: &str,
    class: &str,
    instances: &[Vec<F>],
    proof: &[u8],
    o: Outcome,
    extra: Json,
) {
    rep.eval();
    let witness = |o: &Outcome| {
        json!({
            "part": "aggregator", "n": N, "inner": src_name,
            "instances": inst_json(instances),
            "aggregated_proof": hex::encode(proof),
            "mutation": class, "detail": extra, "outcome": format!("{o:?}"),
        })
    };
    match &o {
        Outcome::Rejected => rep.count(&format!("agg.rejected[{class}]")),
        Outcome::Trailing => rep.count(&format!("agg.rejected-by-assert_empty[{class}]")),
        Outcome::Accepted => {
            // re-execute once before reporting
            let (o2, _, _) = a.verify(instances, proof);
            if o2 == Outcome::Accepted {
                rep.violation(&format!("C20/aggregator/{sig_kind}"), &format!("LightAggregator<{N}>::verify accepts {what}"), witness(&o));
            } else {
                rep.inconclusive(&format!("acceptance of {what} did not reproduce"));
            }
        }
        Outcome::Panic(p) => {
            let (o2, _, _) = a.verify(instances, proof);
            if matches!(o2, Outcome::Panic(_)) {
                let shape = panic_shape;
                let mut w = witness(&o);
                w["panic"] = json!({"message": p.message, "location": p.location});
                rep.violation(
                    &format!("C20/aggregator/verify-panic@{} {shape}", repo_file(&p.file)),
                    &format!("LightAggregator<{N}>::verify panics on {what}: {} at {}", p.message, p.location),
                    w,
                );
            } else {
                rep.inconclusive(&format!("panic on {what} did not reproduce"));
            }
        }
    }
}

pub struct AggStats {
    pub n: usize,
    pub init_s: f64,
    pub prove_inner_s: f64,
    pub aggregate_s: f64,
    pub verify_ms: f64,
    pub proof_len: usize,
    pub elements: usize,
}

/// The whole of part (b) for one N and one inner relation.
pub fn run_n<const N: usize>(src: &dyn InnerSource, seed: u64, budget: &Budget, rep: &mut Report) -> Option<AggStats> {
    let tag = format!("N={N},{}", src.name());
    let a = match init_agg::<N>(src) {
        Ok(a) => a,
        Err(e) => {
            rep.inconclusive(&format!("[{tag}] {e}"));
            return None;
        }
    };
    let mut rng = rng_for(seed, &format!("C20/agg/{tag}"));

    // ---- honest inner proofs -----------------------------------------------------------------
    let t0 = Instant::now();
    let inner: Vec<Result<(Vec<F>, Vec<u8>), String>> =
        (0..N + 1).into_par_iter().map(|i| src.prove(seed.wrapping_mul(1000).wrapping_add(i as u64 + 17 * N as u64))).collect();
    let prove_inner_s = t0.elapsed().as_secs_f64();
    let mut pairs = vec![];
    for r in inner {
        match r {
            Ok(p) => pairs.push(p),
            Err(e) => {
                rep.inconclusive(&format!("[{tag}] cannot produce an inner proof: {e}"));
                return None;
            }
        }
    }
    for (pi, proof) in &pairs {
        if !inner_valid(src, pi, proof) {
            rep.inconclusive(&format!("[{tag}] an honest inner proof does not verify off-circuit under the mirror hash"));
            return None;
        }
        if pi.len() != 2 {
            rep.inconclusive(&format!("[{tag}] inner relation must have exactly two public inputs"));
            return None;
        }
    }
    let spare = pairs.pop().unwrap(); // a valid pair that is not part of the aggregate
    let instances: Vec<Vec<F>> = pairs.iter().map(|p| p.0.clone()).collect();
    let proofs: Vec<Vec<u8>> = pairs.iter().map(|p| p.1.clone()).collect();

    // ---- honest aggregate ----------------------------------------------------------------------
    let t0 = Instant::now();
    let proof = match a.aggregate(&instances, &proofs, rng.gen()) {
        Ok(p) => p,
        Err(e) => {
            rep.eval();
            if e.contains("dual_msm") || e.contains("Transcript") || e.contains("Opening") {
                rep.inconclusive(&format!(
                    "[{tag}] aggregate_proofs refuses inner proofs made with the harness mirror of the private LightPoseidonFS ({e}); mirror out of date?"
                ));
            } else {
                // re-execute once
                let again = a.aggregate(&instances, &proofs, 1);
                if again.is_ok() {
                    rep.inconclusive(&format!("[{tag}] failure of aggregate_proofs on honest inputs did not reproduce"));
                    return None;
                }
                let sig = if e.starts_with("panic") {
                    let file = e.trim_start_matches("panic at ").split(':').next().unwrap_or("?").to_string();
                    format!("C20/aggregator/rejects-honest panic@{} aggregate_proofs", repo_file(&file))
                } else {
                    "C20/aggregator/rejects-honest aggregate_proofs-error".to_string()
                };
                rep.violation(
                    &sig,
                    &format!("LightAggregator<{N}>::aggregate_proofs fails on {N} valid inner proof(s) ({}): {e}", src.name()),
                    json!({"part": "aggregator-aggregate", "n": N, "inner": src.name(), "instances": inst_json(&instances),
                           "inner_proofs": proofs.iter().map(hex::encode).collect::<Vec<_>>(), "stage": "aggregate_proofs", "error": e}),
                );
            }
            return None;
        }
    };
    let aggregate_s = t0.elapsed().as_secs_f64();
    rep.eval();

    let t0 = Instant::now();
    let (o, els, marks) = a.verify(&instances, &proof);
    let verify_ms = t0.elapsed().as_secs_f64() * 1e3;
    rep.eval();
    if o != Outcome::Accepted {
        let (o2, _, _) = a.verify(&instances, &proof);
        if o2 == o {
            rep.violation(
                "C20/aggregator/rejects-honest verify",
                &format!("LightAggregator<{N}>::verify (+assert_empty) does not accept an honest aggregate: {o:?}"),
                json!({"part": "aggregator", "n": N, "inner": src.name(), "instances": inst_json(&instances),
                       "aggregated_proof": hex::encode(&proof), "mutation": "none", "outcome": format!("{o:?}")}),
            );
        } else {
            rep.inconclusive(&format!("[{tag}] honest rejection did not reproduce"));
        }
        return None;
    }
    rep.count(&format!("agg.honest-accepted[{tag}]"));
    rep.nontrivial(&(tag.clone(), "honest"));

    // layout sanity: the elements tile the proof
    let mut off = 0;
    let tiled = els.iter().all(|e| {
        let ok = e.offset == off;
        off += e.len;
        ok
    }) && off == proof.len()
        && marks.len() == els.len();
    if !tiled {
        rep.inconclusive(&format!("[{tag}] recorded elements do not tile the aggregated proof"));
        return None;
    }
    let secs = sections(&marks);
    let n_sections = secs.last().map(|s| s + 1).unwrap_or(0);
    let sec_name = |s: usize| {
        if s + 1 == n_sections {
            format!("s{s}(last=ipa)")
        } else {
            format!("s{s}")
        }
    };
    // per-section element table
    let mut table: std::collections::BTreeMap<String, [usize; 3]> = Default::default();
    for (e, s) in els.iter().zip(&secs) {
        let row = table.entry(sec_name(*s)).or_insert([0; 3]);
        match e.kind {
            'P' => row[0] += 1,
            'S' => row[1] += 1,
            _ => row[2] += 1,
        }
    }
    rep.set(
        &format!("aggregated_proof[{tag}]"),
        json!({
            "bytes": proof.len(), "elements": els.len(),
            "by_kind": {"P": els.iter().filter(|e| e.kind == 'P').count(), "S": els.iter().filter(|e| e.kind == 'S').count(), "U": els.iter().filter(|e| e.kind == 'U').count(), "other": els.iter().filter(|e| !"PSU".contains(e.kind)).count()},
            "sections(P,S,U)": table,
            "challenges_squeezed": marks.last().map(|m| m.1),
        }),
    );
    if els.iter().any(|e| !"PSU".contains(e.kind)) {
        rep.inconclusive(&format!("[{tag}] element of unknown kind in the aggregated proof"));
    }

    // ---- element mutations -----------------------------------------------------------------------
    let mut muts: Vec<Mutation> = vec![];
    let chosen: Vec<usize> = if budget.elements >= els.len() {
        (0..els.len()).collect()
    } else {
        // evenly spread with a seeded phase; every count element and the whole last section's
        // first/last elements are always included
        let stride = els.len() as f64 / budget.elements as f64;
        let phase: f64 = rng.gen::<f64>() * stride;
        let mut v: Vec<usize> = (0..budget.elements).map(|j| ((phase + j as f64 * stride) as usize).min(els.len() - 1)).collect();
        v.extend((0..els.len()).filter(|i| els[*i].kind == 'U'));
        for s in 0..n_sections {
            let idx: Vec<usize> = (0..els.len()).filter(|i| secs[*i] == s).collect();
            v.push(idx[0]);
            v.push(*idx.last().unwrap());
        }
        v.sort();
        v.dedup();
        v
    };
    for &i in &chosen {
        let mut ms = element_mutations(&proof, &els, i, secs[i]);
        if !budget.all_variants && els[i].kind != 'U' && !ms.is_empty() {
            let keep = rng.gen_range(0..ms.len());
            ms = vec![ms.swap_remove(keep)];
        }
        muts.extend(ms);
    }
    // enlarged counts with supplied points (every count element)
    for i in (0..els.len()).filter(|i| els[*i].kind == 'U') {
        for m in [1u32, 2, 8, 64, 512, 4096] {
            if let Some(mu) = count_enlarged(&proof, &els, i, secs[i], m, &mut rng) {
                muts.push(mu);
            }
        }
    }
    // truncations at element boundaries
    let n_tr = budget.truncations.min(els.len());
    for j in 0..n_tr {
        let i = if n_tr == els.len() { j } else { j * els.len() / n_tr };
        muts.push(Mutation {
            kind: "truncate@boundary".into(),
            sig: "truncated".into(),
            element: Some(i),
            section: secs[i],
            bytes: proof[..els[i].offset].to_vec(),
        });
    }
    muts.push(Mutation {
        kind: "truncate@mid-last-element".into(),
        sig: "truncated".into(),
        element: Some(els.len() - 1),
        section: n_sections - 1,
        bytes: proof[..proof.len() - els.last().unwrap().len / 2].to_vec(),
    });
    // trailing bytes
    for (name, extra) in [
        ("trailing:1-zero-byte", vec![0u8]),
        ("trailing:32-random-bytes", (0..32).map(|_| rng.gen()).collect::<Vec<u8>>()),
        ("trailing:valid-point", enc_p(&C::generator())),
        ("trailing:copy-of-last-element", proof[els.last().unwrap().offset..].to_vec()),
    ] {
        let mut b = proof.clone();
        b.extend(extra);
        muts.push(Mutation {
            kind: name.into(),
            sig: "trailing-bytes".into(),
            element: None,
            section: n_sections - 1,
            bytes: b,
        });
    }
    muts.retain(|m| m.bytes != proof);

    let outcomes: Vec<Outcome> = muts.par_iter().map(|m| a.verify(&instances, &m.bytes).0).collect();
    for (j, (m, o)) in muts.iter().zip(outcomes).enumerate() {
        let class = m.kind.clone();
        if j % 197 == 5 {
            rep.sample(json!({"part": "aggregator", "config": tag, "mutation": m.kind, "element": m.element,
                "element_kind": m.element.map(|i| els[i].kind.to_string()), "section": sec_name(m.section),
                "mutated_len": m.bytes.len(), "honest_len": proof.len(), "outcome": format!("{o:?}").chars().take(60).collect::<String>()}));
        }
        let el = m.element.map(|i| format!("element {i} ({}) of {}", els[i].kind, els.len())).unwrap_or_default();
        rep.count(&format!("agg.mutations[section {}]", sec_name(m.section)));
        rep.nontrivial(&(tag.clone(), m.kind.clone(), m.element));
        let kind_sig = format!("accepts-mutated-proof[{}]", m.sig);
        let shape = if m.sig.len() == 1 { format!("mutated-{}", m.sig) } else { m.sig.clone() };
        report_outcome(
            rep,
            &a,
            src.name(),
            &format!("an aggregated proof with mutation {class} {el} in section {}", sec_name(m.section)),
            &kind_sig,
            &shape,
            &class,
            &instances,
            &m.bytes,
            o,
            json!({"element": m.element, "section": sec_name(m.section),
                   "element_offset": m.element.map(|i| els[i].offset), "honest_proof_len": proof.len()}),
        );
    }

    // ---- wrong inner instances at verification ----------------------------------------------------
    let mut wrong: Vec<(String, Vec<Vec<F>>)> = vec![];
    for i in 0..N {
        for j in 0..instances[i].len() {
            let mut v = instances.clone();
            v[i][j] += F::ONE;
            wrong.push((format!("instance[{i}][{j}]+1"), v));
            let mut v = instances.clone();
            v[i][j] = F::ZERO;
            wrong.push((format!("instance[{i}][{j}]=0"), v));
            let mut v = instances.clone();
            v[i][j] = F::random(&mut rng);
            wrong.push((format!("instance[{i}][{j}]=random"), v));
        }
        let mut v = instances.clone();
        v[i].swap(0, 1);
        wrong.push((format!("instance[{i}] entries swapped"), v));
        let mut v = instances.clone();
        v[i] = spare.0.clone();
        wrong.push((format!("instance[{i}]=instance of another valid proof"), v));
        let mut v = instances.clone();
        v[i].push(F::ZERO);
        wrong.push((format!("instance[{i}] with a zero appended"), v));
        let mut v = instances.clone();
        v[i].pop();
        wrong.push((format!("instance[{i}] with the last entry dropped"), v));
    }
    for i in 1..N {
        let mut v = instances.clone();
        v.swap(0, i);
        wrong.push((format!("instances 0 and {i} exchanged"), v));
    }
    wrong.retain(|(_, v)| *v != instances);
    let outcomes: Vec<Outcome> = wrong.par_iter().map(|(_, v)| a.verify(v, &proof).0).collect();
    for ((label, v), o) in wrong.iter().zip(outcomes) {
        rep.nontrivial(&(tag.clone(), "wrong-instance", label.clone()));
        let class = format!("wrong-instance:{}", label.split('[').next().unwrap_or("").trim());
        let class = if label.contains("appended") || label.contains("dropped") { "wrong-instance-length".to_string() } else { class };
        report_outcome(
            rep,
            &a,
            src.name(),
            &format!("an honest aggregated proof for other inner public inputs ({label})"),
            "accepts-wrong-instance",
            if label.contains("appended") || label.contains("dropped") { "wrong-instance-length" } else { "wrong-instance" },
            &class,
            v,
            &proof,
            o,
            json!({"edit": label}),
        );
    }

    // ---- one invalid inner proof at each position --------------------------------------------------
    for pos in 0..N {
        let mut variants: Vec<(String, Vec<Vec<F>>, Vec<Vec<u8>>)> = vec![];
        // elements of the inner proof mutated so that it still parses (scalar + 1, point + G)
        {
            let _ = take_elements();
            let mut t = LoggedTranscript::<MirrorFS>::init_from_bytes(&proofs[pos]);
            let _ = prepare::<F, KZGCommitmentScheme<Bls12>, _>(src.vk().vk(), &[&[C::identity()]], &[&[&instances[pos]]], &mut t);
            let iels = take_elements();
            let idx: Vec<usize> = if budget.inner_elements >= iels.len() {
                (0..iels.len()).collect()
            } else {
                let mut v: Vec<usize> = (0..budget.inner_elements).map(|j| (j * iels.len() + rng.gen_range(0..iels.len())) / budget.inner_elements % iels.len()).collect();
                v.push(iels.len() - 1);
                v.sort();
                v.dedup();
                v
            };
            for i in idx {
                let e = &iels[i];
                let old = proofs[pos][e.offset..e.offset + e.len].to_vec();
                let (label, new) = match e.kind {
                    'S' => match <F as Hashable<MirrorFS>>::read(&mut &old[..]) {
                        Ok(s) => ("inner-proof-scalar+1", <F as Hashable<MirrorFS>>::to_bytes(&(s + F::ONE))),
                        Err(_) => continue,
                    },
                    'P' => match dec_p(&old) {
                        Some(q) => ("inner-proof-point+G", enc_p(&(q + C::generator()))),
                        None => continue,
                    },
                    _ => continue,
                };
                if new.len() != old.len() || new == old {
                    continue;
                }
                let mut p = proofs.clone();
                p[pos][e.offset..e.offset + e.len].copy_from_slice(&new);
                variants.push((label.into(), instances.clone(), p));
            }
        }
        // a valid proof of another statement at this position, with the original instance
        {
            let mut p = proofs.clone();
            p[pos] = spare.1.clone();
            variants.push(("valid-proof-of-another-instance".into(), instances.clone(), p));
        }
        // the right proof with an altered stated instance
        {
            let mut v = instances.clone();
            v[pos][rng.gen_range(0..2)] += F::ONE;
            variants.push(("stated-instance+1".into(), v, proofs.clone()));
        }
        // truncated inner proof
        {
            let mut p = proofs.clone();
            let l = p[pos].len();
            p[pos].truncate(l - 1);
            variants.push(("inner-proof-truncated".into(), instances.clone(), p));
        }
        for (label, inst, prfs) in variants {
            if inst == instances && prfs == proofs {
                continue;
            }
            rep.eval();
            rep.nontrivial(&(tag.clone(), "invalid-inner", pos, label.clone(), hash_of(&prfs)));
            match a.aggregate(&inst, &prfs, rng.gen()) {
                Err(e) => {
                    let how = if e.starts_with("panic") { "panic" } else { "error" };
                    rep.count(&format!("agg.invalid-inner.aggregate-refuses-by-{how}[{label}]"));
                }
                Ok(bytes) => {
                    rep.count(&format!("agg.invalid-inner.aggregate-produces-proof[{label}]"));
                    let (o, _, _) = a.verify(&inst, &bytes);
                    report_outcome(
                        rep,
                        &a,
                        src.name(),
                        &format!("an aggregate produced by aggregate_proofs over an invalid inner proof at position {pos} ({label})"),
                        "accepts-invalid-inner",
                        "aggregate-over-invalid-inner",
                        &format!("invalid-inner:{label}"),
                        &inst,
                        &bytes,
                        o,
                        json!({"position": pos, "inner_proofs": prfs.iter().map(hex::encode).collect::<Vec<_>>()}),
                    );
                }
            }
        }
    }

    // ---- the malicious aggregator: false inner statements, one extra rhs base ------------------
    {
        let false_inst: Vec<Vec<F>> = instances
            .iter()
            .map(|v| {
                let mut v = v.clone();
                v[0] += F::ONE;
                v
            })
            .collect();
        let probe_inst = false_inst[0].clone();
        let last_point = |p: &[u8]| -> Option<(usize, usize)> {
            let _ = take_elements();
            let mut t = LoggedTranscript::<MirrorFS>::init_from_bytes(p);
            let _ = prepare::<F, KZGCommitmentScheme<Bls12>, _>(src.vk().vk(), &[&[C::identity()]], &[&[&probe_inst]], &mut t);
            let els = take_elements();
            els.iter().rev().find(|e| e.kind == 'P').map(|e| (e.offset, e.len))
        };
        let mut t = SecT::init();
        let r = catch_any(|| {
            crate::forge::forge::<N, SecT>(&a.srs, src.vk().vk(), &false_inst, &proofs, last_point, rng.gen(), &mut t)
        });
        let _ = take_elements();
        let _ = take_marks();
        rep.eval();
        match r {
            Ok(Ok(fg)) => {
                let bytes = t.finalize();
                if fg.inner_valid.iter().any(|v| *v) {
                    rep.inconclusive(&format!("[{tag}] forged inner proof unexpectedly valid"));
                } else {
                    rep.count("agg.forged-aggregate.built");
                    rep.nontrivial(&(tag.clone(), "forged-aggregate"));
                    let (o, _, _) = a.verify(&false_inst, &bytes);
                    report_outcome(
                        rep,
                        &a,
                        src.name(),
                        &format!(
                            "a forged aggregate over {N} INVALID inner proofs (stated public inputs differ from the proven ones; prover appends one extra right-hand-side base whose public-input cell the aggregator circuit does not bind)"
                        ),
                        "accepts-invalid-inner forged-aggregate rhs-base-count-unchecked",
                        "forged-aggregate",
                        "forged-aggregate",
                        &false_inst,
                        &bytes,
                        o,
                        json!({"inner_proofs": fg.inner_proofs.iter().map(hex::encode).collect::<Vec<_>>(), "inner_proofs_valid": fg.inner_valid}),
                    );
                }
            }
            Ok(Err(e)) => {
                rep.count("agg.forged-aggregate.not-applicable");
                rep.set(&format!("forged_aggregate_note[{tag}]"), json!(e));
            }
            Err(p) => {
                rep.count("agg.forged-aggregate.harness-panic");
                rep.set(&format!("forged_aggregate_note[{tag}]"), json!(format!("panic {} at {}", p.message, p.location)));
            }
        }
    }

    Some(AggStats {
        n: N,
        init_s: a.init_s,
        prove_inner_s,
        aggregate_s,
        verify_ms,
        proof_len: proof.len(),
        elements: els.len(),
    })
}

/// Replays one aggregator witness: rebuilds the aggregator (key generation is deterministic) and
/// verifies the recorded bytes against the recorded instances.
pub fn replay_n<const N: usize>(src: &dyn InnerSource, w: &Json) -> Result<String, String> {
    let a = init_agg::<N>(src)?;
    if w["part"].as_str() == Some("aggregator-aggregate") {
        let instances: Vec<Vec<F>> = w["instances"]
            .as_array()
            .ok_or("instances")?
            .iter()
            .map(|v| v.as_array().map(|x| x.iter().filter_map(|s| s.as_str().and_then(unhexf)).collect()).unwrap_or_default())
            .collect();
        let proofs: Vec<Vec<u8>> =
            w["inner_proofs"].as_array().ok_or("inner_proofs")?.iter().filter_map(|s| s.as_str().and_then(|h| hex::decode(h).ok())).collect();
        return Ok(match a.aggregate(&instances, &proofs, 1) {
            Ok(b) => format!("aggregate_proofs Ok ({} bytes); verify: {:?}", b.len(), a.verify(&instances, &b).0),
            Err(e) => format!("aggregate_proofs fails: {e}"),
        });
    }
    let instances: Vec<Vec<F>> = w["instances"]
        .as_array()
        .ok_or("instances")?
        .iter()
        .map(|v| v.as_array().map(|x| x.iter().filter_map(|s| s.as_str().and_then(unhexf)).collect()).unwrap_or_default())
        .collect();
    let proof = hex::decode(w["aggregated_proof"].as_str().ok_or("aggregated_proof")?).map_err(|e| e.to_string())?;
    let (o, _, _) = a.verify(&instances, &proof);
    Ok(format!("{o:?}"))
}
