//! C20 part (e): in-circuit `AssignedAccumulator::accumulate` (+ `collapse`) against the off-circuit
//! `Accumulator::accumulate` (+ `collapse`). The circuit witnesses n accumulators of given shapes
//! (different numbers of variable bases, different fixed-base name sets — incl. the library's own
//! name list of a key with 11 + 12 commitments, which is not in lexicographic order), folds them
//! and exposes the result; the instance is the encoding of the off-circuit fold.
//!  * the honest run must be accepted (reference evaluator + MockProver) and must bind exactly that
//!    encoding (read back through the copy constraints of the instance column);
//!  * every sampled position edited (+1) must be rejected.

use ff::Field;
use group::Group;
use midnight_circuits::{
    types::Instantiable,
    verifier::{Accumulator, AssignedAccumulator},
};
use midnight_proofs::{circuit::Value, dev::MockProver, plonk::k_from_circuit};
use mzv::{
    common::*,
    engines::{
        catalogue::{bound_instance, bound_len},
        ref_eval::{collect, CollectOpts},
    },
};
use rand::Rng;
use serde_json::json;

#[allow(dead_code)]
#[path = "../c08_ops/verif.rs"]
mod verif;
use verif::*;

fn hexf(f: &F) -> String {
    hex::encode(f.to_bytes_le())
}

fn member(kind: usize, idx: usize, rng: &mut rand_chacha::ChaCha8Rng) -> (Shape, Accumulator<S>) {
    let g = C::generator();
    let names = |p: &str, n: usize| (0..n).map(|i| format!("{p}_{i}")).collect::<Vec<_>>();
    let (lhs_len, rhs_len, lhs_names, rhs_names): (usize, usize, Vec<String>, Vec<String>) = match kind % 5 {
        // shared "-G" plus own names (accumulators of proofs of different verifying keys)
        0 => (1, 1, vec![], [vec!["-G".to_string()], names(&format!("vk{idx}_fixed_com"), 2)].concat()),
        // the library's list for a key with 11 + 12 commitments (numeric, not lexicographic order)
        1 => (1, 1, vec![], midnight_circuits::verifier::fixed_base_names::<S>("big", 11, 12)),
        // the same key for every member: every name is shared
        2 => (1, 2, vec![], [vec!["-G".to_string()], names("same_fixed_com", 3)].concat()),
        // names on both sides, no variable base on the left
        3 => (0, 1, names("l", 2), names(&format!("r{idx}"), 1)),
        _ => (2, 1, vec![], vec![]),
    };
    let pts: Vec<C> = (0..lhs_len + rhs_len).map(|_| g * F::random(&mut *rng)).collect();
    let scs: Vec<F> = (0..lhs_len + rhs_len).map(|i| if i == 0 && kind % 2 == 0 { F::ONE } else { F::random(&mut *rng) }).collect();
    let fl: Vec<F> = (0..lhs_names.len()).map(|_| F::random(&mut *rng)).collect();
    let fr: Vec<F> = (0..rhs_names.len()).map(|i| if i == 1 { F::ZERO } else { F::random(&mut *rng) }).collect();
    let lhs = msm_of(&pts[..lhs_len], &scs[..lhs_len], &lhs_names, &fl);
    let rhs = msm_of(&pts[lhs_len..], &scs[lhs_len..], &rhs_names, &fr);
    (Shape { lhs_len, rhs_len, lhs_names, rhs_names }, Accumulator::<S>::new(lhs, rhs))
}

pub fn run(ctx: &Ctx, rep: &mut Report) {
    let mut rng = ctx.rng("c20-fold");
    // (member kinds, collapse)
    let mut plans: Vec<(Vec<usize>, bool)> = vec![(vec![0, 0], false), (vec![0, 1, 0], true), (vec![2, 2, 2, 2], false), (vec![0, 3, 4, 0], true)];
    if ctx.tier == Tier::Thorough {
        plans.extend([
            (vec![1, 1], false),
            (vec![0, 0, 0, 0, 0], true),
            (vec![4, 3], true),
            (vec![2, 0, 2, 0, 1], false),
            (vec![3, 3, 3], false),
            (vec![0, 2, 4, 1], true),
        ]);
        for _ in 0..6 {
            let n = rng.gen_range(2..=5);
            plans.push(((0..n).map(|_| rng.gen_range(0..5)).collect(), rng.gen()));
        }
    }
    use rayon::prelude::*;
    let forks: Vec<Report> = plans.iter().map(|_| rep.fork()).collect();
    let parts: Vec<Report> = plans
        .into_par_iter()
        .zip(forks)
        .enumerate()
        .map(|(i, ((kinds, collapse), mut part))| {
            let mut rng = ctx.rng(&format!("c20-fold-{i}"));
            run_plan(ctx, kinds, collapse, &mut rng, &mut part);
            part
        })
        .collect();
    for p in parts {
        rep.merge(p);
    }
}

fn run_plan(ctx: &Ctx, kinds: Vec<usize>, collapse: bool, rng: &mut rand_chacha::ChaCha8Rng, rep: &mut Report) {
    {
        let members: Vec<(Shape, Accumulator<S>)> = kinds.iter().enumerate().map(|(i, k)| member(*k, i, rng)).collect();
        let label = format!("fold{kinds:?}{}", if collapse { "+collapse" } else { "" });
        let wit = json!({"members": kinds, "collapse": collapse, "shapes": members.iter().map(|m| format!("{:?}", m.0)).collect::<Vec<_>>()});
        rep.eval();
        // off-circuit side
        let accs: Vec<Accumulator<S>> = members.iter().map(|m| m.1.clone()).collect();
        let off = catch_any(|| {
            let mut a = Accumulator::<S>::accumulate(&accs);
            if collapse {
                a.collapse();
            }
            AssignedAccumulator::<S>::as_public_input(&a)
        });
        let expected = match off {
            Ok(e) => e,
            Err(p) => {
                rep.violation(
                    &format!("C20/accumulator/fold/offcircuit-panic@{}", repo_file(&p.file)),
                    &format!("off-circuit accumulate/collapse panics: {}", p.message),
                    wit,
                );
                return;
            }
        };
        let circuit = VerifCircuit {
            mode: Mode::Fold {
                members: members.iter().map(|(s, a)| (s.clone(), Value::known(a.clone()))).collect(),
                collapse,
            },
        };
        let k = match catch_any(|| k_from_circuit(&circuit)) {
            Ok(k) => k,
            Err(p) => {
                rep.violation(
                    &format!("C20/accumulator/fold/synthesis-panic@{}", repo_file(&p.file)),
                    &format!("in-circuit accumulate panics on admissible accumulators ({label}): {}", p.message),
                    wit,
                );
                return;
            }
        };
        let inst = vec![vec![], expected.clone()];
        let tables = match catch_any(|| collect::<F, _>(k, &circuit, &inst, CollectOpts::default())) {
            Ok(Ok(t)) => t,
            Ok(Err(e)) => {
                rep.violation("C20/accumulator/fold/synthesis-error", &format!("in-circuit accumulate fails on admissible accumulators ({label}): {e}"), wit);
                return;
            }
            Err(p) => {
                rep.violation(
                    &format!("C20/accumulator/fold/synthesis-panic@{}", repo_file(&p.file)),
                    &format!("in-circuit accumulate panics on admissible accumulators ({label}): {}", p.message),
                    wit,
                );
                return;
            }
        };
        rep.nontrivial(&("fold", kinds.clone(), collapse));
        let bound = bound_instance(&tables, 1, &expected);
        let n_bound = bound_len(&tables, 1);
        if n_bound != expected.len() || bound != expected {
            let first = (0..bound.len().max(expected.len())).find(|i| bound.get(*i) != expected.get(*i));
            let mut w = wit.clone();
            w["first_differing_position"] = json!(first);
            w["circuit_binds"] = json!(first.and_then(|i| bound.get(i)).map(hexf));
            w["offcircuit"] = json!(first.and_then(|i| expected.get(i)).map(hexf));
            w["bound_len"] = json!(n_bound);
            w["expected_len"] = json!(expected.len());
            rep.violation(
                "C20/accumulator/fold/in-circuit-differs-from-offcircuit",
                &format!("the accumulator the circuit derives with AssignedAccumulator::accumulate differs from Accumulator::accumulate ({label}) at position {first:?}"),
                w,
            );
            return;
        }
        let fails = tables.violations(4);
        if !fails.is_empty() {
            rep.violation(
                "C20/accumulator/fold/rejects-honest",
                &format!("fold circuit unsatisfied with the off-circuit fold as instance ({label}): {fails:?}"),
                wit,
            );
            return;
        }
        match catch_any(|| MockProver::<F>::run(k, &circuit, inst.clone()).map(|m| m.verify().is_ok()).map_err(|e| format!("{e:?}"))) {
            Ok(Ok(true)) => rep.count(&format!("fold.accepted[n={}{}]", kinds.len(), if collapse { ",collapse" } else { "" })),
            other => {
                rep.violation(
                    "C20/accumulator/fold/mock-rejects-honest",
                    &format!("MockProver rejects the fold the reference evaluator accepts ({label}): {:?}", other.map_err(|p| p.message)),
                    wit,
                );
                return;
            }
        }
        // edited positions
        let n_edit = ctx.tier.pick(4usize, 12usize).min(expected.len());
        let mut t = tables;
        for _ in 0..n_edit {
            let pos = rng.gen_range(0..expected.len());
            rep.eval();
            let old = t.instance[1][pos];
            t.instance[1][pos] = old + F::ONE;
            let rejected = !t.violations(1).is_empty();
            t.instance[1][pos] = old;
            if rejected {
                rep.count("fold.edit.rejected");
            } else {
                let mut w = wit.clone();
                w["edited_position"] = json!(pos);
                rep.violation("C20/accumulator/fold/accepts-edited-instance", &format!("fold circuit accepts the instance with position {pos} incremented ({label})"), w);
            }
        }
    }
}
