//! C20 part (d): the malicious aggregator.
//!
//! `LightAggregator::verify` reads the number of right-hand-side bases of the accumulator from the
//! aggregated proof and never compares it with the number the aggregator circuit binds. This
//! module plays the prover that exploits it: it aggregates *invalid* inner statements, appends
//! one extra base E to the right-hand side (its public-input cell lies beyond the cells the
//! circuit constrains, so the circuit proof stays valid) and chooses E such that the shifted
//! inner product `<committed scalars, rhs bases ‖ E ‖ fixed bases>` equals the value that makes
//! the pairing check pass. Everything verifier-side is the repository's `LightAggregator::verify`;
//! the prover side re-creates the aggregator's private circuit, fake curve chip and `ipa_prove`
//! from public items (key generation is deterministic, so the re-created circuit has the
//! aggregator's verifying key; if it ever differs the forged proof is simply rejected and the run
//! reports that the attack was not applicable).

use std::{cell::RefCell, rc::Rc};

use ff::Field;
use group::{Curve, Group};
use midnight_circuits::{
    field::{
        native::{NB_ARITH_COLS, NB_ARITH_FIXED_COLS},
        AssignedNative, NativeChip, NativeConfig,
    },
    hash::poseidon::{
        PoseidonChip, PoseidonConfig, NB_POSEIDON_ADVICE_COLS, NB_POSEIDON_FIXED_COLS,
    },
    instructions::{public_input::CommittedInstanceInstructions, AssignmentInstructions, PublicInputInstructions},
    types::{ComposableChip, InnerValue, Instantiable},
    verifier::{
        self, Accumulator, AssignedAccumulator, AssignedVk, SelfEmulation, VerifierGadget,
    },
};
use midnight_curves::{msm::msm_best, Bls12, Fq, G1Affine, G1Projective, G2Affine};
use midnight_proofs::{
    circuit::{Layouter, SimpleFloorPlanner, Value},
    plonk::{self, commit_to_instances, create_proof, keygen_pk, keygen_vk, Circuit, ConstraintSystem, Error},
    poly::{
        commitment::PolynomialCommitmentScheme,
        kzg::{params::ParamsKZG, KZGCommitmentScheme},
        EvaluationDomain,
    },
    transcript::{CircuitTranscript, Hashable, Sampleable, Transcript},
};
use rand::SeedableRng;
use rand_chacha::ChaCha8Rng;

use crate::aggregator::MirrorFS;

type F = Fq;
type C = G1Projective;
type E = Bls12;
type CS = KZGCommitmentScheme<E>;
type Vk = plonk::VerifyingKey<F, CS>;

// ---- re-creation of the private fake curve chip --------------------------------------------

#[derive(Clone, Debug, PartialEq, Eq)]
pub struct FakePoint {
    pieces: Vec<AssignedNative<F>>,
    public: Rc<RefCell<bool>>,
}

impl Instantiable<F> for FakePoint {
    fn as_public_input(p: &C) -> Vec<F> {
        <C as Hashable<MirrorFS>>::to_input(p)
    }
}

impl InnerValue for FakePoint {
    type Element = C;
    fn value(&self) -> Value<C> {
        unimplemented!()
    }
}

#[derive(Clone, Debug)]
pub struct FakeCurveChip {
    scalar_chip: NativeChip<F>,
    public_points: Rc<RefCell<Vec<FakePoint>>>,
}

impl FakeCurveChip {
    fn new(scalar_chip: &NativeChip<F>) -> Self {
        Self {
            scalar_chip: scalar_chip.clone(),
            public_points: Rc::new(RefCell::new(Vec::new())),
        }
    }
}

impl AssignmentInstructions<F, FakePoint> for FakeCurveChip {
    fn assign(&self, layouter: &mut impl Layouter<F>, value: Value<C>) -> Result<FakePoint, Error> {
        let l = <C as Hashable<MirrorFS>>::to_input(&C::generator()).len();
        let pieces_val = value.map(|p| <C as Hashable<MirrorFS>>::to_input(&p)).transpose_vec(l);
        let p = FakePoint {
            pieces: self.scalar_chip.assign_many(layouter, &pieces_val)?,
            public: Rc::new(RefCell::new(false)),
        };
        self.public_points.borrow_mut().push(p.clone());
        Ok(p)
    }

    fn assign_fixed(&self, layouter: &mut impl Layouter<F>, constant: C) -> Result<FakePoint, Error> {
        let pieces_val = <C as Hashable<MirrorFS>>::to_input(&constant);
        let p = FakePoint {
            pieces: self.scalar_chip.assign_many_fixed(layouter, &pieces_val)?,
            public: Rc::new(RefCell::new(true)),
        };
        self.public_points.borrow_mut().push(p.clone());
        Ok(p)
    }
}

impl PublicInputInstructions<F, FakePoint> for FakeCurveChip {
    fn as_public_input(&self, _l: &mut impl Layouter<F>, point: &FakePoint) -> Result<Vec<AssignedNative<F>>, Error> {
        Ok(point.pieces.clone())
    }

    fn constrain_as_public_input(&self, layouter: &mut impl Layouter<F>, point: &FakePoint) -> Result<(), Error> {
        *point.public.borrow_mut() = true;
        point.pieces.iter().try_for_each(|x| self.scalar_chip.constrain_as_public_input(layouter, x))
    }

    fn assign_as_public_input(&self, layouter: &mut impl Layouter<F>, value: Value<C>) -> Result<FakePoint, Error> {
        let p = self.assign(layouter, value)?;
        self.constrain_as_public_input(layouter, &p)?;
        Ok(p)
    }
}

#[derive(Clone, Debug)]
pub struct LightEmu {}

impl SelfEmulation for LightEmu {
    type F = F;
    type C = C;
    type AssignedPoint = FakePoint;
    type Hash = MirrorFS;
    type ScalarChip = NativeChip<F>;
    type CurveChip = FakeCurveChip;
    type SpongeChip = PoseidonChip<F>;
    type G1Affine = G1Affine;
    type G2Affine = G2Affine;
    type Engine = Bls12;

    fn msm(
        _l: &mut impl Layouter<F>,
        _c: &FakeCurveChip,
        _s: &[(AssignedNative<F>, usize)],
        _b: &[FakePoint],
    ) -> Result<FakePoint, Error> {
        unimplemented!()
    }

    fn constrain_scalar_as_committed_public_input(
        layouter: &mut impl Layouter<F>,
        scalar_chip: &NativeChip<F>,
        assigned_scalar: &AssignedNative<F>,
    ) -> Result<(), Error> {
        scalar_chip.constrain_as_committed_public_input(layouter, assigned_scalar)
    }
}

type S = LightEmu;

// ---- re-creation of the private aggregator circuit ------------------------------------------

#[derive(Clone, Debug)]
struct AggCircuit<const N: usize> {
    inner_vk: (EvaluationDomain<F>, ConstraintSystem<F>, Value<F>),
    instances: Value<[[F; 2]; N]>,
    proofs: [Value<Vec<u8>>; N],
}

impl<const N: usize> Circuit<F> for AggCircuit<N> {
    type Config = (NativeConfig, PoseidonConfig<F>);
    type FloorPlanner = SimpleFloorPlanner;
    type Params = ();

    fn without_witnesses(&self) -> Self {
        unreachable!()
    }

    fn configure(meta: &mut ConstraintSystem<F>) -> Self::Config {
        let nb_advice_cols = std::cmp::max(NB_ARITH_COLS, NB_POSEIDON_ADVICE_COLS);
        let nb_fixed_cols = std::cmp::max(NB_ARITH_FIXED_COLS, NB_POSEIDON_FIXED_COLS);
        let advice_columns: Vec<_> = (0..nb_advice_cols).map(|_| meta.advice_column()).collect();
        let fixed_columns: Vec<_> = (0..nb_fixed_cols).map(|_| meta.fixed_column()).collect();
        let committed_instance_column = meta.instance_column();
        let instance_column = meta.instance_column();
        let native_config = NativeChip::configure(
            meta,
            &(
                advice_columns[..NB_ARITH_COLS].try_into().unwrap(),
                fixed_columns[..NB_ARITH_FIXED_COLS].try_into().unwrap(),
                [committed_instance_column, instance_column],
            ),
        );
        let poseidon_config = PoseidonChip::configure(
            meta,
            &(
                advice_columns[..NB_POSEIDON_ADVICE_COLS].try_into().unwrap(),
                fixed_columns[..NB_POSEIDON_FIXED_COLS].try_into().unwrap(),
            ),
        );
        (native_config, poseidon_config)
    }

    fn synthesize(&self, config: Self::Config, mut layouter: impl Layouter<F>) -> Result<(), Error> {
        let scalar_chip = NativeChip::new(&config.0, &());
        let sponge_chip = PoseidonChip::new(&config.1, &scalar_chip);
        let fake_curve_chip = FakeCurveChip::new(&scalar_chip);
        let verifier_chip = VerifierGadget::<S>::new(&fake_curve_chip, &scalar_chip, &sponge_chip);

        let assigned_inner_vk: AssignedVk<S> = verifier_chip.assign_vk_as_public_input(
            &mut layouter,
            "inner_vk",
            &self.inner_vk.0,
            &self.inner_vk.1,
            self.inner_vk.2,
        )?;
        let identity_point = fake_curve_chip.assign_fixed(&mut layouter, C::identity())?;

        let proof_accs = (self.instances.transpose_array().iter())
            .zip(self.proofs.iter())
            .map(|(instances, proof)| {
                let assigned_instances: Vec<AssignedNative<F>> = instances
                    .transpose_array()
                    .iter()
                    .map(|instance| scalar_chip.assign_as_public_input(&mut layouter, *instance))
                    .collect::<Result<Vec<_>, Error>>()?;
                verifier_chip.prepare(
                    &mut layouter,
                    &assigned_inner_vk,
                    std::slice::from_ref(&identity_point),
                    &[&assigned_instances],
                    proof.clone(),
                )
            })
            .collect::<Result<Vec<_>, Error>>()?;

        let acc = AssignedAccumulator::<S>::accumulate(&mut layouter, &verifier_chip, &scalar_chip, &sponge_chip, &proof_accs)?;
        verifier_chip.constrain_acc_as_public_input_with_committed_scalars(&mut layouter, &acc)?;
        scalar_chip.load(&mut layouter)?;
        sponge_chip.load(&mut layouter)
    }
}

// ---- the prover's copy of the inner-product argument -----------------------------------------

fn ip(scalars: &[F], bases: &[C]) -> C {
    let mut aff = vec![G1Affine::default(); bases.len()];
    C::batch_normalize(bases, &mut aff);
    msm_best(scalars, &aff)
}

fn ipa_prove<T>(scalars: &[F], bases1: &[C], bases2: &[C], res1: &C, res2: &C, transcript: &mut T) -> Result<(), String>
where
    T: Transcript,
    C: Hashable<T::Hash>,
    F: Sampleable<T::Hash> + Hashable<T::Hash>,
{
    let e = |x: std::io::Error| x.to_string();
    let k = scalars.len().trailing_zeros() as usize;
    bases1.iter().try_for_each(|b| transcript.common(b)).map_err(e)?;
    bases2.iter().try_for_each(|b| transcript.common(b)).map_err(e)?;
    transcript.common(res1).map_err(e)?;
    transcript.common(res2).map_err(e)?;
    let r: F = transcript.squeeze_challenge();
    let mut b: Vec<C> = bases1.iter().zip(bases2).map(|(x, y)| *x + *y * r).collect();
    let mut s = scalars.to_vec();
    for _ in 0..k {
        let half = s.len() / 2;
        let l = ip(&s[..half], &b[half..]);
        let rr = ip(&s[half..], &b[..half]);
        transcript.write(&l).map_err(e)?;
        transcript.write(&rr).map_err(e)?;
        let u: F = transcript.squeeze_challenge();
        let ui = u.invert().unwrap();
        s = (0..half).map(|i| s[i] * u + s[half + i] * ui).collect();
        b = (0..half).map(|i| b[half + i] * u + b[i] * ui).collect();
    }
    transcript.write(&s[0]).map_err(e)
}

// ---- the forgery -----------------------------------------------------------------------------

pub struct Forged {
    /// inner proofs after the replacement of their last point (not valid for `instances`)
    pub inner_proofs: Vec<Vec<u8>>,
    pub inner_valid: Vec<bool>,
}

/// Builds an aggregated proof for `instances` (false statements) over `inner_proofs` (any bytes
/// that parse). `srs` is the aggregator's SRS after `LightAggregator::init`.
pub fn forge<const N: usize, T>(
    srs: &ParamsKZG<E>,
    inner_vk: &Vk,
    instances: &[Vec<F>],
    inner_proofs: &[Vec<u8>],
    last_point_of: impl Fn(&[u8]) -> Option<(usize, usize)>,
    seed: u64,
    transcript: &mut T,
) -> Result<Forged, String>
where
    T: Transcript,
    C: Hashable<T::Hash>,
    F: Sampleable<T::Hash> + Hashable<T::Hash>,
    u32: Hashable<T::Hash>,
{
    let mut rng = ChaCha8Rng::seed_from_u64(seed);
    let fixed_bases = verifier::fixed_bases::<S>("inner_vk", inner_vk);
    let vp = srs.verifier_params();

    // [tau]G from the SRS: the commitment to the polynomial X
    let tau_g: C = {
        let dom = EvaluationDomain::<F>::new(2, 2);
        let mut x = dom.empty_coeff();
        x[1] = F::ONE;
        <CS as PolynomialCommitmentScheme<F>>::commit(srs, &x)
    };

    // inner proofs: the final opening proof point replaced by a_i * G (a_i known)
    let mut proofs = inner_proofs.to_vec();
    let mut dlogs = vec![];
    let mut accs = vec![];
    let mut inner_valid = vec![];
    for (i, p) in proofs.iter_mut().enumerate() {
        let (off, len) = last_point_of(p).ok_or("inner proof layout")?;
        let a = F::random(&mut rng);
        let enc = <C as Hashable<MirrorFS>>::to_bytes(&(C::generator() * a));
        if enc.len() != len {
            return Err("point encoding length".into());
        }
        p[off..off + len].copy_from_slice(&enc);
        dlogs.push(a);
        let mut t = CircuitTranscript::<MirrorFS>::init_from_bytes(p);
        let dual = plonk::prepare::<F, CS, CircuitTranscript<MirrorFS>>(inner_vk, &[&[C::identity()]], &[&[&instances[i]]], &mut t)
            .map_err(|e| format!("forged inner proof {i} does not parse: {e:?}"))?;
        inner_valid.push(dual.clone().check(&vp));
        accs.push(Accumulator::<S>::from_dual_msm(dual, "inner_vk", &fixed_bases));
    }
    let acc = Accumulator::<S>::accumulate(&accs);
    if acc.check(&srs.s_g2().into(), &fixed_bases) {
        return Err("the combined accumulator of the invalid inner proofs is valid (nothing to forge)".into());
    }

    // discrete logarithm of the left-hand side w.r.t. G: every lhs base is one of our a_i * G
    let lhs_bases = acc.lhs().bases();
    let lhs_scalars = acc.lhs().scalars();
    let mut a_lhs = F::ZERO;
    for (b, s) in lhs_bases.iter().zip(&lhs_scalars) {
        let a = dlogs.iter().find(|a| C::generator() * **a == *b).ok_or("lhs base is not a replaced opening point")?;
        a_lhs += *a * *s;
    }
    if !acc.lhs().fixed_base_scalars().is_empty() {
        return Err("lhs has fixed-base scalars".into());
    }
    // the value the verifier needs: e(lhs, [tau]_2) = e(target, [1]_2)
    let target = tau_g * a_lhs;

    // committed scalars exactly as the circuit binds them
    let (acc_normal, acc_committed) = AssignedAccumulator::<S>::as_public_input_with_committed_scalars(&acc);
    let rhs_bases = acc.rhs().bases();
    let fb: Vec<C> = fixed_bases.values().cloned().collect();
    let n = rhs_bases.len();
    let f = fb.len();
    if acc_committed.len() != n + f {
        return Err("unexpected committed scalar layout".into());
    }
    // bases as the verifier will see them: rhs ‖ E ‖ fixed; scalars: committed ‖ 0
    // <scalars, bases> = sum_{i<n} s_i B_i + s_n E + sum_{l<f-1} s_{n+1+l} FB_l + 0 * FB_{f-1}
    let s_n = acc_committed[n];
    if bool::from(s_n.is_zero()) {
        return Err("scalar meeting the extra base is zero".into());
    }
    let mut rest_b = rhs_bases.clone();
    rest_b.extend(fb[..f - 1].iter().cloned());
    let mut rest_s = acc_committed[..n].to_vec();
    rest_s.extend(acc_committed[n + 1..].iter().cloned());
    let rest = ip(&rest_s, &rest_b);
    let extra = (target - rest) * s_n.invert().unwrap();

    // the circuit proof, with the public input of E appended beyond the bound cells
    let circuit0 = AggCircuit::<N> {
        inner_vk: (inner_vk.get_domain().clone(), inner_vk.cs().clone(), Value::unknown()),
        instances: Value::unknown(),
        proofs: vec![Value::unknown(); N].try_into().unwrap(),
    };
    let vk = keygen_vk(srs, &circuit0).map_err(|e| format!("{e:?}"))?;
    let pk = keygen_pk(vk.clone(), &circuit0).map_err(|e| format!("{e:?}"))?;
    let inst_arr: [[F; 2]; N] = instances
        .iter()
        .map(|v| <[F; 2]>::try_from(v.clone()).map_err(|_| "two public inputs"))
        .collect::<Result<Vec<_>, _>>()?
        .try_into()
        .map_err(|_| "arity")?;
    let circuit = AggCircuit::<N> {
        inner_vk: (inner_vk.get_domain().clone(), inner_vk.cs().clone(), Value::known(inner_vk.transcript_repr())),
        instances: Value::known(inst_arr),
        proofs: proofs.iter().cloned().map(Value::known).collect::<Vec<_>>().try_into().map_err(|_| "arity")?,
    };
    let mut agg_inst = AssignedVk::<S>::as_public_input(inner_vk);
    instances.iter().for_each(|v| agg_inst.extend(v));
    agg_inst.extend(acc_normal);
    agg_inst.extend(<FakePoint as Instantiable<F>>::as_public_input(&extra));

    let sigma = commit_to_instances::<F, CS>(srs, vk.get_domain(), &acc_committed);

    let io = |x: std::io::Error| x.to_string();
    transcript.write(&(lhs_bases.len() as u32)).map_err(io)?;
    lhs_bases.iter().try_for_each(|p| transcript.write(p)).map_err(io)?;
    lhs_scalars.iter().try_for_each(|s| transcript.write(s)).map_err(io)?;
    transcript.write(&((n + 1) as u32)).map_err(io)?;
    rhs_bases.iter().try_for_each(|p| transcript.write(p)).map_err(io)?;
    transcript.write(&extra).map_err(io)?;
    transcript.write(&sigma).map_err(io)?;
    transcript.write(&target).map_err(io)?;

    create_proof::<F, CS, T, AggCircuit<N>>(srs, &pk, &[circuit], 1, &[&[&acc_committed, &agg_inst]], &mut rng, transcript)
        .map_err(|e| format!("create_proof for the aggregator circuit: {e:?}"))?;

    let mut bases1 = rhs_bases;
    bases1.push(extra);
    bases1.extend(fb);
    if bases1.len() > srs.g_lagrange().len() {
        return Err("not enough Lagrange commitments".into());
    }
    let mut bases2 = srs.g_lagrange()[..bases1.len()].to_vec();
    let mut scalars = acc_committed.clone();
    let k = bases1.len().next_power_of_two();
    bases1.resize(k, C::identity());
    bases2.resize(k, C::identity());
    scalars.resize(k, F::ZERO);
    debug_assert_eq!(ip(&scalars, &bases1), target);
    ipa_prove(&scalars, &bases1, &bases2, &target, &sigma, transcript)?;

    Ok(Forged {
        inner_proofs: proofs,
        inner_valid,
    })
}
