//! C20 part (a): `VerifierGadget<BlstrsEmulation>` against the off-circuit verifier.
//!
//! The outer circuit is the in-tree `TestCircuit` of `verifier_gadget.rs`, re-created from public
//! items only (generalised to any number of inner public inputs). One *verifier-circuit run* is one
//! witness (inner proof bytes + inner public inputs) synthesised once by the reference collector
//! and once by `MockProver::run`; claimed instances are then evaluated on those two tables (the
//! witness of this circuit does not depend on the instance, so editing the instance column of a
//! synthesised table is the same as re-running with another instance).

use std::time::Instant;

use ff::Field;
use group::Group;
use midnight_circuits::{
    ecc::{
        curves::CircuitCurve,
        foreign::{nb_foreign_ecc_chip_columns, ForeignEccChip, ForeignEccConfig},
    },
    field::{
        decomposition::{
            chip::{P2RDecompositionChip, P2RDecompositionConfig},
            pow2range::Pow2RangeChip,
        },
        foreign::FieldChip,
        native::NB_ARITH_COLS,
        NativeChip, NativeConfig, NativeGadget,
    },
    hash::poseidon::{
        PoseidonChip, PoseidonConfig, PoseidonState, NB_POSEIDON_ADVICE_COLS,
        NB_POSEIDON_FIXED_COLS,
    },
    instructions::{
        hash::{HashCPU, HashInstructions},
        AssignmentInstructions, PublicInputInstructions,
    },
    testing_utils::FromScratch,
    types::{ComposableChip, Instantiable},
    verifier::{
        self, Accumulator, AssignedAccumulator, AssignedVk, BlstrsEmulation, SelfEmulation,
        VerifierGadget,
    },
};
use midnight_proofs::{
    circuit::{Layouter, SimpleFloorPlanner, Value},
    dev::{InstanceValue, MockProver},
    plonk::{
        create_proof, keygen_pk, keygen_vk_with_k, prepare, Circuit, ConstraintSystem, Error,
        VerifyingKey,
    },
    poly::{kzg::KZGCommitmentScheme, EvaluationDomain},
    transcript::{CircuitTranscript, Hashable, Transcript},
};
use midnight_zk_stdlib::{MidnightCircuit, Relation};
use mzv::{
    common::*,
    engines::{
        catalogue::bound_instance,
        logged_hash::{take_elements, Element, LoggedTranscript},
        plonk_util::params_for,
        ref_eval::{collect, CellRef, CollectOpts, Failure, Tables},
        relations::ArithRel,
    },
};
use rand::{Rng, SeedableRng};
use rand_chacha::ChaCha8Rng;
use rayon::prelude::*;
use serde_json::{json, Value as Json};

pub type S = BlstrsEmulation;
pub type F = <S as SelfEmulation>::F;
pub type C = <S as SelfEmulation>::C;
pub type E = <S as SelfEmulation>::Engine;
type CBase = <C as CircuitCurve>::Base;
type NG = NativeGadget<F, P2RDecompositionChip<F>, NativeChip<F>>;
pub type PS = PoseidonState<F>;
pub type CS = KZGCommitmentScheme<E>;
pub type Vk = VerifyingKey<F, CS>;

pub const OUTER_K: u32 = 18;
const VK_NAME: &str = "inner_vk";

pub fn hexf(f: &F) -> String {
    hex::encode(f.to_bytes_le())
}

pub fn unhexf(s: &str) -> Option<F> {
    let b: [u8; 32] = hex::decode(s).ok()?.try_into().ok()?;
    F::from_bytes_le(&b).into()
}

// ---------------------------------------------------------------------------------------------
// Inner circuit 1: the Poseidon pre-image circuit of the in-tree test (chips from scratch)
// ---------------------------------------------------------------------------------------------

#[derive(Clone, Debug, Default)]
pub struct PoseidonInner {
    preimage: Value<[F; 2]>,
}

impl Circuit<F> for PoseidonInner {
    type Config = <PoseidonChip<F> as FromScratch<F>>::Config;
    type FloorPlanner = SimpleFloorPlanner;
    type Params = ();

    fn without_witnesses(&self) -> Self {
        Self::default()
    }

    fn configure(meta: &mut ConstraintSystem<F>) -> Self::Config {
        let committed_instance_column = meta.instance_column();
        let instance_column = meta.instance_column();
        PoseidonChip::configure_from_scratch(meta, &[committed_instance_column, instance_column])
    }

    fn synthesize(&self, config: Self::Config, mut layouter: impl Layouter<F>) -> Result<(), Error> {
        let native_chip = NativeChip::new_from_scratch(&config.0);
        let poseidon_chip = PoseidonChip::new_from_scratch(&config);
        let inputs = native_chip.assign_many(&mut layouter, &self.preimage.transpose_array())?;
        let output = poseidon_chip.hash(&mut layouter, &inputs)?;
        native_chip.constrain_as_public_input(&mut layouter, &output)?;
        native_chip.load_from_scratch(&mut layouter)?;
        poseidon_chip.load_from_scratch(&mut layouter)
    }
}

// ---------------------------------------------------------------------------------------------
// Outer circuit: the in-tree TestCircuit, any number of inner public inputs
// ---------------------------------------------------------------------------------------------

#[derive(Clone, Debug)]
pub struct OuterCircuit {
    inner_vk: (EvaluationDomain<F>, ConstraintSystem<F>, Value<F>),
    inner_committed_instance: Value<C>,
    inner_instances: Vec<Value<F>>,
    /// further plain instance columns of the inner circuit (after the first)
    inner_extra: Vec<Vec<Value<F>>>,
    inner_proof: Value<Vec<u8>>,
}

impl OuterCircuit {
    pub fn new(vk: &Vk, pi: &[F], extra: &[Vec<F>], proof: &[u8]) -> Self {
        OuterCircuit {
            inner_vk: (vk.get_domain().clone(), vk.cs().clone(), Value::known(vk.transcript_repr())),
            inner_committed_instance: Value::known(C::identity()),
            inner_instances: pi.iter().map(|x| Value::known(*x)).collect(),
            inner_extra: extra.iter().map(|c| c.iter().map(|x| Value::known(*x)).collect()).collect(),
            inner_proof: Value::known(proof.to_vec()),
        }
    }
}

impl Circuit<F> for OuterCircuit {
    type Config = (NativeConfig, P2RDecompositionConfig, ForeignEccConfig<C>, PoseidonConfig<F>);
    type FloorPlanner = SimpleFloorPlanner;
    type Params = ();

    fn without_witnesses(&self) -> Self {
        unreachable!()
    }

    fn configure(meta: &mut ConstraintSystem<F>) -> Self::Config {
        let nb_advice_cols = nb_foreign_ecc_chip_columns::<F, C, C, NG>();
        let nb_fixed_cols = NB_ARITH_COLS + 4;
        let advice_columns: Vec<_> = (0..nb_advice_cols).map(|_| meta.advice_column()).collect();
        let fixed_columns: Vec<_> = (0..nb_fixed_cols).map(|_| meta.fixed_column()).collect();
        let committed_instance_column = meta.instance_column();
        let instance_column = meta.instance_column();

        let native_config = NativeChip::configure(
            meta,
            &(
                advice_columns[..NB_ARITH_COLS].try_into().unwrap(),
                fixed_columns[..NB_ARITH_COLS + 4].try_into().unwrap(),
                [committed_instance_column, instance_column],
            ),
        );
        let core_decomp_config = {
            let pow2_config = Pow2RangeChip::configure(meta, &advice_columns[1..NB_ARITH_COLS]);
            P2RDecompositionChip::configure(meta, &(native_config.clone(), pow2_config))
        };
        let base_config = FieldChip::<F, CBase, C, NG>::configure(meta, &advice_columns);
        let curve_config =
            ForeignEccChip::<F, C, C, NG, NG>::configure(meta, &base_config, &advice_columns);
        let poseidon_config = PoseidonChip::configure(
            meta,
            &(
                advice_columns[..NB_POSEIDON_ADVICE_COLS].try_into().unwrap(),
                fixed_columns[..NB_POSEIDON_FIXED_COLS].try_into().unwrap(),
            ),
        );
        (native_config, core_decomp_config, curve_config, poseidon_config)
    }

    fn synthesize(&self, config: Self::Config, mut layouter: impl Layouter<F>) -> Result<(), Error> {
        let native_chip = <NativeChip<F> as ComposableChip<F>>::new(&config.0, &());
        let core_decomp_chip = P2RDecompositionChip::new(&config.1, &16);
        let native_gadget = NativeGadget::new(core_decomp_chip.clone(), native_chip.clone());
        let curve_chip = ForeignEccChip::new(&config.2, &native_gadget, &native_gadget);
        let poseidon_chip = PoseidonChip::new(&config.3, &native_chip);

        let verifier_chip = VerifierGadget::<S>::new(&curve_chip, &native_gadget, &poseidon_chip);

        let assigned_inner_vk: AssignedVk<S> = verifier_chip.assign_vk_as_public_input(
            &mut layouter,
            VK_NAME,
            &self.inner_vk.0,
            &self.inner_vk.1,
            self.inner_vk.2,
        )?;
        let assigned_committed_instance =
            curve_chip.assign(&mut layouter, self.inner_committed_instance)?;
        let assigned_inner_pi = native_gadget.assign_many(&mut layouter, &self.inner_instances)?;
        let assigned_extra = self
            .inner_extra
            .iter()
            .map(|c| native_gadget.assign_many(&mut layouter, c))
            .collect::<Result<Vec<Vec<_>>, Error>>()?;
        let mut all_pi: Vec<&[_]> = vec![&assigned_inner_pi];
        all_pi.extend(assigned_extra.iter().map(|c| c.as_slice()));

        let mut inner_proof_acc = verifier_chip.prepare(
            &mut layouter,
            &assigned_inner_vk,
            &[assigned_committed_instance],
            &all_pi,
            self.inner_proof.clone(),
        )?;
        inner_proof_acc.collapse(&mut layouter, &curve_chip, &native_gadget)?;
        verifier_chip.constrain_as_public_input(&mut layouter, &inner_proof_acc)?;
        core_decomp_chip.load(&mut layouter)
    }
}

// ---------------------------------------------------------------------------------------------
// Inner cases
// ---------------------------------------------------------------------------------------------

#[derive(Clone, Debug)]
pub struct InnerCase {
    pub name: String,
    pub k: u32,
    pub vk: Vk,
    pub pi: Vec<F>,
    /// further plain instance columns (after `pi`); empty for all but the multi-column shape
    pub extra: Vec<Vec<F>>,
    pub proof: Vec<u8>,
    /// element boundaries of the inner proof as read by the off-circuit verifier
    pub layout: Vec<Element>,
    pub lookups: usize,
}

fn cols<'a>(pi: &'a [F], extra: &'a [Vec<F>]) -> Vec<&'a [F]> {
    std::iter::once(pi).chain(extra.iter().map(|c| c.as_slice())).collect()
}

fn layout_of(vk: &Vk, pi: &[F], extra: &[Vec<F>], proof: &[u8]) -> Result<Vec<Element>, String> {
    let _ = take_elements();
    let mut t = LoggedTranscript::<PS>::init_from_bytes(proof);
    let r = prepare::<F, CS, LoggedTranscript<PS>>(vk, &[&[C::identity()]], &[&cols(pi, extra)], &mut t);
    let els = take_elements();
    r.map_err(|e| format!("{e:?}"))?;
    t.assert_empty().map_err(|e| format!("{e:?}"))?;
    Ok(els)
}

pub fn poseidon_case(k: u32, seed: u64) -> Result<InnerCase, String> {
    let mut rng = ChaCha8Rng::seed_from_u64(seed);
    let params = params_for(k);
    let vk = keygen_vk_with_k::<F, CS, _>(params, &PoseidonInner::default(), k)
        .map_err(|e| format!("keygen_vk k={k}: {e:?}"))?;
    let pk = keygen_pk(vk.clone(), &PoseidonInner::default()).map_err(|e| format!("{e:?}"))?;
    let preimage = [F::random(&mut rng), F::random(&mut rng)];
    let pi = vec![<PoseidonChip<F> as HashCPU<F, F>>::hash(&preimage)];
    let mut t = CircuitTranscript::<PS>::init();
    create_proof::<F, CS, CircuitTranscript<PS>, PoseidonInner>(
        params,
        &pk,
        &[PoseidonInner {
            preimage: Value::known(preimage),
        }],
        1,
        &[&[&[], &pi]],
        &mut rng,
        &mut t,
    )
    .map_err(|e| format!("create_proof: {e:?}"))?;
    let proof = t.finalize();
    let layout = layout_of(&vk, &pi, &[], &proof)?;
    Ok(InnerCase {
        name: format!("poseidon-scratch/k{k}"),
        k,
        lookups: vk.cs().lookups().len(),
        vk,
        pi,
        extra: vec![],
        proof,
        layout,
    })
}

/// A stdlib relation (`ArithRel`: arithmetic + byte decomposition, so a range-check lookup),
/// proven with the Poseidon transcript, at `k >= min_k`.
pub fn arith_case(k_wish: u32, seed: u64) -> Result<InnerCase, String> {
    let mut rng = ChaCha8Rng::seed_from_u64(seed);
    let rel = ArithRel;
    let min_k = MidnightCircuit::from_relation(&rel).min_k();
    let k = k_wish.max(min_k);
    let params = params_for(k);
    let (inst, wit) = ArithRel::sample(&mut rng);
    let pi = ArithRel::format_instance(&inst).map_err(|e| format!("{e:?}"))?;
    // MidnightCircuit through the generic plonk API so that k can exceed min_k
    let circuit0 = MidnightCircuit::from_relation(&rel);
    let vk = keygen_vk_with_k::<F, CS, _>(params, &circuit0, k).map_err(|e| format!("keygen_vk: {e:?}"))?;
    let pk = keygen_pk(vk.clone(), &circuit0).map_err(|e| format!("{e:?}"))?;
    let circuit = MidnightCircuit::new(&rel, Value::known(inst), Value::known(wit), None);
    let mut t = CircuitTranscript::<PS>::init();
    create_proof::<F, CS, CircuitTranscript<PS>, _>(
        params,
        &pk,
        &[circuit],
        1,
        &[&[&[], &pi]],
        &mut rng,
        &mut t,
    )
    .map_err(|e| format!("create_proof: {e:?}"))?;
    let proof = t.finalize();
    let layout = layout_of(&vk, &pi, &[], &proof)?;
    Ok(InnerCase {
        name: format!("arith-stdlib/k{k}"),
        k,
        lookups: vk.cs().lookups().len(),
        vk,
        pi,
        extra: vec![],
        proof,
        layout,
    })
}

// ---------------------------------------------------------------------------------------------
// Inner circuit 3: public inputs read at non-zero rotations (a shape the stdlib never produces)
// ---------------------------------------------------------------------------------------------

/// Columns [committed instance, instance, advice, fixed selector]; gate
/// `q * (a - Σ_j c_j · pi[rot_j])` with `(rot_j, c_j)` fixed by the variant `V`.
#[derive(Clone, Debug, Default)]
pub struct RotInner<const V: u8> {
    pi: Value<Vec<F>>,
}

pub fn rot_terms(v: u8) -> Vec<(i32, u64)> {
    match v {
        0 => vec![(0, 1), (1, 2)],
        1 => vec![(-1, 3), (0, 1), (2, 5)],
        _ => vec![(-2, 7), (1, 2), (3, 11)],
    }
}

impl<const V: u8> Circuit<F> for RotInner<V> {
    type Config = (
        midnight_proofs::plonk::Column<midnight_proofs::plonk::Instance>,
        midnight_proofs::plonk::Column<midnight_proofs::plonk::Advice>,
        midnight_proofs::plonk::Selector,
    );
    type FloorPlanner = SimpleFloorPlanner;
    type Params = ();

    fn without_witnesses(&self) -> Self {
        Self::default()
    }

    fn configure(meta: &mut ConstraintSystem<F>) -> Self::Config {
        use midnight_proofs::{plonk::Expression, poly::Rotation};
        let _committed = meta.instance_column();
        let inst = meta.instance_column();
        let a = meta.advice_column();
        let q = meta.selector();
        meta.create_gate("rotated public inputs", |m| {
            let mut e = m.query_advice(a, Rotation::cur());
            for (rot, c) in rot_terms(V) {
                e = e - m.query_instance(inst, Rotation(rot)) * Expression::Constant(F::from(c));
            }
            midnight_proofs::plonk::Constraints::with_selector(q, vec![e])
        });
        (inst, a, q)
    }

    fn synthesize(&self, config: Self::Config, mut layouter: impl Layouter<F>) -> Result<(), Error> {
        let (_, a, q) = config;
        layouter.assign_region(
            || "rot",
            |mut region| {
                for row in 0..ROT_ROWS {
                    q.enable(&mut region, row)?;
                    let v = self.pi.as_ref().map(|pi| {
                        rot_terms(V).iter().fold(F::ZERO, |acc, (rot, c)| {
                            let idx = row as i64 + *rot as i64;
                            // rows before 0 wrap to the blinding area only for row + rot < 0, which
                            // ROT_FIRST excludes; beyond the public inputs the column is zero
                            let x = if idx >= 0 && (idx as usize) < pi.len() { pi[idx as usize] } else { F::ZERO };
                            acc + x * F::from(*c)
                        })
                    });
                    region.assign_advice(|| "a", a, row, || v)?;
                }
                Ok(())
            },
        )
    }
}

// ---------------------------------------------------------------------------------------------
// Inner circuit 4: two plain instance columns holding different numbers of public inputs
// ---------------------------------------------------------------------------------------------

/// Columns [committed instance, instance A, instance B, advice]; gate
/// `q * (a - A[cur] - 3·B[cur] - 5·B[next])`.
#[derive(Clone, Debug, Default)]
pub struct TwoColInner {
    a: Value<Vec<F>>,
    b: Value<Vec<F>>,
}

impl Circuit<F> for TwoColInner {
    type Config = (midnight_proofs::plonk::Column<midnight_proofs::plonk::Advice>, midnight_proofs::plonk::Selector);
    type FloorPlanner = SimpleFloorPlanner;
    type Params = ();

    fn without_witnesses(&self) -> Self {
        Self::default()
    }

    fn configure(meta: &mut ConstraintSystem<F>) -> Self::Config {
        use midnight_proofs::{plonk::Expression, poly::Rotation};
        let _committed = meta.instance_column();
        let ia = meta.instance_column();
        let ib = meta.instance_column();
        let adv = meta.advice_column();
        let q = meta.selector();
        meta.create_gate("two instance columns", |m| {
            let e = m.query_advice(adv, Rotation::cur())
                - m.query_instance(ia, Rotation::cur())
                - m.query_instance(ib, Rotation::cur()) * Expression::Constant(F::from(3))
                - m.query_instance(ib, Rotation::next()) * Expression::Constant(F::from(5));
            midnight_proofs::plonk::Constraints::with_selector(q, vec![e])
        });
        (adv, q)
    }

    fn synthesize(&self, config: Self::Config, mut layouter: impl Layouter<F>) -> Result<(), Error> {
        let (adv, q) = config;
        layouter.assign_region(
            || "two-col",
            |mut region| {
                for row in 0..ROT_ROWS {
                    q.enable(&mut region, row)?;
                    let v = self.a.as_ref().zip(self.b.as_ref()).map(|(a, b)| {
                        let at = |c: &Vec<F>, i: usize| c.get(i).copied().unwrap_or(F::ZERO);
                        at(a, row) + at(b, row) * F::from(3) + at(b, row + 1) * F::from(5)
                    });
                    region.assign_advice(|| "a", adv, row, || v)?;
                }
                Ok(())
            },
        )
    }
}

pub fn twocol_case(k: u32, seed: u64) -> Result<InnerCase, String> {
    let mut rng = ChaCha8Rng::seed_from_u64(seed);
    let params = params_for(k);
    let vk = keygen_vk_with_k::<F, CS, _>(params, &TwoColInner::default(), k).map_err(|e| format!("keygen_vk k={k}: {e:?}"))?;
    let pk = keygen_pk(vk.clone(), &TwoColInner::default()).map_err(|e| format!("{e:?}"))?;
    let na = rng.gen_range(1..=3usize);
    let nb = na + rng.gen_range(1..=3usize);
    let a: Vec<F> = (0..na).map(|_| F::random(&mut rng)).collect();
    let b: Vec<F> = (0..nb).map(|_| F::random(&mut rng)).collect();
    let mut t = CircuitTranscript::<PS>::init();
    create_proof::<F, CS, CircuitTranscript<PS>, TwoColInner>(
        params,
        &pk,
        &[TwoColInner { a: Value::known(a.clone()), b: Value::known(b.clone()) }],
        1,
        &[&[&[], &a, &b]],
        &mut rng,
        &mut t,
    )
    .map_err(|e| format!("create_proof: {e:?}"))?;
    let proof = t.finalize();
    let extra = vec![b];
    let layout = layout_of(&vk, &a, &extra, &proof)?;
    Ok(InnerCase {
        name: format!("cols2-two-instance-columns/k{k}"),
        k,
        lookups: vk.cs().lookups().len(),
        vk,
        pi: a,
        extra,
        proof,
        layout,
    })
}

/// rows on which the gate is enabled: `ROT_FIRST..ROT_ROWS` would avoid negative wrap-around, but
/// row 0 with a negative rotation reads the last row of the column (blinding area of an instance
/// column is zero), so every row from 0 is sound to enable.
const ROT_ROWS: usize = 12;

fn rot_case_v<const V: u8>(k: u32, seed: u64) -> Result<InnerCase, String> {
    let mut rng = ChaCha8Rng::seed_from_u64(seed);
    let params = params_for(k);
    let vk = keygen_vk_with_k::<F, CS, _>(params, &RotInner::<V>::default(), k).map_err(|e| format!("keygen_vk k={k}: {e:?}"))?;
    let pk = keygen_pk(vk.clone(), &RotInner::<V>::default()).map_err(|e| format!("{e:?}"))?;
    let n = rng.gen_range(2..=6usize);
    let pi: Vec<F> = (0..n).map(|_| F::random(&mut rng)).collect();
    let mut t = CircuitTranscript::<PS>::init();
    create_proof::<F, CS, CircuitTranscript<PS>, RotInner<V>>(
        params,
        &pk,
        &[RotInner::<V> { pi: Value::known(pi.clone()) }],
        1,
        &[&[&[], &pi]],
        &mut rng,
        &mut t,
    )
    .map_err(|e| format!("create_proof: {e:?}"))?;
    let proof = t.finalize();
    let layout = layout_of(&vk, &pi, &[], &proof)?;
    Ok(InnerCase {
        name: format!("rot{V}-instance-rotations/k{k}"),
        k,
        lookups: vk.cs().lookups().len(),
        vk,
        pi,
        extra: vec![],
        proof,
        layout,
    })
}

pub fn rot_case(variant: u8, k: u32, seed: u64) -> Result<InnerCase, String> {
    match variant % 3 {
        0 => rot_case_v::<0>(k, seed),
        1 => rot_case_v::<1>(k, seed),
        _ => rot_case_v::<2>(k, seed),
    }
}

// ---------------------------------------------------------------------------------------------
// Off-circuit side
// ---------------------------------------------------------------------------------------------

pub struct OffCircuit {
    /// raw public inputs of the outer circuit: vk identity ‖ encode(collapsed accumulator)
    pub instance: Vec<F>,
    pub vk_len: usize,
    /// `Accumulator::check` (pairing invariant) of the derived accumulator
    pub check: bool,
}

/// Off-circuit `prepare` + `Accumulator::from_dual_msm` + `collapse` + encoding.
pub fn offcircuit(vk: &Vk, k: u32, pi: &[F], extra: &[Vec<F>], proof: &[u8]) -> Result<OffCircuit, String> {
    let mut t = CircuitTranscript::<PS>::init_from_bytes(proof);
    let dual = prepare::<F, CS, CircuitTranscript<PS>>(vk, &[&[C::identity()]], &[&cols(pi, extra)], &mut t)
        .map_err(|e| format!("{e:?}"))?;
    let fixed_bases = verifier::fixed_bases::<S>(VK_NAME, vk);
    let mut acc = Accumulator::<S>::from_dual_msm(dual, VK_NAME, &fixed_bases);
    let check = acc.check(&params_for(k).s_g2().into(), &fixed_bases);
    acc.collapse();
    let check2 = acc.check(&params_for(k).s_g2().into(), &fixed_bases);
    if check != check2 {
        return Err("off-circuit collapse changed the accumulator invariant".into());
    }
    let mut instance = AssignedVk::<S>::as_public_input(vk);
    let vk_len = instance.len();
    instance.extend(AssignedAccumulator::as_public_input(&acc));
    Ok(OffCircuit {
        instance,
        vk_len,
        check,
    })
}

/// Off-circuit folding of accumulators that come from *different* verifying keys (the fixed-base
/// names differ, only "-G" is shared): `Accumulator::accumulate` of any sub-list must satisfy the
/// pairing invariant iff every member does, before and after `collapse`, in any order.
pub fn cross_vk_accumulation(seed: u64, rng: &mut ChaCha8Rng, rounds: usize, rep: &mut Report) {
    use std::collections::BTreeMap;
    // inner proofs of four different circuits over ONE structured reference string (same k)
    let built = catch_any(|| {
        let a = arith_case(9, seed)?;
        let k = a.k;
        Ok::<_, String>(vec![a, poseidon_case(k, seed ^ 1)?, rot_case(0, k, seed ^ 2)?, rot_case(1, k, seed ^ 3)?])
    });
    let cases = match built {
        Ok(Ok(c)) => c,
        Ok(Err(e)) => return rep.inconclusive(&format!("cross-vk accumulation: inner cases: {e}")),
        Err(p) => return rep.inconclusive(&format!("cross-vk accumulation: inner cases panic: {} at {}", p.message, p.location)),
    };
    let cases = &cases[..];
    // (accumulator, valid, label) ; names differ per case
    let mut accs: Vec<(Accumulator<S>, bool, String)> = vec![];
    let mut all_bases: BTreeMap<String, C> = BTreeMap::new();
    for (ci, c) in cases.iter().enumerate() {
        let name = format!("vk{ci}");
        let fb = verifier::fixed_bases::<S>(&name, &c.vk);
        all_bases.extend(fb.clone());
        let mut variants: Vec<(Vec<F>, Vec<u8>, &str)> = vec![(c.pi.clone(), c.proof.clone(), "honest")];
        let scalars: Vec<usize> = (0..c.layout.len()).filter(|i| c.layout[*i].kind == 'S').collect();
        if let Some(l) = scalars.last() {
            if let Some((pi, proof)) = corrupt(c, &WitnessKind::ProofScalar(*l)) {
                variants.push((pi, proof, "proof-scalar+1"));
            }
        }
        if let Some((pi, proof)) = corrupt(c, &WitnessKind::WrongPi(0)) {
            variants.push((pi, proof, "wrong-inner-pi"));
        }
        for (pi, proof, what) in variants {
            let mut t = CircuitTranscript::<PS>::init_from_bytes(&proof);
            let Ok(dual) = prepare::<F, CS, CircuitTranscript<PS>>(&c.vk, &[&[C::identity()]], &[&cols(&pi, &c.extra)], &mut t) else { continue };
            let acc = Accumulator::<S>::from_dual_msm(dual, &name, &fb);
            let tau = params_for(c.k).s_g2().into();
            let valid = acc.check(&tau, &fb);
            if valid != (what == "honest") {
                rep.count(&format!("cross-vk.member-verdict[{what}]={valid}"));
            }
            accs.push((acc, valid, format!("{}:{what}", c.name)));
        }
    }
    let tau = params_for(cases[0].k).s_g2().into();
    if accs.iter().filter(|a| a.1).count() < 2 {
        rep.inconclusive("cross-vk accumulation: fewer than two valid accumulators");
        return;
    }
    for round in 0..rounds {
        let size = 2 + round % 3;
        let want_invalid = round % 2 == 1;
        let mut members: Vec<usize> = vec![];
        let valid_ix: Vec<usize> = (0..accs.len()).filter(|i| accs[*i].1).collect();
        let invalid_ix: Vec<usize> = (0..accs.len()).filter(|i| !accs[*i].1).collect();
        for _ in 0..size {
            members.push(valid_ix[rng.gen_range(0..valid_ix.len())]);
        }
        if want_invalid && !invalid_ix.is_empty() {
            let pos = rng.gen_range(0..size);
            members[pos] = invalid_ix[rng.gen_range(0..invalid_ix.len())];
        }
        let expect = members.iter().all(|i| accs[*i].1);
        let labels: Vec<String> = members.iter().map(|i| accs[*i].2.clone()).collect();
        for mode in ["none", "collapse-before", "collapse-after"] {
            rep.eval();
            rep.nontrivial(&("cross-vk", labels.clone(), mode));
            let ms: Vec<Accumulator<S>> = members.iter().map(|i| accs[*i].0.clone()).collect();
            let bases = all_bases.clone();
            let got = catch_any(move || {
                let mut ms = ms;
                if mode == "collapse-before" {
                    ms.iter_mut().for_each(|m| m.collapse());
                }
                let mut acc = Accumulator::<S>::accumulate(&ms);
                if mode == "collapse-after" {
                    acc.collapse();
                }
                acc.check(&tau, &bases)
            });
            match got {
                Ok(g) if g == expect => rep.count(&format!("cross-vk.accumulate[{mode}].{}", if g { "valid" } else { "invalid" })),
                Ok(g) => rep.violation(
                    &format!("C20/accumulator/cross-vk-accumulate/{}", if g { "accepts-invalid-member" } else { "rejects-all-valid" }),
                    &format!("Accumulator::accumulate over accumulators of different verifying keys checks to {g}, expected {expect} ({mode})"),
                    json!({"members": labels, "mode": mode}),
                ),
                Err(p) => rep.violation(
                    &format!("C20/accumulator/cross-vk-accumulate/panic@{}", repo_file(&p.file)),
                    &format!("Accumulator accumulate/collapse/check panics: {}", p.message),
                    json!({"members": labels, "mode": mode}),
                ),
            }
        }
    }
}

// ---------------------------------------------------------------------------------------------
// One verifier-circuit run
// ---------------------------------------------------------------------------------------------

#[derive(Clone, Debug)]
pub enum WitnessKind {
    Honest,
    /// element `idx` of the inner proof (a scalar) replaced by scalar + 1
    ProofScalar(usize),
    /// element `idx` of the inner proof (a point) replaced by P + G
    ProofPoint(usize),
    /// inner public input `pos` replaced by value + 1
    WrongPi(usize),
}

impl WitnessKind {
    pub fn class(&self) -> &'static str {
        match self {
            WitnessKind::Honest => "honest",
            WitnessKind::ProofScalar(_) => "proof-scalar+1",
            WitnessKind::ProofPoint(_) => "proof-point+G",
            WitnessKind::WrongPi(_) => "wrong-inner-pi",
        }
    }
}

#[derive(Clone, Debug)]
pub struct RunSpec {
    pub inner: usize,
    pub kind: WitnessKind,
    /// positions of the outer instance edited (+1) on this run's tables
    pub edit_positions: EditPlan,
    /// evaluate every constraint (not only those reading the changed cells) for the first
    /// alternative claim of the run
    pub full_first_claim: bool,
}

#[derive(Clone, Debug)]
pub enum EditPlan {
    /// vk identity + `n` sampled accumulator positions (seeded)
    Sample(usize, u64),
    All,
}

/// Applies the witness corruption; `None` if the mutation does not change the bytes.
pub fn corrupt(case: &InnerCase, kind: &WitnessKind) -> Option<(Vec<F>, Vec<u8>)> {
    let mut pi = case.pi.clone();
    let mut proof = case.proof.clone();
    match kind {
        WitnessKind::Honest => {}
        WitnessKind::ProofScalar(i) => {
            let e = &case.layout[*i];
            let s = <F as Hashable<PS>>::read(&mut &proof[e.offset..e.offset + e.len]).ok()?;
            let b = <F as Hashable<PS>>::to_bytes(&(s + F::ONE));
            if b.len() != e.len {
                return None;
            }
            proof[e.offset..e.offset + e.len].copy_from_slice(&b);
        }
        WitnessKind::ProofPoint(i) => {
            let e = &case.layout[*i];
            let p = <C as Hashable<PS>>::read(&mut &proof[e.offset..e.offset + e.len]).ok()?;
            let b = <C as Hashable<PS>>::to_bytes(&(p + C::generator()));
            if b.len() != e.len {
                return None;
            }
            proof[e.offset..e.offset + e.len].copy_from_slice(&b);
        }
        WitnessKind::WrongPi(p) => pi[*p] += F::ONE,
    }
    if matches!(kind, WitnessKind::Honest) || pi != case.pi || proof != case.proof {
        Some((pi, proof))
    } else {
        None
    }
}

struct TwoTables {
    tables: Tables<F>,
    mock: MockProver<F>,
    /// a lookup or trash expression reads an instance column: no incremental evaluation then
    instance_beyond_gates: bool,
    /// rotations at which gates read instance column 1
    instance_rotations: Vec<i32>,
    /// positions of instance column 1 currently different from the fully evaluated instance
    base: Vec<F>,
}

fn reads_instance(t: &Tables<F>, e: &midnight_proofs::plonk::Expression<F>) -> bool {
    let mut set = std::collections::BTreeSet::new();
    t.cells_read(e, 0, &mut set);
    set.iter().any(|c| matches!(c, CellRef::Instance(_, _)))
}

/// Every constraint of the reference evaluator, gates spread over the rayon pool by row chunks.
fn ref_full(t: &Tables<F>, cap: usize) -> Vec<Failure> {
    const CHUNK: usize = 2048;
    let starts: Vec<usize> = (0..t.usable_rows).step_by(CHUNK).collect();
    let (gates, (lookups, (copies, trash))) = rayon::join(
        || {
            starts
                .par_iter()
                .flat_map(|s| {
                    let mut o = vec![];
                    t.gate_failures(*s..(*s + CHUNK).min(t.usable_rows), &mut o, cap);
                    o
                })
                .collect::<Vec<_>>()
        },
        || {
            rayon::join(
                || {
                    let mut o = vec![];
                    t.lookup_failures(&mut o, cap);
                    o
                },
                || {
                    rayon::join(
                        || {
                            let mut o = vec![];
                            t.copy_failures(&mut o, cap);
                            o
                        },
                        || {
                            let mut o = vec![];
                            t.trash_failures(&mut o, cap);
                            o
                        },
                    )
                },
            )
        },
    );
    let mut out = gates;
    out.extend(lookups);
    out.extend(copies);
    out.extend(trash);
    out.truncate(cap.max(1));
    out
}

impl TwoTables {
    fn new(tables: Tables<F>, mock: MockProver<F>, base: Vec<F>) -> Self {
        let cs = &tables.cs;
        let mut beyond = false;
        for l in cs.lookups() {
            for e in l.input_expressions().iter().chain(l.table_expressions().iter()) {
                beyond |= reads_instance(&tables, e);
            }
        }
        for tr in cs.trashcans() {
            beyond |= reads_instance(&tables, tr.selector());
            for e in tr.constraint_expressions() {
                beyond |= reads_instance(&tables, e);
            }
        }
        // gates reading the committed column (0) are not touched by our edits; a query of any
        // other instance column than 1 does not exist in this circuit, but be safe
        let instance_rotations =
            cs.instance_queries().iter().filter(|(c, _)| c.index() == 1).map(|(_, r)| r.0).collect();
        TwoTables {
            tables,
            mock,
            instance_beyond_gates: beyond,
            instance_rotations,
            base,
        }
    }

    fn set_instance(&mut self, inst: &[F]) {
        for (r, v) in inst.iter().enumerate() {
            self.tables.instance[1][r] = *v;
            self.mock.instance_mut()[1][r] = InstanceValue::Assigned(*v);
        }
    }

    /// (reference accepts, mock accepts) for the instance currently set. `full` evaluates every
    /// constraint. Otherwise only the constraints that read a cell differing from `base` (the
    /// instance on which the full evaluation passed) are evaluated: gates and lookup inputs on
    /// the rows `p - rotation` for every differing position p and every rotation at which the
    /// instance column is queried, plus all copy constraints.
    fn verdict(&self, full: bool) -> (bool, bool, Vec<String>) {
        let mut notes = vec![];
        let (f, mv);
        if full || self.instance_beyond_gates {
            f = ref_full(&self.tables, 4);
            mv = self.mock.verify();
        } else {
            let n = self.tables.n as i64;
            let mut rows = std::collections::BTreeSet::new();
            for (p, b) in self.base.iter().enumerate() {
                if self.tables.instance[1][p] != *b {
                    for rot in &self.instance_rotations {
                        let r = (p as i64 - *rot as i64).rem_euclid(n) as usize;
                        if r < self.tables.usable_rows {
                            rows.insert(r);
                        }
                    }
                }
            }
            let mut o = vec![];
            self.tables.gate_failures(rows.iter().copied(), &mut o, 4);
            self.tables.copy_failures(&mut o, 4);
            f = o;
            mv = self.mock.verify_at_rows(rows.iter().copied(), rows.iter().copied());
        }
        notes.extend(f.iter().map(|x| format!("ref:{}", x.class())));
        if let Err(e) = &mv {
            notes.push(format!("mock:{} failures", e.len()));
        }
        (f.is_empty(), mv.is_ok(), notes)
    }
}

#[derive(Default)]
pub struct RunStats {
    pub collect_s: f64,
    pub ref_full_s: f64,
    pub mock_run_s: f64,
    pub mock_verify_s: f64,
    pub edit_s: f64,
    pub edits: usize,
}

fn witness_json(case: &InnerCase, spec: &RunSpec, pi: &[F], proof: &[u8], claimed: &[F], extra: Json) -> Json {
    json!({
        "part": "verifier-gadget",
        "inner": case.name,
        "inner_k": case.k,
        "witness_kind": format!("{:?}", spec.kind),
        "inner_pi": pi.iter().map(hexf).collect::<Vec<_>>(),
        "inner_extra_columns": case.extra.iter().map(|c| c.iter().map(hexf).collect::<Vec<_>>()).collect::<Vec<_>>(),
        "inner_proof": hex::encode(proof),
        "claimed_instance": claimed.iter().map(hexf).collect::<Vec<_>>(),
        "detail": extra,
    })
}

/// Executes one run; everything is reported into `rep` (a fork).
pub fn run_one(case: &InnerCase, spec: &RunSpec, rep: &mut Report) -> RunStats {
    let mut st = RunStats::default();
    let Some((pi, proof)) = corrupt(case, &spec.kind) else {
        rep.count("gadget.skipped-unchanged-bytes");
        return st;
    };
    let honest = match offcircuit(&case.vk, case.k, &case.pi, &case.extra, &case.proof) {
        Ok(o) if o.check => o,
        Ok(_) => {
            rep.inconclusive(&format!("{}: honest inner proof fails Accumulator::check off-circuit", case.name));
            return st;
        }
        Err(e) => {
            rep.inconclusive(&format!("{}: off-circuit prepare of the honest proof: {e}", case.name));
            return st;
        }
    };
    let own = match catch_any(|| offcircuit(&case.vk, case.k, &pi, &case.extra, &proof)) {
        Ok(Ok(o)) => o,
        Ok(Err(e)) => {
            // the corruption does not parse off-circuit: nothing to compare
            rep.count(&format!("gadget.offcircuit-prepare-err[{}]", spec.kind.class()));
            let _ = e;
            return st;
        }
        Err(p) => {
            rep.count(&format!("gadget.offcircuit-panic@{}", repo_file(&p.file)));
            return st;
        }
    };
    let is_honest = matches!(spec.kind, WitnessKind::Honest);
    if !is_honest && own.check {
        // a corrupted proof that still satisfies the invariant is a C03 matter, not ours
        rep.count("gadget.corrupted-proof-still-valid");
    }
    if !is_honest && own.instance == honest.instance {
        rep.count("gadget.corruption-without-effect-on-accumulator");
        return st;
    }
    let circuit = OuterCircuit::new(&case.vk, &pi, &case.extra, &proof);
    let inst_cols = vec![vec![], own.instance.clone()];

    // ---- synthesise twice (reference collector, MockProver) --------------------------------
    let t0 = Instant::now();
    let tables = match catch_any(|| collect(OUTER_K, &circuit, &inst_cols, CollectOpts::default())) {
        Ok(Ok(t)) => t,
        Ok(Err(e)) => {
            if is_honest {
                rep.violation(
                    "C20/verifier-gadget/rejects-honest",
                    &format!("verifier circuit does not synthesise for an honest inner proof ({}): {e}", case.name),
                    witness_json(case, spec, &pi, &proof, &own.instance, json!({"error": e})),
                );
            } else {
                rep.violation(
                    "C20/verifier-gadget/accumulator-differs-from-offcircuit",
                    &format!("verifier circuit does not synthesise for a proof the off-circuit verifier prepares ({}, {}): {e}", case.name, spec.kind.class()),
                    witness_json(case, spec, &pi, &proof, &own.instance, json!({"error": e})),
                );
            }
            return st;
        }
        Err(p) => {
            rep.violation(
                &format!("C20/verifier-gadget/panic@{}", repo_file(&p.file)),
                &format!("verifier circuit synthesis panics ({}, {}): {} at {}", case.name, spec.kind.class(), p.message, p.location),
                witness_json(case, spec, &pi, &proof, &own.instance, json!({"panic": p.message, "location": p.location})),
            );
            return st;
        }
    };
    st.collect_s = t0.elapsed().as_secs_f64();
    let t0 = Instant::now();
    let mock = match catch_any(|| MockProver::run(OUTER_K, &circuit, inst_cols.clone())) {
        Ok(Ok(m)) => m,
        Ok(Err(e)) => {
            rep.inconclusive(&format!("MockProver::run failed where the reference collector succeeded: {e:?}"));
            return st;
        }
        Err(p) => {
            rep.violation(
                &format!("C20/verifier-gadget/panic@{}", repo_file(&p.file)),
                &format!("MockProver::run of the verifier circuit panics ({}, {}): {}", case.name, spec.kind.class(), p.message),
                witness_json(case, spec, &pi, &proof, &own.instance, json!({"panic": p.message, "location": p.location})),
            );
            return st;
        }
    };
    st.mock_run_s = t0.elapsed().as_secs_f64();
    rep.eval();
    rep.count(&format!("gadget.runs[{}]", spec.kind.class()));
    rep.count(&format!("gadget.runs[{}]", case.name));

    let mut tt = TwoTables::new(tables, mock, own.instance.clone());
    if tt.instance_beyond_gates {
        rep.count("gadget.instance-read-by-lookup-or-trash(full evaluation per claim)");
    }

    // ---- (D) what the circuit binds vs what the off-circuit verifier derives ----------------
    let bound = bound_instance(&tt.tables, 1, &[]);
    // positions the circuit binds beyond the off-circuit encoding count as a difference; positions
    // of the off-circuit encoding the circuit does not bind at all are handled below (`untied`)
    let first_diff = (0..bound.len().min(own.instance.len()))
        .find(|i| bound.get(*i) != own.instance.get(*i))
        .or(if bound.len() > own.instance.len() { Some(own.instance.len()) } else { None });
    // every claimed position must be tied to a circuit cell
    let tied: std::collections::BTreeSet<usize> = tt
        .tables
        .copies
        .iter()
        .flat_map(|(a, b)| [a, b])
        .filter_map(|c| match c {
            CellRef::Instance(1, r) => Some(*r),
            _ => None,
        })
        .collect();
    let untied: Vec<usize> = (0..own.instance.len()).filter(|i| !tied.contains(i)).collect();

    // ---- (i)/(iii)/(iv): own accumulator must be accepted -------------------------------------
    let t0 = Instant::now();
    let f = ref_full(&tt.tables, 6);
    let r_acc = f.is_empty();
    st.ref_full_s = t0.elapsed().as_secs_f64();
    let t0 = Instant::now();
    let mv = tt.mock.verify();
    let m_acc = mv.is_ok();
    st.mock_verify_s = t0.elapsed().as_secs_f64();
    rep.eval();
    let notes: Vec<String> = f.iter().map(|x| format!("ref:{}", x.class())).collect();
    if !(r_acc && m_acc) || first_diff.is_some() {
        let detail = json!({
            "reference_accepts": r_acc, "mock_accepts": m_acc, "failures": notes,
            "first_differing_position": first_diff,
            "circuit_binds": first_diff.and_then(|i| bound.get(i)).map(hexf),
            "offcircuit_has": first_diff.and_then(|i| own.instance.get(i)).map(hexf),
            "vk_len": own.vk_len, "instance_len": own.instance.len(), "bound_len": bound.len(),
        });
        if r_acc != m_acc && first_diff.is_none() {
            rep.inconclusive(&format!(
                "{} {}: reference evaluator ({r_acc}) and MockProver ({m_acc}) disagree on the own accumulator",
                case.name,
                spec.kind.class()
            ));
        } else if first_diff.is_some() {
            rep.violation(
                "C20/verifier-gadget/accumulator-differs-from-offcircuit",
                &format!(
                    "in-circuit verifier binds a different accumulator than the off-circuit verifier derives ({}, witness {}; first differing public-input position {:?})",
                    case.name,
                    spec.kind.class(),
                    first_diff
                ),
                witness_json(case, spec, &pi, &proof, &own.instance, detail),
            );
        } else if is_honest {
            rep.violation(
                "C20/verifier-gadget/rejects-honest",
                &format!("verifier circuit unsatisfied for an honest inner proof with the off-circuit accumulator ({})", case.name),
                witness_json(case, spec, &pi, &proof, &own.instance, detail),
            );
        } else {
            rep.violation(
                "C20/verifier-gadget/accumulator-differs-from-offcircuit",
                &format!(
                    "verifier circuit unsatisfied with the accumulator the off-circuit verifier derives for the same (corrupted) proof ({}, {})",
                    case.name,
                    spec.kind.class()
                ),
                witness_json(case, spec, &pi, &proof, &own.instance, detail),
            );
        }
        return st;
    }
    rep.count(&format!("gadget.own-accumulator-accepted[{}]", spec.kind.class()));
    rep.sample(json!({
        "part": "verifier-gadget", "inner": case.name, "witness": format!("{:?}", spec.kind),
        "offcircuit_accumulator_check": own.check, "outer_instance_len": own.instance.len(), "vk_identity_len": own.vk_len,
        "accumulator_equals_honest_one": own.instance == honest.instance,
        "own_accumulator_accepted_by": {"reference": r_acc, "mock": m_acc},
        "first_accumulator_words": own.instance.iter().skip(own.vk_len).take(2).map(hexf).collect::<Vec<_>>(),
    }));
    rep.nontrivial(&(case.name.clone(), format!("{:?}", spec.kind), "own"));
    if !is_honest {
        rep.count(&format!("gadget.offcircuit-check[{}]", own.check));
    }
    if !untied.is_empty() {
        // confirm on the tables: a claim differing only at an unbound position is accepted
        let mut claim = own.instance.clone();
        claim[untied[0]] += F::ONE;
        tt.set_instance(&claim);
        let (r, m, _) = tt.verdict(false);
        tt.set_instance(&own.instance);
        rep.eval();
        if r && m {
            rep.violation(
                "C20/verifier-gadget/accepts-wrong-accumulator",
                &format!(
                    "{} position(s) of the claimed accumulator encoding are not bound to any circuit cell: the circuit is satisfied with another value there ({}; first unbound position {} of {})",
                    untied.len(),
                    case.name,
                    untied[0],
                    own.instance.len()
                ),
                witness_json(case, spec, &pi, &proof, &claim, json!({"untied_positions": untied})),
            );
        } else {
            rep.inconclusive(&format!("{}: instance position {} has no copy constraint but an edit there is rejected", case.name, untied[0]));
        }
        return st;
    }

    // ---- other claimed instances must be rejected -------------------------------------------
    let mut claims: Vec<(String, Vec<F>)> = vec![];
    if !is_honest {
        claims.push(("honest-accumulator".into(), honest.instance.clone()));
    }
    let n = own.instance.len();
    let positions: Vec<usize> = match &spec.edit_positions {
        EditPlan::All => (0..n).collect(),
        EditPlan::Sample(k, seed) => {
            let mut rng = ChaCha8Rng::seed_from_u64(*seed);
            let mut v: Vec<usize> = (0..own.vk_len).collect();
            // first / last accumulator position always, the rest sampled
            v.push(own.vk_len);
            v.push(n - 1);
            while v.len() < (*k + own.vk_len).min(n) {
                let p = rng.gen_range(own.vk_len..n);
                if !v.contains(&p) {
                    v.push(p);
                }
            }
            v
        }
    };
    for p in positions {
        let mut c = own.instance.clone();
        c[p] += F::ONE;
        let what = if p < own.vk_len { "vk-identity" } else { "accumulator" };
        claims.push((format!("edit[{what}]@{p}"), c));
    }
    let t0 = Instant::now();
    let mut first = true;
    for (label, claim) in claims {
        if claim == own.instance || claim.len() != own.instance.len() {
            rep.count("gadget.claims-skipped");
            continue;
        }
        tt.set_instance(&claim);
        // the first alternative claim of every run is evaluated on all constraints when asked
        let (r, m, notes) = tt.verdict(first && spec.full_first_claim);
        first = false;
        rep.eval();
        st.edits += 1;
        let class = label.split('@').next().unwrap_or("").to_string();
        rep.count(&format!("gadget.claims[{class}]"));
        if r && m {
            rep.violation(
                "C20/verifier-gadget/accepts-wrong-accumulator",
                &format!(
                    "verifier circuit satisfied (reference evaluator and MockProver) with a claimed instance other than the one derived from its witness ({}, witness {}, claim {label})",
                    case.name,
                    spec.kind.class()
                ),
                witness_json(case, spec, &pi, &proof, &claim, json!({"claim": label})),
            );
        } else {
            rep.count(&format!("gadget.rejected[{class}]"));
            rep.nontrivial(&(case.name.clone(), format!("{:?}", spec.kind), label.clone()));
            if r != m {
                rep.count("gadget.rejected-by-one-oracle-only");
                let _ = notes;
            }
        }
    }
    tt.set_instance(&own.instance);
    st.edit_s = t0.elapsed().as_secs_f64();
    st
}

/// Runs the plan in parallel (`threads` runs at a time) and merges the reports.
pub fn run_plan(cases: &[InnerCase], plan: &[RunSpec], threads: usize, rep: &mut Report) -> Vec<RunStats> {
    let parts: Vec<(Report, RunStats)> = with_pool(threads.max(1), || {
        plan.par_iter()
            .map(|spec| {
                let mut part = rep.fork();
                let st = run_one(&cases[spec.inner], spec, &mut part);
                (part, st)
            })
            .collect()
    });
    let mut stats = vec![];
    for (p, s) in parts {
        rep.merge(p);
        stats.push(s);
    }
    stats
}

/// Replays a verifier-gadget witness: rebuilds the inner verifying key from the case name
/// (key generation is deterministic), synthesises the outer circuit with the recorded inner
/// proof / public inputs and evaluates the recorded claimed instance.
/// `Ok(true)`: satisfied (reference ∧ mock); also prints what the circuit binds.
pub fn replay(w: &Json) -> Result<bool, String> {
    let name = w["inner"].as_str().ok_or("inner")?;
    let k = w["inner_k"].as_u64().ok_or("inner_k")? as u32;
    let case = if name.starts_with("poseidon") {
        poseidon_case(k, 0)?
    } else if let Some(v) = name.strip_prefix("rot").and_then(|r| r[..1].parse::<u8>().ok()) {
        rot_case(v, k, 0)?
    } else if name.starts_with("cols2") {
        let mut c = twocol_case(k, 0)?;
        c.extra = w["inner_extra_columns"]
            .as_array()
            .map(|cs| cs.iter().map(|c| c.as_array().map(|v| v.iter().filter_map(|s| s.as_str().and_then(unhexf)).collect()).unwrap_or_default()).collect())
            .unwrap_or_default();
        c
    } else {
        arith_case(k, 0)?
    };
    let pi: Vec<F> = w["inner_pi"].as_array().ok_or("inner_pi")?.iter().filter_map(|s| s.as_str().and_then(unhexf)).collect();
    let proof = hex::decode(w["inner_proof"].as_str().ok_or("inner_proof")?).map_err(|e| e.to_string())?;
    let claimed: Vec<F> =
        w["claimed_instance"].as_array().ok_or("claimed_instance")?.iter().filter_map(|s| s.as_str().and_then(unhexf)).collect();
    match offcircuit(&case.vk, k, &pi, &case.extra, &proof) {
        Ok(o) => println!(
            "off-circuit: accumulator check = {}, equals claimed instance = {}",
            o.check,
            o.instance == claimed
        ),
        Err(e) => println!("off-circuit prepare: {e}"),
    }
    let circuit = OuterCircuit::new(&case.vk, &pi, &case.extra, &proof);
    let cols = vec![vec![], claimed.clone()];
    let tables = collect(OUTER_K, &circuit, &cols, CollectOpts::default())?;
    let bound = bound_instance(&tables, 1, &[]);
    let diff = (0..bound.len().max(claimed.len())).find(|i| bound.get(*i) != claimed.get(*i));
    println!("first position where the circuit binds another value than claimed: {diff:?}");
    let f = ref_full(&tables, 6);
    println!("reference evaluator failures: {:?}", f.iter().map(|x| x.class()).collect::<Vec<_>>());
    let mock = MockProver::run(OUTER_K, &circuit, cols).map_err(|e| format!("{e:?}"))?;
    let m = mock.verify().is_ok();
    println!("MockProver accepts: {m}");
    Ok(f.is_empty() && m)
}
