//! C20 part (c): the inner-product argument of the aggregator, directly (hook: the functions are
//! otherwise private). Relation: PoK { s : <s, bases1> = res1 ∧ <s, bases2> = res2 }.
//!  * completeness: honest claims verify and the proof is consumed entirely;
//!  * single alterations: either claim, any base, the scalar vector used by the prover, every
//!    element of the proof ⇒ rejected;
//!  * coordinated alterations by a prover who can predict the batching challenge if it does not
//!    bind the claims: (res1 + r'·D, res2 − D) with r' simulated from the bases only, or from the
//!    bases and res2' only ⇒ rejected.

use ff::Field;
use group::Group;
use midnight_aggregator::verif_hooks::{ipa_prove, ipa_verify};
use midnight_curves::{Fq, G1Projective as C};
use midnight_proofs::transcript::{CircuitTranscript, Transcript};
use mzv::{common::*, engines::logged_hash::*};
use rand::Rng;
use serde_json::json;

type H = blake2b_simd::State;

fn msm(s: &[Fq], b: &[C]) -> C {
    s.iter().zip(b).fold(C::identity(), |acc, (s, b)| acc + *b * *s)
}

fn prove(s: &[Fq], b1: &[C], b2: &[C], r1: &C, r2: &C) -> Result<Vec<u8>, String> {
    match catch_any(|| {
        let mut t = CircuitTranscript::<H>::init();
        ipa_prove::<_, C>(s, b1, b2, r1, r2, &mut t).map(|_| t.finalize())
    }) {
        Ok(Ok(p)) => Ok(p),
        Ok(Err(e)) => Err(format!("{e:?}")),
        Err(p) => Err(format!("panic@{}: {}", repo_file(&p.file), p.message)),
    }
}

/// Ok(true) accepted and fully consumed, Ok(false) rejected, Err = panic
fn verify(b1: &[C], b2: &[C], r1: &C, r2: &C, proof: &[u8]) -> Result<bool, String> {
    match catch_any(|| {
        let mut t = LoggedTranscript::<H>::init_from_bytes(proof);
        let ok = ipa_verify::<_, C>(b1, b2, r1, r2, &mut t).is_ok();
        ok && t.assert_empty().is_ok()
    }) {
        Ok(b) => Ok(b),
        Err(p) => Err(format!("panic@{}: {}", repo_file(&p.file), p.message)),
    }
}

pub fn run(ctx: &Ctx, rep: &mut Report) {
    let mut rng = ctx.rng("c20-ipa");
    let sizes: Vec<usize> = ctx.tier.pick(vec![1, 2, 4, 8], vec![1, 2, 4, 8, 16, 32]);
    let reps = ctx.tier.pick(3usize, 12usize);
    for &n in &sizes {
        for rep_i in 0..reps {
            let mut s: Vec<Fq> = (0..n).map(|_| Fq::random(&mut rng)).collect();
            let mut b1: Vec<C> = (0..n).map(|_| C::random(&mut rng)).collect();
            let mut b2: Vec<C> = (0..n).map(|_| C::random(&mut rng)).collect();
            match rep_i % 4 {
                1 => s[rng.gen_range(0..n)] = Fq::ZERO,
                2 => b1[rng.gen_range(0..n)] = C::identity(),
                3 => {
                    let i = rng.gen_range(0..n);
                    b2[i] = C::identity();
                    s = vec![Fq::ONE; n];
                }
                _ => {}
            }
            let (r1, r2) = (msm(&s, &b1), msm(&s, &b2));
            let wit = |what: &str| json!({"n": n, "case": rep_i, "what": what});
            rep.eval();
            let proof = match prove(&s, &b1, &b2, &r1, &r2) {
                Ok(p) => p,
                Err(e) => {
                    rep.violation("C20/ipa/prover-fails-on-honest-claim", &format!("ipa_prove fails on a true claim: {e}"), wit("honest"));
                    continue;
                }
            };
            rep.nontrivial(&("ipa", n, rep_i));
            let _ = take_elements();
            match verify(&b1, &b2, &r1, &r2, &proof) {
                Ok(true) => rep.count("ipa.honest.accepted"),
                other => {
                    rep.violation("C20/ipa/rejects-honest", &format!("ipa_verify rejects an honest proof (or leaves bytes unread): {other:?}"), wit("honest"));
                    continue;
                }
            }
            let elements = take_elements();
            let expect_reject = |what: &str, b1: &[C], b2: &[C], r1: &C, r2: &C, proof: &[u8], rep: &mut Report| {
                rep.eval();
                rep.nontrivial(&("ipa", n, rep_i, what.to_string()));
                match verify(b1, b2, r1, r2, proof) {
                    Ok(false) => rep.count(&format!("ipa.{}.rejected", what.split('[').next().unwrap())),
                    Ok(true) => rep.violation(
                        &format!("C20/ipa/accepts-altered[{}]", what.split('[').next().unwrap()),
                        &format!("ipa_verify accepts after alteration: {what}"),
                        json!({"n": n, "case": rep_i, "what": what, "proof_hex": hx(proof)}),
                    ),
                    Err(e) => rep.violation(
                        &format!("C20/ipa/verify-panic[{}]", what.split('[').next().unwrap()),
                        &format!("ipa_verify panics after alteration {what}: {e}"),
                        json!({"n": n, "case": rep_i, "what": what}),
                    ),
                }
            };
            let d = C::random(&mut rng);
            // single alterations of the statement
            expect_reject("claim1+D", &b1, &b2, &(r1 + d), &r2, &proof, rep);
            expect_reject("claim2+D", &b1, &b2, &r1, &(r2 + d), &proof, rep);
            // (a base whose scalar is zero does not take part in the statement)
            let nz: Vec<usize> = (0..n).filter(|i| s[*i] != Fq::ZERO).collect();
            let i = if nz.is_empty() { 0 } else { nz[rng.gen_range(0..nz.len())] };
            if !nz.is_empty() {
                let mut b1x = b1.clone();
                b1x[i] += d;
                expect_reject("base1-changed", &b1x, &b2, &r1, &r2, &proof, rep);
                let mut b2x = b2.clone();
                b2x[i] += d;
                expect_reject("base2-changed", &b1, &b2x, &r1, &r2, &proof, rep);
            }
            // prover uses another vector for the same claims
            let mut s2 = s.clone();
            s2[i] += Fq::ONE;
            if let Ok(p2) = prove(&s2, &b1, &b2, &r1, &r2) {
                if msm(&s2, &b1) != r1 || msm(&s2, &b2) != r2 {
                    expect_reject("prover-vector-altered", &b1, &b2, &r1, &r2, &p2, rep);
                }
            }
            // every element of the proof
            for (ei, e) in elements.iter().enumerate() {
                let mut p2 = proof.clone();
                match e.kind {
                    'P' => {
                        let mut repr = <C as group::GroupEncoding>::Repr::default();
                        repr.as_mut().copy_from_slice(&proof[e.offset..e.offset + e.len]);
                        let pt: Option<C> = <C as group::GroupEncoding>::from_bytes(&repr).into();
                        if let Some(pt) = pt {
                            p2[e.offset..e.offset + e.len].copy_from_slice(group::GroupEncoding::to_bytes(&(pt + d)).as_ref());
                        }
                    }
                    _ => {
                        let last = e.offset + e.len - 1;
                        p2[e.offset] ^= 1;
                        let _ = last;
                    }
                }
                if p2 != proof {
                    expect_reject(&format!("proof-element[{ei}:{}]", e.kind), &b1, &b2, &r1, &r2, &p2, rep);
                }
            }
            // truncation / trailing bytes
            expect_reject("truncated", &b1, &b2, &r1, &r2, &proof[..proof.len() - 1], rep);
            let mut p3 = proof.clone();
            p3.push(0);
            expect_reject("trailing-byte", &b1, &b2, &r1, &r2, &p3, rep);
            // coordinated alterations by a prover who predicts the batching challenge
            for model in ["bases-only", "bases+claim2"] {
                let r2f = r2 - d;
                let mut t = CircuitTranscript::<H>::init();
                for b in b1.iter().chain(b2.iter()) {
                    let _ = t.common(b);
                }
                if model == "bases+claim2" {
                    let _ = t.common(&r2f);
                }
                let r_guess: Fq = t.squeeze_challenge();
                let r1f = r1 + d * r_guess;
                if let Ok(pf) = prove(&s, &b1, &b2, &r1f, &r2f) {
                    expect_reject(&format!("coordinated-claims[{model}]"), &b1, &b2, &r1f, &r2f, &pf, rep);
                }
            }
        }
    }
}
