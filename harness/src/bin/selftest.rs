use mzv::common::*;
fn main() {
    let ctx = Ctx::from_args("SELFTEST");
    let mut r = Report::new(&ctx, "selftest");
    let p = catch(|| { let v: Vec<u8> = vec![]; v[3] }).unwrap_err();
    println!("{p:?}");
    let p2 = catch(|| with_pool(3, || { use rayon::prelude::*; (0..10).into_par_iter().for_each(|i| if i == 7 { panic!("boom {i}") }) })).unwrap_err();
    println!("{p2:?}");
    r.eval(); r.nontrivial(&1u8); r.nontrivial(&2u8); r.sample(serde_json::json!({"a":1}));
    r.finish()
}
