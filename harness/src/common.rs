//! Shared runtime for all checks: argument parsing, seeded RNG streams, panic capture, the
//! report/evidence writer, known-findings handling and the VIOLATION/KNOWN-FINDING protocol.
//!
//! Verdict discipline (DESIGN.md §1): a check ends in exactly one of
//!   * exit 0  — held on what was observed (KNOWN-FINDING lines allowed),
//!   * exit 1  — at least one violation not listed in known_findings.json (VIOLATION lines),
//!   * exit 2  — inconclusive (too little observed, harness error); never a VIOLATION line.

use std::{
    cell::RefCell,
    collections::{BTreeMap, BTreeSet},
    hash::{Hash, Hasher},
    panic::{self, AssertUnwindSafe, UnwindSafe},
    path::PathBuf,
    sync::Once,
    time::Instant,
};

use rand_chacha::ChaCha8Rng;
use rand_core::SeedableRng;
use serde_json::{json, Value as Json};

pub const VERIF_ROOT: &str = "/verif";

#[derive(Clone, Copy, Debug, PartialEq, Eq)]
pub enum Tier {
    Quick,
    Thorough,
}

impl Tier {
    pub fn name(&self) -> &'static str {
        match self {
            Tier::Quick => "quick",
            Tier::Thorough => "thorough",
        }
    }
    /// Picks a budget by tier.
    pub fn pick<T>(&self, quick: T, thorough: T) -> T {
        match self {
            Tier::Quick => quick,
            Tier::Thorough => thorough,
        }
    }
}

#[derive(Clone, Debug)]
pub struct Ctx {
    pub property: String,
    pub tier: Tier,
    pub seed: u64,
    pub evidence: PathBuf,
    pub replay: Option<PathBuf>,
    /// free-form extra arguments (`--stage san`, `--shard i/n`, `--child file` ...)
    pub extra: BTreeMap<String, String>,
    pub start: Instant,
}

impl Ctx {
    /// Parses `--tier`, `--seed`, `--evidence`, `--replay` and arbitrary `--key value` pairs.
    pub fn from_args(property: &str) -> Ctx {
        // Checks run units in parallel on the global rayon pool while the library itself uses rayon
        // inside each unit: a worker waiting in a nested join steals further units, so stacks grow
        // with the nesting. Give the workers a deep stack (address space only) instead of the 2 MiB
        // default; an overflow there is a harness failure, not a property verdict.
        let _ = rayon::ThreadPoolBuilder::new().stack_size(512 << 20).build_global();
        let args: Vec<String> = std::env::args().skip(1).collect();
        let mut tier = match std::env::var("VERIF_TIER").ok().as_deref() {
            Some("thorough") => Tier::Thorough,
            _ => Tier::Quick,
        };
        let mut seed: u64 =
            std::env::var("VERIF_SEED").ok().and_then(|s| s.trim().parse().ok()).unwrap_or(1);
        let mut evidence = PathBuf::from(format!("{VERIF_ROOT}/evidence/{property}.json"));
        let mut replay = None;
        let mut extra = BTreeMap::new();
        let mut i = 0;
        while i < args.len() {
            let a = &args[i];
            let val = args.get(i + 1).cloned();
            match a.as_str() {
                "--tier" => {
                    tier = match val.as_deref() {
                        Some("thorough") => Tier::Thorough,
                        _ => Tier::Quick,
                    };
                    i += 2;
                }
                "--seed" => {
                    if let Some(v) = val.and_then(|v| v.parse().ok()) {
                        seed = v;
                    }
                    i += 2;
                }
                "--evidence" => {
                    if let Some(v) = val {
                        evidence = PathBuf::from(v);
                    }
                    i += 2;
                }
                "--replay" => {
                    replay = val.map(PathBuf::from);
                    i += 2;
                }
                k if k.starts_with("--") => {
                    extra.insert(k[2..].to_string(), val.unwrap_or_default());
                    i += 2;
                }
                _ => i += 1,
            }
        }
        install_panic_hook();
        Ctx {
            property: property.to_string(),
            tier,
            seed,
            evidence,
            replay,
            extra,
            start: Instant::now(),
        }
    }

    /// One independent ChaCha8 stream per (seed, label).
    pub fn rng(&self, label: &str) -> ChaCha8Rng {
        rng_for(self.seed, label)
    }
}

pub fn rng_for(seed: u64, label: &str) -> ChaCha8Rng {
    let mut key = [0u8; 32];
    key[..8].copy_from_slice(&seed.to_le_bytes());
    let h = fnv(label.as_bytes());
    key[8..16].copy_from_slice(&h.to_le_bytes());
    let h2 = fnv(format!("{label}/{seed}/mzv").as_bytes());
    key[16..24].copy_from_slice(&h2.to_le_bytes());
    ChaCha8Rng::from_seed(key)
}

pub fn fnv(bytes: &[u8]) -> u64 {
    let mut h: u64 = 0xcbf29ce484222325;
    for b in bytes {
        h ^= *b as u64;
        h = h.wrapping_mul(0x100000001b3);
    }
    h
}

pub fn hash_of<T: Hash>(t: &T) -> u64 {
    let mut h = Fnv64(0xcbf29ce484222325);
    t.hash(&mut h);
    h.0
}

struct Fnv64(u64);
impl Hasher for Fnv64 {
    fn finish(&self) -> u64 {
        self.0
    }
    fn write(&mut self, bytes: &[u8]) {
        for b in bytes {
            self.0 ^= *b as u64;
            self.0 = self.0.wrapping_mul(0x100000001b3);
        }
    }
}

// ---------------------------------------------------------------------------------------------
// Panic capture
// ---------------------------------------------------------------------------------------------

#[derive(Clone, Debug, PartialEq, Eq, Hash, PartialOrd, Ord)]
pub struct PanicInfo {
    pub message: String,
    /// `file:line` of the panic site (column dropped so that signatures survive reformatting)
    pub location: String,
    pub file: String,
}

thread_local! {
    static LAST_PANIC: RefCell<Option<PanicInfo>> = const { RefCell::new(None) };
}
/// number of `catch` scopes currently open on any thread (panic printing is suppressed while > 0)
static CAPTURING: std::sync::atomic::AtomicUsize = std::sync::atomic::AtomicUsize::new(0);
/// recent panics of all threads; a panic on a rayon worker is re-raised on the caller with the
/// same payload, so the caller finds the location here by message
static RECENT: std::sync::Mutex<Vec<PanicInfo>> = std::sync::Mutex::new(Vec::new());

static HOOK: Once = Once::new();

pub fn install_panic_hook() {
    HOOK.call_once(|| {
        let default = panic::take_hook();
        panic::set_hook(Box::new(move |info| {
            let capturing = CAPTURING.load(std::sync::atomic::Ordering::SeqCst) > 0;
            let message = if let Some(s) = info.payload().downcast_ref::<&str>() {
                s.to_string()
            } else if let Some(s) = info.payload().downcast_ref::<String>() {
                s.clone()
            } else {
                "<non-string panic payload>".to_string()
            };
            let (file, location) = match info.location() {
                Some(l) => (l.file().to_string(), format!("{}:{}", l.file(), l.line())),
                None => ("?".into(), "?".into()),
            };
            if capturing {
                let pi = PanicInfo {
                    message,
                    location,
                    file,
                };
                if let Ok(mut r) = RECENT.lock() {
                    if r.len() >= 256 {
                        r.remove(0);
                    }
                    r.push(pi.clone());
                }
                LAST_PANIC.with(|p| *p.borrow_mut() = Some(pi));
            } else {
                default(info);
            }
        }));
    });
}

/// Runs `f`, converting a panic into `Err(PanicInfo)`. Panics raised on *other* threads (rayon
/// workers) propagate to the caller thread by rayon and are captured with the payload only; the
/// location is then taken from the worker's hook invocation if it ran on this thread, else "?".
pub fn catch<T>(f: impl FnOnce() -> T + UnwindSafe) -> Result<T, PanicInfo> {
    install_panic_hook();
    CAPTURING.fetch_add(1, std::sync::atomic::Ordering::SeqCst);
    LAST_PANIC.with(|p| *p.borrow_mut() = None);
    let r = panic::catch_unwind(f);
    CAPTURING.fetch_sub(1, std::sync::atomic::Ordering::SeqCst);
    match r {
        Ok(v) => Ok(v),
        Err(payload) => {
            let message = if let Some(s) = payload.downcast_ref::<&str>() {
                s.to_string()
            } else if let Some(s) = payload.downcast_ref::<String>() {
                s.clone()
            } else {
                "<non-string panic payload>".to_string()
            };
            let from_hook =
                LAST_PANIC.with(|p| p.borrow_mut().take()).filter(|p| p.message == message);
            let from_recent = || {
                RECENT.lock().ok().and_then(|r| r.iter().rev().find(|p| p.message == message).cloned())
            };
            Err(from_hook.or_else(from_recent).unwrap_or(PanicInfo {
                message,
                location: "?".into(),
                file: "?".into(),
            }))
        }
    }
}

/// `catch` for closures that are not `UnwindSafe` (the harness never reuses state after a panic).
pub fn catch_any<T>(f: impl FnOnce() -> T) -> Result<T, PanicInfo> {
    catch(AssertUnwindSafe(f))
}

/// Strip `/repo/` prefix and the line number from a location: `proofs/src/plonk/verifier.rs`.
pub fn repo_file(loc_file: &str) -> String {
    if let Some(r) = loc_file.strip_prefix("/repo/") {
        return r.to_string();
    }
    // a scratch copy of the repository (tools/mutant_run.sh): keep the path from the crate directory
    for krate in ["proofs", "circuits", "curves", "zk_stdlib", "zkir", "aggregator"] {
        for dir in ["src", "tests", "examples", "benches"] {
            let marker = format!("/{krate}/{dir}/");
            if let Some(i) = loc_file.find(&marker) {
                if loc_file.starts_with('/') && !loc_file.contains("/.cargo/") {
                    return loc_file[i + 1..].to_string();
                }
            }
        }
    }
    loc_file.to_string()
}

/// Is the panic location inside the repository under test (or a scratch copy of it)?
pub fn in_repo(loc_file: &str) -> bool {
    loc_file.starts_with("/repo/") || repo_file(loc_file) != loc_file
}

// ---------------------------------------------------------------------------------------------
// Report
// ---------------------------------------------------------------------------------------------

#[derive(Clone, Debug)]
pub struct Violation {
    /// exact signature `C16/vk-header/panic@zk_stdlib/src/lib.rs ...` (DESIGN.md §3)
    pub signature: String,
    /// what failed, human-readable one-liner
    pub what: String,
    /// self-contained witness
    pub witness: Json,
}

pub struct Report {
    pub ctx: Ctx,
    pub evaluations: u64,
    distinct: BTreeSet<u64>,
    pub rule: String,
    pub samples: Vec<Json>,
    pub max_samples: usize,
    pub extra: BTreeMap<String, Json>,
    pub counters: BTreeMap<String, u64>,
    pub assumptions: Vec<String>,
    pub violations: Vec<Violation>,
    pub inconclusive: u64,
    pub inconclusive_notes: Vec<String>,
    /// minimum number of distinct non-trivial cases below which the run is inconclusive
    pub min_nontrivial: u64,
}

impl Report {
    pub fn new(ctx: &Ctx, rule: &str) -> Report {
        Report {
            ctx: ctx.clone(),
            evaluations: 0,
            distinct: BTreeSet::new(),
            rule: rule.to_string(),
            samples: vec![],
            max_samples: 12,
            extra: BTreeMap::new(),
            counters: BTreeMap::new(),
            assumptions: vec![],
            violations: vec![],
            inconclusive: 0,
            inconclusive_notes: vec![],
            min_nontrivial: 2,
        }
    }

    /// Counts one execution of code under test.
    pub fn eval(&mut self) {
        self.evaluations += 1;
    }
    pub fn evals(&mut self, n: u64) {
        self.evaluations += n;
    }
    /// Registers a non-trivial case by descriptor hash (distinctness is measured).
    pub fn nontrivial<T: Hash>(&mut self, descriptor: &T) {
        self.distinct.insert(hash_of(descriptor));
    }
    pub fn nontrivial_hash(&mut self, h: u64) {
        self.distinct.insert(h);
    }
    pub fn distinct_nontrivial(&self) -> u64 {
        self.distinct.len() as u64
    }
    pub fn sample(&mut self, j: Json) {
        if self.samples.len() < self.max_samples {
            self.samples.push(j);
        }
    }
    pub fn count(&mut self, key: &str) {
        *self.counters.entry(key.to_string()).or_insert(0) += 1;
    }
    pub fn count_n(&mut self, key: &str, n: u64) {
        *self.counters.entry(key.to_string()).or_insert(0) += n;
    }
    pub fn set(&mut self, key: &str, j: Json) {
        self.extra.insert(key.to_string(), j);
    }
    pub fn assume(&mut self, s: &str) {
        self.assumptions.push(s.to_string());
    }
    pub fn violation(&mut self, signature: &str, what: &str, witness: Json) {
        // de-duplicate on signature: one witness per signature is enough
        if self.violations.iter().filter(|v| v.signature == signature).count() >= 3 {
            self.count(&format!("violations_suppressed_dup[{signature}]"));
            return;
        }
        self.violations.push(Violation {
            signature: signature.to_string(),
            what: what.to_string(),
            witness,
        });
    }
    pub fn inconclusive(&mut self, note: &str) {
        self.inconclusive += 1;
        if self.inconclusive_notes.len() < 20 {
            self.inconclusive_notes.push(note.to_string());
        }
    }

    /// Merges a partial report produced by a worker.
    pub fn merge(&mut self, other: Report) {
        self.evaluations += other.evaluations;
        self.distinct.extend(other.distinct);
        for s in other.samples {
            self.sample(s);
        }
        for (k, v) in other.counters {
            *self.counters.entry(k).or_insert(0) += v;
        }
        for (k, v) in other.extra {
            self.extra.entry(k).or_insert(v);
        }
        for v in other.violations {
            self.violation(&v.signature, &v.what, v.witness);
        }
        self.inconclusive += other.inconclusive;
        for n in other.inconclusive_notes {
            if self.inconclusive_notes.len() < 20 {
                self.inconclusive_notes.push(n);
            }
        }
    }

    /// A fresh empty report sharing ctx/rule, for workers.
    pub fn fork(&self) -> Report {
        let mut r = Report::new(&self.ctx, &self.rule);
        r.max_samples = 2;
        r
    }

    /// Writes evidence, prints VIOLATION / KNOWN-FINDING lines and exits the process.
    pub fn finish(mut self) -> ! {
        let known = KnownFindings::load();
        let mut unlisted: Vec<(Violation, PathBuf)> = vec![];
        let mut listed: Vec<Violation> = vec![];
        let replays_dir = PathBuf::from(format!("{VERIF_ROOT}/replays/{}", self.ctx.property));
        for v in std::mem::take(&mut self.violations) {
            if known.is_known(&self.ctx.property, &v.signature) {
                listed.push(v);
            } else {
                let _ = std::fs::create_dir_all(&replays_dir);
                let name = format!("{:016x}.json", fnv(v.signature.as_bytes()) ^ fnv(v.witness.to_string().as_bytes()));
                let path = replays_dir.join(name);
                let body = json!({
                    "property": self.ctx.property,
                    "signature": v.signature,
                    "what": v.what,
                    "seed": self.ctx.seed,
                    "tier": self.ctx.tier.name(),
                    "witness": v.witness,
                });
                let _ = std::fs::write(&path, serde_json::to_string_pretty(&body).unwrap());
                unlisted.push((v, path));
            }
        }

        let mut known_seen = BTreeSet::new();
        for v in &listed {
            if known_seen.insert(v.signature.clone()) {
                println!(
                    "KNOWN-FINDING: property={} {} :: {}",
                    self.ctx.property, v.signature, v.what
                );
            }
        }
        for (v, path) in &unlisted {
            println!("VIOLATION property={} replay={}", self.ctx.property, path.display());
            println!("  signature: {}", v.signature);
            println!("  what: {}", v.what);
        }

        let wall = self.ctx.start.elapsed().as_secs_f64();
        let n_distinct = self.distinct.len() as u64;
        let inconclusive_run = unlisted.is_empty()
            && (n_distinct < self.min_nontrivial.max(2) || self.evaluations == 0);

        let mut coverage = serde_json::Map::new();
        coverage.insert("evaluations".into(), json!(self.evaluations));
        coverage.insert("distinct_nontrivial".into(), json!(n_distinct));
        coverage.insert("rule".into(), json!(self.rule));
        if self.samples.is_empty() {
            self.samples.push(json!("<no sample recorded>"));
        }
        coverage.insert("samples".into(), Json::Array(self.samples.clone()));
        coverage.insert("inconclusive_cases".into(), json!(self.inconclusive));
        if !self.inconclusive_notes.is_empty() {
            coverage.insert("inconclusive_notes".into(), json!(self.inconclusive_notes));
        }
        coverage.insert(
            "counters".into(),
            Json::Object(self.counters.iter().map(|(k, v)| (k.clone(), json!(v))).collect()),
        );
        coverage.insert(
            "known_findings_seen".into(),
            json!(known_seen.iter().cloned().collect::<Vec<_>>()),
        );
        coverage.insert(
            "violation_signatures".into(),
            json!(unlisted.iter().map(|(v, _)| v.signature.clone()).collect::<Vec<_>>()),
        );
        coverage.insert(
            "verdict".into(),
            json!(if !unlisted.is_empty() {
                "violated"
            } else if inconclusive_run {
                "inconclusive"
            } else {
                "held-on-observed"
            }),
        );
        for (k, v) in &self.extra {
            coverage.insert(k.clone(), v.clone());
        }

        let evidence = json!({
            "property_id": self.ctx.property,
            "tier": self.ctx.tier.name(),
            "seed": self.ctx.seed,
            "level": "exploration",
            "coverage": Json::Object(coverage),
            "assumptions": self.assumptions,
            "wall_s": wall,
            "violations": unlisted.len(),
        });
        if let Some(parent) = self.ctx.evidence.parent() {
            let _ = std::fs::create_dir_all(parent);
        }
        if let Err(e) =
            std::fs::write(&self.ctx.evidence, serde_json::to_string_pretty(&evidence).unwrap())
        {
            eprintln!("cannot write evidence {}: {e}", self.ctx.evidence.display());
            std::process::exit(2);
        }

        println!(
            "[{}] tier={} seed={} evaluations={} distinct_nontrivial={} inconclusive={} known={} violations={} wall={:.1}s",
            self.ctx.property,
            self.ctx.tier.name(),
            self.ctx.seed,
            self.evaluations,
            n_distinct,
            self.inconclusive,
            known_seen.len(),
            unlisted.len(),
            wall
        );
        for (k, v) in &self.counters {
            println!("    {k} = {v}");
        }
        if !unlisted.is_empty() {
            std::process::exit(1);
        }
        if inconclusive_run {
            println!(
                "INCONCLUSIVE property={} observed too little ({} distinct non-trivial, minimum {})",
                self.ctx.property, n_distinct, self.min_nontrivial
            );
            std::process::exit(2);
        }
        std::process::exit(0);
    }
}

// ---------------------------------------------------------------------------------------------
// Known findings
// ---------------------------------------------------------------------------------------------

pub struct KnownFindings {
    entries: Vec<(String, String, String)>, // (property, signature, status)
}

impl KnownFindings {
    pub fn load() -> KnownFindings {
        let path = format!("{VERIF_ROOT}/known_findings.json");
        let mut entries = vec![];
        if let Ok(s) = std::fs::read_to_string(&path) {
            if let Ok(j) = serde_json::from_str::<Json>(&s) {
                if let Some(arr) = j.get("findings").and_then(|f| f.as_array()) {
                    for e in arr {
                        let p = e.get("property").and_then(|x| x.as_str()).unwrap_or("");
                        let s = e.get("signature").and_then(|x| x.as_str()).unwrap_or("");
                        let st = e.get("status").and_then(|x| x.as_str()).unwrap_or("");
                        entries.push((p.to_string(), s.to_string(), st.to_string()));
                    }
                }
            }
        }
        KnownFindings { entries }
    }
    /// Only `status: "known"` suppresses; `fixed` entries suppress nothing.
    pub fn is_known(&self, property: &str, signature: &str) -> bool {
        self.entries.iter().any(|(p, s, st)| p == property && s == signature && st == "known")
    }
}

/// Loads a replay file's witness (for `--replay`).
pub fn load_replay(path: &std::path::Path) -> Option<Json> {
    let s = std::fs::read_to_string(path).ok()?;
    serde_json::from_str::<Json>(&s).ok()
}

/// Hex helper for witnesses.
pub fn hx(bytes: &[u8]) -> String {
    hex::encode(bytes)
}

/// Runs `f` inside a rayon pool of exactly `threads` threads.
pub fn with_pool<T: Send>(threads: usize, f: impl FnOnce() -> T + Send) -> T {
    rayon::ThreadPoolBuilder::new()
        .num_threads(threads)
        .stack_size(256 << 20)
        .build()
        .expect("rayon pool")
        .install(f)
}
