//! engine: ars (see DESIGN.md §4)
