//! E4 — adversarial repair search (ARS): a bounded, heuristic malicious prover.
//!
//! Input: the tables of an honest run (E3), a target instance (some instance cells get new
//! values) and optional seed moves (advice cells forced to chosen values). The search tries to
//! find an assignment of the advice cells that satisfies *every* constraint of the circuit with
//! the target instance: it propagates each change through its copy-constraint class, collects the
//! constraints that became violated and, for one of them, tries to solve it for each not yet
//! changed advice cell it reads (affine solve from three evaluations; for lookups, by moving the
//! input tuple onto a table row), depth first, with a node budget and seeded tie-breaking.
//!
//! A returned candidate is only a *candidate*: callers confirm it with the repository's own
//! checker (H2) and, for small circuits, the real prover/verifier (H1) before calling it a
//! violation. "No attack found" means: none within the stated budget from the stated targets.

use std::collections::{BTreeMap, BTreeSet, HashSet};

use ff::PrimeField;
use midnight_proofs::plonk::Expression;
use rand::seq::SliceRandom;
use rand_chacha::ChaCha8Rng;

use super::ref_eval::{CellRef, Tables};

#[derive(Clone, Debug)]
pub struct ArsBudget {
    pub restarts: usize,
    pub nodes_per_restart: usize,
    /// maximal number of changed copy classes (iterative deepening goes 2,4,8,.. up to this)
    pub max_changed: usize,
}

impl ArsBudget {
    pub fn quick() -> Self {
        ArsBudget {
            restarts: 32,
            nodes_per_restart: 2000,
            max_changed: 24,
        }
    }
    pub fn thorough() -> Self {
        ArsBudget {
            restarts: 256,
            nodes_per_restart: 10_000,
            max_changed: 48,
        }
    }
}

#[derive(Clone, Debug, Default)]
pub struct ArsStats {
    pub nodes: u64,
    pub dead_ends_pinned: u64,
    pub dead_ends_unsolvable: u64,
    pub dead_ends_depth: u64,
    pub candidates: u64,
}

pub struct Attack<F: PrimeField> {
    /// advice cells whose value differs from the honest table
    pub changed: BTreeMap<(usize, usize), F>,
    pub stats: ArsStats,
}

#[derive(Clone)]
enum Con {
    /// index into `polys`
    Poly(usize, usize),
    Lookup(usize, usize),
}

struct PolyInfo<F: PrimeField> {
    expr: Expression<F>,
    /// `Some(selector expr)` for trash constraints: only enforced where it is non-zero
    guard: Option<Expression<F>>,
    adv_queries: Vec<(usize, i32)>,
}

struct LookupInfo {
    in_queries: Vec<(usize, i32)>,
    table_queries: Vec<(usize, i32)>,
}

pub struct Ars<'a, F: PrimeField> {
    t: &'a mut Tables<F>,
    polys: Vec<PolyInfo<F>>,
    lookups: Vec<LookupInfo>,
    /// copy class id of an advice cell and the members of each class
    class_of: BTreeMap<CellRef, usize>,
    classes: Vec<Vec<CellRef>>,
    /// classes pinned by a fixed or instance member
    pinned: Vec<Option<F>>,
    table_sets: Vec<Option<HashSet<Vec<Vec<u8>>>>>,
    table_rows: Vec<Vec<Vec<F>>>,
    stats: ArsStats,
    changed: BTreeSet<(usize, usize)>,
    undo: Vec<((usize, usize), F)>,
    budget_nodes: usize,
    max_changed: usize,
    /// instance cells may change with their copy class (seed-move attacks: the forged public
    /// inputs are read back afterwards)
    free_instance: bool,
    undo_inst: Vec<((usize, usize), F)>,
    /// try the free cells of a violated constraint in "forward" order (later rows first): the
    /// natural output of a gate usually sits on the same or the next row
    prefer_forward: bool,
    /// synthesis order of the advice assignments ([col][row] -> ordinal, u32::MAX = never
    /// assigned), from the recorded trace: the cell of a constraint that was assigned LAST is its
    /// natural output, and recomputing outputs in dataflow order repairs forward without search
    order: Vec<Vec<u32>>,
}

fn adv_queries<F: PrimeField>(e: &Expression<F>) -> Vec<(usize, i32)> {
    let out = std::cell::RefCell::new(BTreeSet::new());
    e.evaluate(
        &|_| (),
        &|_| (),
        &|_| (),
        &|q| {
            out.borrow_mut().insert((q.column_index(), q.rotation().0));
        },
        &|_| (),
        &|_| (),
        &|_| (),
        &|_, _| (),
        &|_, _| (),
        &|_, _| (),
    );
    out.into_inner().into_iter().collect()
}

impl<'a, F: PrimeField> Ars<'a, F> {
    pub fn new(t: &'a mut Tables<F>) -> Self {
        Self::new_with(t, false)
    }

    pub fn new_with(t: &'a mut Tables<F>, free_instance: bool) -> Self {
        let mut polys = vec![];
        for g in t.cs.gates() {
            for p in g.polynomials() {
                polys.push(PolyInfo {
                    expr: p.clone(),
                    guard: None,
                    adv_queries: adv_queries(p),
                });
            }
        }
        for tr in t.cs.trashcans() {
            for p in tr.constraint_expressions() {
                let mut q = adv_queries(p);
                q.extend(adv_queries(tr.selector()));
                q.sort();
                q.dedup();
                polys.push(PolyInfo {
                    expr: p.clone(),
                    guard: Some(tr.selector().clone()),
                    adv_queries: q,
                });
            }
        }
        let lookups: Vec<LookupInfo> = t
            .cs
            .lookups()
            .iter()
            .map(|l| LookupInfo {
                in_queries: l.input_expressions().iter().flat_map(adv_queries).collect(),
                table_queries: l.table_expressions().iter().flat_map(adv_queries).collect(),
            })
            .collect();
        // copy classes
        let cc = t.copy_classes();
        let mut class_of = BTreeMap::new();
        let mut classes = vec![];
        let mut pinned = vec![];
        for (_, members) in cc {
            let id = classes.len();
            let mut pin = None;
            for m in &members {
                class_of.insert(m.clone(), id);
                match m {
                    CellRef::Fixed(..) => pin = Some(t.get(m)),
                    CellRef::Instance(..) if !free_instance => pin = Some(t.get(m)),
                    _ => {}
                }
            }
            classes.push(members);
            pinned.push(pin);
        }
        let mut order: Vec<Vec<u32>> = vec![];
        if !t.trace.is_empty() {
            order = vec![vec![u32::MAX; t.n]; t.advice.len()];
            let mut i = 0u32;
            for e in &t.trace {
                if let super::ref_eval::Event::AssignAdvice { column, row } = e {
                    if *column < order.len() && *row < t.n {
                        order[*column][*row] = i;
                        i += 1;
                    }
                }
            }
        }
        let nl = lookups.len();
        Ars {
            t,
            polys,
            lookups,
            class_of,
            classes,
            pinned,
            table_sets: vec![None; nl],
            table_rows: vec![vec![]; nl],
            stats: ArsStats::default(),
            changed: BTreeSet::new(),
            undo: vec![],
            budget_nodes: 0,
            max_changed: 0,
            free_instance,
            undo_inst: vec![],
            prefer_forward: false,
            order,
        }
    }

    fn ord(&self, c: &(usize, usize)) -> u32 {
        let o = self.order.get(c.0).and_then(|col| col.get(c.1)).copied().unwrap_or(u32::MAX);
        // never-assigned cells are the least natural outputs
        if o == u32::MAX {
            0
        } else {
            o + 1
        }
    }

    fn rot(&self, row: usize, r: i32) -> usize {
        (row as i64 + r as i64).rem_euclid(self.t.n as i64) as usize
    }

    fn set_adv(&mut self, cell: (usize, usize), v: F) {
        let old = self.t.advice[cell.0][cell.1];
        self.undo.push((cell, old));
        self.t.advice[cell.0][cell.1] = v;
        self.changed.insert(cell);
        for (li, l) in self.lookups.iter().enumerate() {
            if l.table_queries.iter().any(|(c, _)| *c == cell.0) {
                self.table_sets[li] = None;
            }
        }
    }

    fn rollback_instance(&mut self, mark: usize) {
        while self.undo_inst.len() > mark {
            let ((c, r), old) = self.undo_inst.pop().unwrap();
            self.t.instance[c][r] = old;
        }
    }

    fn rollback(&mut self, mark: usize, changed_before: &BTreeSet<(usize, usize)>) {
        while self.undo.len() > mark {
            let (cell, old) = self.undo.pop().unwrap();
            self.t.advice[cell.0][cell.1] = old;
            for (li, l) in self.lookups.iter().enumerate() {
                if l.table_queries.iter().any(|(c, _)| *c == cell.0) {
                    self.table_sets[li] = None;
                }
            }
        }
        self.changed = changed_before.clone();
    }

    /// Sets an advice cell and everything copy-tied to it. `false` = the class is pinned to a
    /// different value (dead end).
    fn assign_class(&mut self, cell: (usize, usize), v: F) -> bool {
        let cr = CellRef::Advice(cell.0, cell.1);
        match self.class_of.get(&cr).copied() {
            None => {
                self.set_adv(cell, v);
                true
            }
            Some(id) => {
                if let Some(p) = self.pinned[id] {
                    if p != v {
                        return false;
                    }
                }
                let members = self.classes[id].clone();
                for m in members {
                    match m {
                        CellRef::Advice(c, r) => {
                            if self.t.advice[c][r] != v {
                                self.set_adv((c, r), v);
                            } else {
                                self.changed.insert((c, r));
                            }
                        }
                        CellRef::Instance(c, r) if self.free_instance => {
                            let old = self.t.instance[c][r];
                            if old != v {
                                self.undo_inst.push(((c, r), old));
                                self.t.instance[c][r] = v;
                            }
                        }
                        _ => {}
                    }
                }
                true
            }
        }
    }

    fn ensure_table(&mut self, li: usize) {
        if self.table_sets[li].is_some() {
            return;
        }
        let l = &self.t.cs.lookups()[li];
        let mut set = HashSet::new();
        let mut rows = vec![];
        for r in 0..self.t.usable_rows {
            let vals: Vec<F> = l.table_expressions().iter().map(|e| self.t.eval(e, r)).collect();
            let key: Vec<Vec<u8>> = vals.iter().map(|v| v.to_repr().as_ref().to_vec()).collect();
            if set.insert(key) {
                rows.push(vals);
            }
        }
        self.table_sets[li] = Some(set);
        self.table_rows[li] = rows;
    }

    fn poly_violated(&self, pi: usize, row: usize) -> bool {
        let p = &self.polys[pi];
        if let Some(g) = &p.guard {
            if self.t.eval(g, row) == F::ZERO {
                return false;
            }
            return self.t.eval(&p.expr, row) != F::ZERO;
        }
        if row >= self.t.usable_rows {
            return false;
        }
        self.t.eval(&p.expr, row) != F::ZERO
    }

    fn lookup_violated(&mut self, li: usize, row: usize) -> bool {
        if row >= self.t.usable_rows {
            return false;
        }
        self.ensure_table(li);
        let l = &self.t.cs.lookups()[li];
        let key: Vec<Vec<u8>> =
            l.input_expressions().iter().map(|e| self.t.eval(e, row).to_repr().as_ref().to_vec()).collect();
        !self.table_sets[li].as_ref().unwrap().contains(&key)
    }

    /// Constraints that read a changed cell and are violated.
    fn violated_near_changes(&mut self) -> Vec<Con> {
        let mut out = vec![];
        let mut seen = BTreeSet::new();
        let changed: Vec<(usize, usize)> = self.changed.iter().copied().collect();
        for (c, r) in changed {
            for pi in 0..self.polys.len() {
                let rots: Vec<i32> =
                    self.polys[pi].adv_queries.iter().filter(|(qc, _)| *qc == c).map(|(_, rot)| *rot).collect();
                for rot in rots {
                    let row = self.rot(r, -rot);
                    if seen.insert((0u8, pi, row)) && self.poly_violated(pi, row) {
                        out.push(Con::Poly(pi, row));
                    }
                }
            }
            for li in 0..self.lookups.len() {
                let rots: Vec<i32> =
                    self.lookups[li].in_queries.iter().filter(|(qc, _)| *qc == c).map(|(_, rot)| *rot).collect();
                for rot in rots {
                    let row = self.rot(r, -rot);
                    if seen.insert((1u8, li, row)) && self.lookup_violated(li, row) {
                        out.push(Con::Lookup(li, row));
                    }
                }
                if self.lookups[li].table_queries.iter().any(|(qc, _)| *qc == c) {
                    for row in 0..self.t.usable_rows {
                        if seen.insert((1u8, li, row)) && self.lookup_violated(li, row) {
                            out.push(Con::Lookup(li, row));
                        }
                    }
                }
            }
        }
        out
    }

    /// Solves `expr(row) = target` for advice cell `cell` if the dependence is affine.
    fn solve_affine(&mut self, expr: &Expression<F>, row: usize, cell: (usize, usize), target: F) -> Option<F> {
        let old = self.t.advice[cell.0][cell.1];
        let mut at = |v: F, s: &mut Self| {
            s.t.advice[cell.0][cell.1] = v;
            let r = s.t.eval(expr, row);
            s.t.advice[cell.0][cell.1] = old;
            r
        };
        let y0 = at(F::ZERO, self);
        let y1 = at(F::ONE, self);
        let y2 = at(F::ONE + F::ONE, self);
        let slope = y1 - y0;
        if (y2 - y1) != slope {
            return None; // not affine in this cell
        }
        let inv: Option<F> = slope.invert().into();
        let inv = inv?;
        Some((target - y0) * inv)
    }

    fn search(&mut self, rng: &mut ChaCha8Rng, depth_changed: usize) -> bool {
        self.stats.nodes += 1;
        if self.stats.nodes as usize > self.budget_nodes {
            return false;
        }
        let viol = self.violated_near_changes();
        if std::env::var("MZV_ARS_DEBUG").is_ok() {
            eprintln!("[ars] node {} changed={:?} violated={}", self.stats.nodes, self.changed, viol.iter().map(|c| match c { Con::Poly(p, r) => format!("poly{p}@{r}"), Con::Lookup(l, r) => format!("lookup{l}@{r}") }).collect::<Vec<_>>().join(","));
        }
        if viol.is_empty() {
            // full check (cheap) — a candidate must satisfy everything
            if self.t.violations(1).is_empty() {
                self.stats.candidates += 1;
                return true;
            }
            return false;
        }
        if self.changed.len() > depth_changed {
            self.stats.dead_ends_depth += 1;
            return false;
        }
        // pick the constraint with the fewest free cells first (most constrained)
        let mut best: Option<(Con, Vec<(usize, usize)>)> = None;
        for con in viol.iter().take(12) {
            let cells: Vec<(usize, usize)> = match con {
                Con::Poly(pi, row) => self.polys[*pi].adv_queries.iter().map(|(c, rot)| (*c, self.rot(*row, *rot))).collect(),
                Con::Lookup(li, row) => self.lookups[*li].in_queries.iter().map(|(c, rot)| (*c, self.rot(*row, *rot))).collect(),
            };
            let free: Vec<(usize, usize)> = cells.into_iter().filter(|c| !self.changed.contains(c)).collect();
            if free.is_empty() {
                // a violated constraint with nothing left to change: dead end
                self.stats.dead_ends_unsolvable += 1;
                return false;
            }
            let better = if self.prefer_forward && !self.order.is_empty() {
                // dataflow order: the constraint whose natural output was assigned earliest
                let key = |f: &Vec<(usize, usize)>| f.iter().map(|c| self.ord(c)).max().unwrap_or(0);
                best.as_ref().map(|b| key(&free) < key(&b.1)).unwrap_or(true)
            } else {
                best.as_ref().map(|b| free.len() < b.1.len()).unwrap_or(true)
            };
            if better {
                best = Some((con.clone(), free));
            }
        }
        let (con, mut free) = best.unwrap();
        if self.prefer_forward && !self.order.is_empty() {
            free.sort_by_key(|c| std::cmp::Reverse(self.ord(c)));
        } else if self.prefer_forward {
            free.sort_by_key(|c| std::cmp::Reverse((c.1, c.0)));
        } else {
            free.shuffle(rng);
        }
        let mark = self.undo.len();
        let mark_inst = self.undo_inst.len();
        let changed_before = self.changed.clone();
        match con {
            Con::Poly(pi, row) => {
                let expr = self.polys[pi].expr.clone();
                for cell in free {
                    let sol = self.solve_affine(&expr, row, cell, F::ZERO);
                    if std::env::var("MZV_ARS_DEBUG").is_ok() {
                        eprintln!("[ars]   poly{pi}@{row} try cell {cell:?}: solvable={}", sol.is_some());
                    }
                    if let Some(v) = sol {
                        if self.assign_class(cell, v) {
                            if self.search(rng, depth_changed) {
                                return true;
                            }
                        } else {
                            self.stats.dead_ends_pinned += 1;
                        }
                        self.rollback(mark, &changed_before);
                        self.rollback_instance(mark_inst);
                        if self.stats.nodes as usize > self.budget_nodes {
                            return false;
                        }
                    }
                }
                self.stats.dead_ends_unsolvable += 1;
                false
            }
            Con::Lookup(li, row) => {
                self.ensure_table(li);
                let inputs: Vec<Expression<F>> = self.t.cs.lookups()[li].input_expressions().clone();
                let mut rows = self.table_rows[li].clone();
                rows.shuffle(rng);
                for trow in rows.into_iter().take(24) {
                    // move every input expression onto the table row by solving it for one free
                    // cell it reads; already matching inputs are left alone
                    let mut ok = true;
                    for (j, e) in inputs.iter().enumerate() {
                        if self.t.eval(e, row) == trow[j] {
                            continue;
                        }
                        let cells: Vec<(usize, usize)> = adv_queries(e)
                            .into_iter()
                            .map(|(c, rot)| (c, self.rot(row, rot)))
                            .filter(|c| !changed_before.contains(c))
                            .collect();
                        let mut solved = false;
                        for cell in cells {
                            if let Some(v) = self.solve_affine(e, row, cell, trow[j]) {
                                if self.assign_class(cell, v) {
                                    solved = true;
                                    break;
                                } else {
                                    self.stats.dead_ends_pinned += 1;
                                }
                            }
                        }
                        if !solved {
                            ok = false;
                            break;
                        }
                    }
                    if ok && self.search(rng, depth_changed) {
                        return true;
                    }
                    self.rollback(mark, &changed_before);
                    self.rollback_instance(mark_inst);
                    if self.stats.nodes as usize > self.budget_nodes {
                        return false;
                    }
                }
                self.stats.dead_ends_unsolvable += 1;
                false
            }
        }
    }
}

/// Runs the search. `target_instance` = instance cells and their new values (already-equal
/// entries are allowed); `seeds` = advice cells forced to a value up front (hint attacks).
/// On success the tables are left in the attacking state and the changed cells are returned; on
/// failure the tables are restored.
pub fn attack<F: PrimeField>(
    tables: &mut Tables<F>,
    target_instance: &[(usize, usize, F)],
    seeds: &[((usize, usize), F)],
    budget: &ArsBudget,
    rng: &mut ChaCha8Rng,
) -> (Option<Attack<F>>, ArsStats) {
    attack_with(tables, target_instance, seeds, budget, rng, false)
}

/// Seed-move attack with a FREE instance: instance cells follow their copy class, so after a
/// successful repair `tables.instance` holds the public inputs the forged assignment binds.
pub fn attack_free<F: PrimeField>(
    tables: &mut Tables<F>,
    seeds: &[((usize, usize), F)],
    budget: &ArsBudget,
    rng: &mut ChaCha8Rng,
) -> (Option<Attack<F>>, ArsStats) {
    attack_with(tables, &[], seeds, budget, rng, true)
}

fn attack_with<F: PrimeField>(
    tables: &mut Tables<F>,
    target_instance: &[(usize, usize, F)],
    seeds: &[((usize, usize), F)],
    budget: &ArsBudget,
    rng: &mut ChaCha8Rng,
    free_instance: bool,
) -> (Option<Attack<F>>, ArsStats) {
    let honest_advice = tables.advice.clone();
    let honest_instance = tables.instance.clone();
    let mut total = ArsStats::default();
    // seed-move attacks repair forward through everything downstream: no iterative deepening
    let mut depth = if free_instance { budget.max_changed } else { 2usize };
    for _restart in 0..budget.restarts {
        // fresh state
        tables.advice = honest_advice.clone();
        tables.instance = honest_instance.clone();
        for (c, r, v) in target_instance {
            tables.instance[*c][*r] = *v;
        }
        let mut ars = Ars::new_with(tables, free_instance);
        ars.prefer_forward = _restart % 2 == 0;
        ars.budget_nodes = budget.nodes_per_restart;
        ars.max_changed = depth;
        // instance changes force their copy classes
        let mut ok = true;
        let class_ids: Vec<usize> = target_instance
            .iter()
            .filter_map(|(c, r, _)| ars.class_of.get(&CellRef::Instance(*c, *r)).copied())
            .collect();
        for id in class_ids {
            let v = ars.pinned[id].unwrap();
            let members = ars.classes[id].clone();
            for m in members {
                if let CellRef::Advice(c, r) = m {
                    if ars.t.advice[c][r] != v {
                        ars.set_adv((c, r), v);
                    }
                }
            }
        }
        for (cell, v) in seeds {
            if !ars.assign_class(*cell, *v) {
                ok = false;
            }
        }
        let found = ok && ars.search(rng, depth);
        total.nodes += ars.stats.nodes;
        total.dead_ends_pinned += ars.stats.dead_ends_pinned;
        total.dead_ends_unsolvable += ars.stats.dead_ends_unsolvable;
        total.dead_ends_depth += ars.stats.dead_ends_depth;
        total.candidates += ars.stats.candidates;
        let hit_depth = ars.stats.dead_ends_depth > 0;
        drop(ars);
        if found {
            let mut changed = BTreeMap::new();
            for (c, col) in tables.advice.iter().enumerate() {
                for (r, v) in col.iter().enumerate() {
                    if *v != honest_advice[c][r] {
                        changed.insert((c, r), *v);
                    }
                }
            }
            return (
                Some(Attack {
                    changed,
                    stats: total.clone(),
                }),
                total,
            );
        }
        if hit_depth && depth < budget.max_changed {
            depth = (depth * 2).min(budget.max_changed);
        }
    }
    tables.advice = honest_advice;
    tables.instance = honest_instance;
    (None, total)
}
