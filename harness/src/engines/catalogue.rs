//! E5 — operation catalogue driver.
//!
//! An `OpSpec` describes one gadget operation: how to synthesise it on `ZkStdLib` (assign the
//! inputs, run the operation, expose every input and every output through
//! `constrain_as_public_input`), and an independent reference `f` giving the expected raw
//! public-input vector (`None` = the input is outside the operation's documented domain, the
//! circuit must then be unsatisfiable). `check_op` runs, per input:
//!   1. completeness: honest run accepted by the reference evaluator and by MockProver with
//!      instance `reference(input)`;
//!   2. output edits: honest witness, instance edited in each position ⇒ rejected by both;
//!   3. out-of-domain inputs: the instance the circuit itself binds (read back through the copy
//!      constraints) must not make it satisfiable;
//!   4. ARS (E4): adversarial repair search towards edited outputs; a candidate is confirmed by
//!      MockProver on the same table (H2) and, for k ≤ `real_k_max`, by the real prover under
//!      the fault plan (H1) + real verifier, before it is reported.

use std::collections::BTreeMap;

use ff::Field;
use midnight_curves::Fq as F;
use midnight_proofs::{
    circuit::{Layouter, Value},
    dev::{CellValue, MockProver},
    plonk::Error,
};
use midnight_zk_stdlib::{MidnightCircuit, Relation, ZkStdLib, ZkStdLibArch};
use rand::SeedableRng;
use rand_chacha::ChaCha8Rng;
use serde_json::{json, Value as Json};

use super::{
    ars::{attack, ArsBudget},
    plonk_util::params_for,
    ref_eval::{collect, CellRef, CollectOpts, Tables},
};
use crate::common::{catch_any, fnv, repo_file, Report};

pub trait OpSpec: Clone + Send + Sync + 'static {
    /// off-circuit input of the operation
    type In: Clone + Send + Sync + std::fmt::Debug;

    fn name(&self) -> String;

    fn arch(&self) -> ZkStdLibArch {
        ZkStdLibArch::default()
    }

    /// Assign the inputs, run the operation, expose inputs and outputs as public inputs (inputs
    /// first, then outputs, each through `constrain_as_public_input`).
    fn synth(&self, std: &ZkStdLib, layouter: &mut impl Layouter<F>, input: Value<Self::In>) -> Result<(), Error>;

    /// Expected raw public-input vector, or `None` when `input` is outside the documented domain.
    fn reference(&self, input: &Self::In) -> Option<Vec<F>>;

    /// Number of leading instance positions that encode the inputs (they are never edited by the
    /// output-edit and ARS stages).
    fn n_input_positions(&self, input: &Self::In) -> usize;

    /// Optional: alternative target values for an output position (e.g. the complement of a bit).
    fn extra_targets(&self, _pos: usize, honest: F) -> Vec<F> {
        vec![F::ONE - honest]
    }
}

#[derive(Clone)]
pub struct OpRel<O: OpSpec>(pub O);

impl<O: OpSpec> Relation for OpRel<O> {
    type Instance = Vec<F>;
    type Witness = O::In;

    fn format_instance(instance: &Self::Instance) -> Result<Vec<F>, Error> {
        Ok(instance.clone())
    }

    fn circuit(
        &self,
        std_lib: &ZkStdLib,
        layouter: &mut impl Layouter<F>,
        _instance: Value<Self::Instance>,
        witness: Value<Self::Witness>,
    ) -> Result<(), Error> {
        self.0.synth(std_lib, layouter, witness)
    }

    fn used_chips(&self) -> ZkStdLibArch {
        self.0.arch()
    }

    fn write_relation<W: std::io::Write>(&self, _w: &mut W) -> std::io::Result<()> {
        Ok(())
    }

    fn read_relation<R: std::io::Read>(_r: &mut R) -> std::io::Result<Self> {
        Err(std::io::Error::other("OpRel cannot be deserialised"))
    }
}

#[derive(Clone, Debug)]
pub struct OpOptions {
    pub max_bit_len: u8,
    pub ars: Option<ArsBudget>,
    /// confirm ARS candidates with the real prover/verifier when k ≤ this
    pub real_k_max: u32,
    /// maximal number of output positions attacked / edited per input
    pub max_positions: usize,
    /// seed-move attacks: number of assigned advice cells (sampled) that are perturbed, per input,
    /// with a FREE instance; the public inputs the repaired assignment binds are then compared
    /// with the reference (0 = off)
    pub seed_cells: usize,
    /// number of inputs per operation that get seed-move attacks
    pub seed_inputs: usize,
    pub property: String,
}

impl OpOptions {
    pub fn new(property: &str, thorough: bool) -> Self {
        OpOptions {
            max_bit_len: 8,
            ars: Some(if thorough { ArsBudget::thorough() } else { ArsBudget::quick() }),
            real_k_max: 12,
            max_positions: if thorough { 64 } else { 6 },
            seed_cells: if thorough { 400 } else { 48 },
            seed_inputs: if thorough { 3 } else { 1 },
            property: property.to_string(),
        }
    }
}

#[derive(Default, Clone, Debug)]
pub struct OpStats {
    pub honest_runs: u64,
    pub edits: u64,
    pub out_of_domain: u64,
    pub ars_targets: u64,
    pub ars_nodes: u64,
    pub ars_candidates_wrong_output: u64,
    pub ars_candidates_same_output: u64,
    pub seed_attacks: u64,
    pub seed_candidates_same_statement: u64,
    pub seed_candidates_other_inputs: u64,
}

fn hexf(f: &F) -> String {
    hex::encode(f.to_bytes_le())
}

/// The instance vector the circuit itself binds on column `col`: values of the advice cells tied
/// to instance cells by copy constraints (positions without a tie keep `fallback`).
pub fn bound_instance(t: &Tables<F>, col: usize, fallback: &[F]) -> Vec<F> {
    let mut rows: BTreeMap<usize, F> = BTreeMap::new();
    for (a, b) in &t.copies {
        let (inst, other) = match (a, b) {
            (CellRef::Instance(c, r), o) if *c == col => (*r, o),
            (o, CellRef::Instance(c, r)) if *c == col => (*r, o),
            _ => continue,
        };
        rows.insert(inst, t.get(other));
    }
    let len = rows.keys().max().map(|m| m + 1).unwrap_or(0).max(fallback.len());
    (0..len).map(|i| rows.get(&i).copied().or(fallback.get(i).copied()).unwrap_or(F::ZERO)).collect()
}

/// Number of raw public inputs the circuit binds (max tied row + 1) on the plain column.
pub fn bound_len(t: &Tables<F>, col: usize) -> usize {
    let mut m = 0;
    for (a, b) in &t.copies {
        for x in [a, b] {
            if let CellRef::Instance(c, r) = x {
                if *c == col {
                    m = m.max(r + 1);
                }
            }
        }
    }
    m
}

fn mock_accepts<O: OpSpec>(k: u32, rel: &OpRel<O>, input: &O::In, pi: &[F], mbl: u8, changed: &BTreeMap<(usize, usize), F>) -> Result<bool, String> {
    let circuit = MidnightCircuit::new(rel, Value::known(pi.to_vec()), Value::known(input.clone()), Some(mbl));
    match catch_any(|| {
        let mut mp = MockProver::<F>::run(k, &circuit, vec![vec![], pi.to_vec()]).map_err(|e| format!("{e:?}"))?;
        for ((c, r), v) in changed {
            mp.advice_mut()[*c][*r] = CellValue::Assigned(*v);
        }
        Ok::<bool, String>(mp.verify().is_ok())
    }) {
        Ok(r) => r,
        Err(p) => Err(format!("panic@{}: {}", repo_file(&p.file), p.message)),
    }
}

/// Real prover under the fault plan + real verifier. `Ok(true)` = proof accepted.
fn real_accepts<O: OpSpec>(k: u32, rel: &OpRel<O>, input: &O::In, pi: &[F], changed: &BTreeMap<(usize, usize), F>) -> Result<bool, String> {
    let params = params_for(k);
    let r = catch_any(|| {
        let vk = midnight_zk_stdlib::setup_vk(params, rel);
        let pk = midnight_zk_stdlib::setup_pk(rel, &vk);
        midnight_proofs::verif_hooks::set_fault_plan::<F>(changed.clone());
        let proof = midnight_zk_stdlib::prove::<OpRel<O>, blake2b_simd::State>(
            params,
            &pk,
            rel,
            &pi.to_vec(),
            input.clone(),
            ChaCha8Rng::seed_from_u64(7),
        );
        let (hits, _) = midnight_proofs::verif_hooks::clear_fault_plan();
        let proof = match proof {
            Ok(p) => p,
            Err(_) => return Ok(false),
        };
        if hits.len() < changed.len() {
            return Err(format!("fault plan hit {} of {} cells", hits.len(), changed.len()));
        }
        Ok(midnight_zk_stdlib::verify::<OpRel<O>, blake2b_simd::State>(&params.verifier_params(), &vk, &pi.to_vec(), None, &proof).is_ok())
    });
    let _ = midnight_proofs::verif_hooks::clear_fault_plan();
    match r {
        Ok(x) => x,
        Err(p) => Err(format!("panic@{}: {}", repo_file(&p.file), p.message)),
    }
}

/// Runs all stages for one operation over the given inputs. Returns per-op statistics.
pub fn check_op<O: OpSpec>(op: &O, inputs: &[O::In], opts: &OpOptions, seed: u64, rep: &mut Report) -> OpStats {
    let mut st = OpStats::default();
    let name = op.name();
    let prop = &opts.property;
    let rel = OpRel(op.clone());
    let mbl = opts.max_bit_len;
    // k once per operation (structure must not depend on inputs: C09 checks that)
    let k = match catch_any(|| MidnightCircuit::new(&rel, Value::unknown(), Value::unknown(), Some(mbl)).min_k()) {
        Ok(k) => k,
        Err(p) => {
            rep.violation(
                &format!("{prop}/{name}/panic-on-unknown-witness@{}", repo_file(&p.file)),
                &format!("synthesising the operation with an unknown witness panics: {}", p.message),
                json!({"op": name, "panic": format!("{p:?}")}),
            );
            return st;
        }
    };
    let mut rng = crate::common::rng_for(seed, &format!("op-{name}"));
    for (ii, input) in inputs.iter().enumerate() {
        let expected = op.reference(input);
        let wit = || json!({"op": name, "input": format!("{input:?}"), "k": k, "max_bit_len": mbl});
        let n_in = op.n_input_positions(input);
        // --- honest run with a provisional instance, then read back what the circuit binds ---
        let provisional: Vec<F> = expected.clone().unwrap_or_default();
        let circuit = MidnightCircuit::new(&rel, Value::known(provisional.clone()), Value::known(input.clone()), Some(mbl));
        let collected = catch_any(|| {
            collect::<F, _>(k, &circuit, &[vec![], provisional.clone()], CollectOpts { with_values: true, record_trace: true })
        });
        rep.eval();
        st.honest_runs += 1;
        let mut tables = match collected {
            Err(p) => {
                if expected.is_some() {
                    rep.violation(
                        &format!("{prop}/{name}/panic-on-admissible-input@{}", repo_file(&p.file)),
                        &format!("synthesis panics on an admissible input: {}", p.message),
                        wit(),
                    );
                } else {
                    rep.count(&format!("{name}.out_of_domain.synthesis_panic(counted as rejection)"));
                    st.out_of_domain += 1;
                    rep.nontrivial(&(name.clone(), ii, "ood-panic"));
                }
                continue;
            }
            Ok(Err(e)) => {
                if expected.is_some() {
                    rep.violation(
                        &format!("{prop}/{name}/synthesis-error-on-admissible-input"),
                        &format!("synthesis fails on an admissible input: {e}"),
                        wit(),
                    );
                } else {
                    rep.count(&format!("{name}.out_of_domain.synthesis_error(rejection)"));
                    st.out_of_domain += 1;
                    rep.nontrivial(&(name.clone(), ii, "ood-err"));
                }
                continue;
            }
            Ok(Ok(t)) => t,
        };
        let bound = bound_instance(&tables, 1, &provisional);
        match &expected {
            None => {
                // out of domain: with the instance the circuit binds, it must not be satisfiable
                st.out_of_domain += 1;
                rep.nontrivial(&(name.clone(), ii, "ood"));
                let mut inst = tables.instance.clone();
                for (i, v) in bound.iter().enumerate() {
                    inst[1][i] = *v;
                }
                let old = std::mem::replace(&mut tables.instance, inst);
                let sat = tables.violations(1).is_empty();
                tables.instance = old;
                if sat {
                    // confirm with the repository's checker
                    let mock = mock_accepts(k, &rel, input, &bound, mbl, &BTreeMap::new());
                    if matches!(mock, Ok(true)) {
                        rep.violation(
                            &format!("{prop}/{name}/accepts-out-of-domain-input"),
                            "an input outside the documented domain yields a satisfiable circuit (reference evaluator and MockProver accept)",
                            json!({"op": name, "input": format!("{input:?}"), "bound_instance": bound.iter().map(hexf).collect::<Vec<_>>()}),
                        );
                    } else {
                        rep.inconclusive(&format!("{name}: out-of-domain input accepted by the reference evaluator but not by mock: {mock:?}"));
                    }
                } else {
                    rep.count(&format!("{name}.out_of_domain.rejected"));
                }
                continue;
            }
            Some(exp) => {
                // completeness
                if bound_len(&tables, 1) != exp.len() {
                    rep.violation(
                        &format!("{prop}/{name}/public-input-count"),
                        &format!("the circuit binds {} raw public inputs, the reference encoding has {}", bound_len(&tables, 1), exp.len()),
                        wit(),
                    );
                    continue;
                }
                let fails = tables.violations(4);
                if !fails.is_empty() {
                    rep.violation(
                        &format!("{prop}/{name}/rejects-honest"),
                        &format!(
                            "honest run with instance = reference(input) is unsatisfied: {:?}; circuit binds {:?}, reference says {:?}",
                            fails,
                            bound.iter().map(hexf).collect::<Vec<_>>(),
                            exp.iter().map(hexf).collect::<Vec<_>>()
                        ),
                        wit(),
                    );
                    continue;
                }
                match mock_accepts(k, &rel, input, exp, mbl, &BTreeMap::new()) {
                    Ok(true) => {}
                    other => {
                        rep.violation(
                            &format!("{prop}/{name}/mock-rejects-honest"),
                            &format!("MockProver rejects the honest run the reference evaluator accepts: {other:?}"),
                            wit(),
                        );
                        continue;
                    }
                }
                rep.nontrivial(&(name.clone(), fnv(format!("{input:?}").as_bytes())));
                if rep.samples.len() < rep.max_samples && ii == 0 {
                    rep.sample(json!({"op": name, "k": k, "input": format!("{input:?}"), "instance": exp.iter().map(hexf).collect::<Vec<_>>(),
                                      "assigned_advice_cells": tables.assigned_advice_cells().len()}));
                }
                // --- output edits ---
                let n_out = exp.len().saturating_sub(n_in);
                let positions: Vec<usize> = (n_in..exp.len()).take(opts.max_positions).collect();
                for &pos in &positions {
                    let mut targets = vec![exp[pos] + F::ONE, F::ZERO];
                    targets.extend(op.extra_targets(pos - n_in, exp[pos]));
                    targets.retain(|t| *t != exp[pos]);
                    targets.dedup();
                    for tv in targets {
                        st.edits += 1;
                        rep.eval();
                        let old = tables.instance[1][pos];
                        tables.instance[1][pos] = tv;
                        let sat = tables.violations(1).is_empty();
                        tables.instance[1][pos] = old;
                        if sat {
                            rep.violation(
                                &format!("{prop}/{name}/edited-output-accepted"),
                                &format!("honest witness accepted with output position {} edited", pos - n_in),
                                json!({"op": name, "input": format!("{input:?}"), "position": pos, "value": hexf(&tv)}),
                            );
                        }
                        // --- ARS towards this edited output ---
                        if let Some(budget) = &opts.ars {
                            st.ars_targets += 1;
                            let (att, stats) = attack(&mut tables, &[(1, pos, tv)], &[], budget, &mut rng);
                            st.ars_nodes += stats.nodes;
                            if let Some(att) = att {
                                st.ars_candidates_wrong_output += 1;
                                let mut target_pi = exp.clone();
                                target_pi[pos] = tv;
                                let mock = mock_accepts(k, &rel, input, &target_pi, mbl, &att.changed);
                                let real = if k <= opts.real_k_max {
                                    Some(real_accepts(k, &rel, input, &target_pi, &att.changed))
                                } else {
                                    None
                                };
                                let confirmed = matches!(mock, Ok(true)) && real.as_ref().map(|r| matches!(r, Ok(true))).unwrap_or(true);
                                let w = json!({"op": name, "input": format!("{input:?}"), "k": k, "position": pos - n_in,
                                    "honest_output": hexf(&exp[pos]), "forged_output": hexf(&tv),
                                    "changed_cells": att.changed.iter().map(|((c, r), v)| json!([c, r, hexf(v)])).collect::<Vec<_>>(),
                                    "mock": format!("{mock:?}"), "real": format!("{real:?}"), "nodes": stats.nodes});
                                if confirmed {
                                    rep.violation(
                                        &format!("{prop}/{name}/forged-output"),
                                        &format!(
                                            "adversarial assignment ({} changed cells) makes the circuit accept a wrong output at position {} (MockProver accepts; real verifier: {:?})",
                                            att.changed.len(),
                                            pos - n_in,
                                            real
                                        ),
                                        w,
                                    );
                                } else {
                                    rep.inconclusive(&format!("{name}: ARS candidate not confirmed by mock/real: mock={mock:?} real={real:?}"));
                                }
                                // restore the honest tables for the next target
                                tables = match collect::<F, _>(k, &circuit, &[vec![], exp.clone()], CollectOpts { with_values: true, record_trace: true }) {
                                    Ok(t) => t,
                                    Err(_) => break,
                                };
                            }
                        }
                    }
                }
                let _ = n_out;
                // --- seed-move attacks with a free instance ---------------------------------
                if let (Some(budget), true) = (&opts.ars, opts.seed_cells > 0 && ii < opts.seed_inputs && k <= opts.real_k_max) {
                    use rand::seq::SliceRandom;
                    let _ = budget;
                    let small = ArsBudget {
                        restarts: 2,
                        nodes_per_restart: 3000,
                        max_changed: 100_000,
                    };
                    let mut cells = tables.assigned_advice_cells();
                    cells.shuffle(&mut rng);
                    cells.truncate(opts.seed_cells);
                    let honest_advice = tables.advice.clone();
                    let honest_instance = tables.instance.clone();
                    for cell in cells {
                        st.seed_attacks += 1;
                        rep.eval();
                        let old = tables.advice[cell.0][cell.1];
                        let (att, stats) = super::ars::attack_free(&mut tables, &[(cell, old + F::ONE)], &small, &mut rng);
                        st.ars_nodes += stats.nodes;
                        let Some(att) = att else { continue };
                        let bound: Vec<F> = tables.instance[1][..exp.len()].to_vec();
                        tables.advice = honest_advice.clone();
                        tables.instance = honest_instance.clone();
                        if bound == *exp {
                            st.seed_candidates_same_statement += 1; // witness non-uniqueness
                            continue;
                        }
                        if bound[..n_in] != exp[..n_in] {
                            st.seed_candidates_other_inputs += 1; // a statement about other inputs
                            continue;
                        }
                        let mock = mock_accepts(k, &rel, input, &bound, mbl, &att.changed);
                        let real = if k <= opts.real_k_max { Some(real_accepts(k, &rel, input, &bound, &att.changed)) } else { None };
                        let confirmed = matches!(mock, Ok(true)) && real.as_ref().map(|r| matches!(r, Ok(true))).unwrap_or(true);
                        let w = json!({"op": name, "input": format!("{input:?}"), "k": k, "seed_cell": [cell.0, cell.1],
                            "reference_outputs": exp[n_in..].iter().map(hexf).collect::<Vec<_>>(),
                            "forged_outputs": bound[n_in..].iter().map(hexf).collect::<Vec<_>>(),
                            "changed_cells": att.changed.iter().map(|((c, r), v)| json!([c, r, hexf(v)])).collect::<Vec<_>>(),
                            "mock": format!("{mock:?}"), "real": format!("{real:?}")});
                        if confirmed {
                            rep.violation(
                                &format!("{prop}/{name}/forged-output"),
                                &format!(
                                    "perturbing one advice cell and repairing the rest ({} changed cells) yields an accepted assignment whose outputs differ from the definition on the same inputs (MockProver accepts; real verifier: {:?})",
                                    att.changed.len(),
                                    real
                                ),
                                w,
                            );
                            break;
                        } else {
                            rep.inconclusive(&format!("{name}: seed-move candidate not confirmed by mock/real: mock={mock:?} real={real:?}"));
                        }
                    }
                }
            }
        }
    }
    rep.count_n(&format!("{name}.honest_runs"), st.honest_runs);
    rep.count_n(&format!("{name}.edits"), st.edits);
    rep.count_n(&format!("{name}.ars_targets"), st.ars_targets);
    rep.count_n(&format!("{name}.ars_nodes"), st.ars_nodes);
    rep.count_n(&format!("{name}.seed_attacks"), st.seed_attacks);
    st
}

/// Convenience for evidence: a JSON summary of a list of per-op stats.
pub fn stats_json(all: &BTreeMap<String, OpStats>) -> Json {
    json!(all
        .iter()
        .map(|(k, s)| (
            k.clone(),
            json!({"honest": s.honest_runs, "edits": s.edits, "ood": s.out_of_domain, "ars_targets": s.ars_targets, "ars_nodes": s.ars_nodes,
                   "ars_wrong_output_candidates": s.ars_candidates_wrong_output})
        ))
        .collect::<BTreeMap<_, _>>())
}

// ---------------------------------------------------------------------------------------------
// C09: structure independence (E6 traces)
// ---------------------------------------------------------------------------------------------

use super::ref_eval::Event;

/// Canonical form of a structural trace: the table layouter fills the default rows of the table
/// columns in the iteration order of a hash map, so the relative order of consecutive
/// `FillFromRow` events carries no meaning (and differs from run to run); sort each such run.
pub fn normalise_trace(t: &[Event]) -> Vec<Event> {
    let mut out: Vec<Event> = Vec::with_capacity(t.len());
    let mut i = 0;
    while i < t.len() {
        if matches!(t[i], Event::FillFromRow { .. }) {
            let mut j = i;
            while j < t.len() && matches!(t[j], Event::FillFromRow { .. }) {
                j += 1;
            }
            let mut run: Vec<Event> = t[i..j].to_vec();
            run.sort_by_key(|e| match e {
                Event::FillFromRow { column, row, value } => (*column, *row, value.clone()),
                _ => unreachable!(),
            });
            out.extend(run);
            i = j;
        } else {
            out.push(t[i].clone());
            i += 1;
        }
    }
    out
}

/// First index at which two structural traces (in canonical form) differ.
pub fn first_trace_divergence(a: &[Event], b: &[Event]) -> Option<(usize, String, String)> {
    let (a, b) = (&normalise_trace(a), &normalise_trace(b));
    let n = a.len().max(b.len());
    for i in 0..n {
        if a.get(i) != b.get(i) {
            return Some((
                i,
                a.get(i).map(|e| e.describe()).unwrap_or_else(|| "<end>".into()),
                b.get(i).map(|e| e.describe()).unwrap_or_else(|| "<end>".into()),
            ));
        }
    }
    None
}

/// Structural trace of a stdlib relation with the given (possibly unknown) instance/witness.
pub fn relation_trace<R: Relation>(
    rel: &R,
    k: u32,
    mbl: u8,
    instance: Value<R::Instance>,
    witness: Value<R::Witness>,
    pi_len_hint: usize,
    with_values: bool,
) -> Result<(Vec<Event>, usize), String> {
    let circuit = MidnightCircuit::new(rel, instance, witness, Some(mbl));
    // the instance column content is irrelevant for the structure; give zeros of a plausible length
    let inst = vec![vec![], vec![F::ZERO; pi_len_hint]];
    let r = catch_any(|| {
        collect::<F, _>(
            k,
            &circuit,
            &inst,
            CollectOpts {
                with_values,
                record_trace: true,
            },
        )
    });
    match r {
        Ok(Ok(t)) => {
            let n_pi = bound_len(&t, 1);
            Ok((t.trace, n_pi))
        }
        Ok(Err(e)) => Err(e),
        Err(p) => Err(format!("panic@{}: {}", repo_file(&p.file), p.message)),
    }
}

/// C09 for one catalogue operation: the structural trace (regions, selectors, fixed
/// assignments, copies, positions of advice assignments, instance queries, number of public
/// inputs) must be the same for the unknown witness and for every concrete input.
pub fn structure_check<O: OpSpec>(op: &O, inputs: &[O::In], mbl: u8, prop: &str, rep: &mut Report) {
    let name = op.name();
    let rel = OpRel(op.clone());
    let k = match catch_any(|| MidnightCircuit::new(&rel, Value::unknown(), Value::unknown(), Some(mbl)).min_k()) {
        Ok(k) => k,
        Err(p) => {
            rep.inconclusive(&format!("{name}: min_k panicked: {}", p.message));
            return;
        }
    };
    rep.eval();
    let base = match relation_trace(&rel, k, mbl, Value::unknown(), Value::unknown(), 0, false) {
        Ok(x) => x,
        Err(e) => {
            rep.violation(
                &format!("{prop}/{name}/unknown-witness-synthesis-fails"),
                &format!("synthesis with an unknown witness fails: {e}"),
                json!({"op": name}),
            );
            return;
        }
    };
    // control: same (unknown) input twice must give the same trace, else nondeterminism
    if let Ok(again) = relation_trace(&rel, k, mbl, Value::unknown(), Value::unknown(), 0, false) {
        if first_trace_divergence(&again.0, &base.0).is_some() {
            rep.inconclusive(&format!("{name}: control run (unknown witness twice) differs — nondeterministic synthesis (C17)"));
            return;
        }
    }
    for input in inputs {
        rep.eval();
        let exp_len = op.reference(input).map(|v| v.len()).unwrap_or(base.1);
        match relation_trace(&rel, k, mbl, Value::known(vec![F::ZERO; exp_len]), Value::known(input.clone()), exp_len, true) {
            Err(e) => {
                // an out-of-domain input may legitimately fail to synthesise
                if op.reference(input).is_some() {
                    rep.count(&format!("{name}.known_witness_synthesis_error"));
                    let _ = e;
                }
            }
            Ok((trace, n_pi)) => {
                rep.nontrivial(&(name.clone(), fnv(format!("{input:?}").as_bytes())));
                if n_pi != base.1 {
                    rep.violation(
                        &format!("{prop}/{name}/public-input-count-depends-on-witness"),
                        &format!("number of public inputs is {} with an unknown witness and {n_pi} with a concrete one", base.1),
                        json!({"op": name, "input": format!("{input:?}")}),
                    );
                }
                if let Some((i, a, b)) = first_trace_divergence(&base.0, &trace) {
                    rep.violation(
                        &format!("{prop}/{name}/structure-depends-on-witness"),
                        &format!("structural trace differs at event {i}: unknown witness: {a} | concrete witness: {b}"),
                        json!({"op": name, "input": format!("{input:?}"), "event_index": i, "unknown": a, "concrete": b, "k": k}),
                    );
                } else {
                    rep.count_n("structural_events_compared", trace.len() as u64);
                }
            }
        }
    }
    if rep.samples.len() < rep.max_samples {
        rep.sample(json!({"op": name, "k": k, "trace_events": base.0.len(), "public_inputs": base.1, "inputs_compared": inputs.len(),
                          "first_events": base.0.iter().take(4).map(|e| e.describe()).collect::<Vec<_>>()}));
    }
}
