//! engine: catalogue (see DESIGN.md §4)
