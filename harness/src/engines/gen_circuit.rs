//! engine: gen_circuit (see DESIGN.md §4)
